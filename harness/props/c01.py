"""C01 — flatten() output rebuilds the same element tree through from_flat()."""
import datetime
import copy
from collections import Counter

from harness import flatlib as fl
from harness.core import Property
from harness.props.c07 import _shrink_schema_value
from harness.props.c02 import strip_blank_sparse, _is_blank


def blank_state(s):
    t = s["t"]
    if t == "leaf":
        return {"leaf": ""}
    if t == "joined":
        return {"joined": ["", []]}
    if t == "compound":
        return {"dict": [[f["name"], blank_state(f)] for f in s["fields"]]}
    if t == "dict":
        if s["mode"] == "dense":
            return {"dict": [[f["name"], blank_state(f)] for f in s["fields"]]}
        if s["mode"] == "sparse":
            return {"dict": []}
        return {"dict": [[f["name"], blank_state(f)] for f in s["fields"] if not f.get("opt")]}
    if t == "list":
        return {"list": []}
    if t == "array":
        return {"array": []}
    raise ValueError(t)


def has_nonempty(e, s):
    """Does the element emit at least one flat pair with a non-empty value?"""
    t = s["t"]
    if t == "leaf":
        return e["leaf"] != ""
    if t == "joined":
        return e["joined"][0] != ""
    if t in ("dict", "compound"):
        fields = {f["name"]: f for f in s["fields"]}
        # a compound's own pair is not read back by set_flat, only its members' pairs are
        return any(has_nonempty(v, fields[k]) for k, v in e["dict"])
    if t == "list":
        return any(has_nonempty(m, s["member"]) for m in e["list"])
    if t == "array":
        return any(has_nonempty(m, s["member"]) for m in e["array"])
    return False


def prune_state(e, s, under, arrays=True, ceil=False, bare=False):
    """The documented loss, computed independently of set_flat: below a pruning sequence every
    member all of whose flattened values are '' is dropped (trailing ones only for a non-pruning
    list nested below a pruning one, interior ones come back blank); pruning Arrays drop ''
    members.  `under` = some enclosing List prunes (so empty-valued pairs never arrive)."""
    t = s["t"]
    if t in ("leaf", "joined"):
        return e
    if t in ("dict", "compound"):
        fields = {f["name"]: f for f in s["fields"]}
        return {"dict": [[k, prune_state(v, fields[k], under, arrays, ceil)] for k, v in e["dict"]]}
    if t == "list":
        ms = e["list"]
        if s["prune"]:
            keep = [m for m in ms if has_nonempty(m, s["member"])]
            if ceil:
                keep = keep[: s["max"]]        # maximum_set_flat_members: the first `max` surviving indexes
            return {"list": [prune_state(m, s["member"], True, arrays, ceil, True) for m in keep]}
        if ceil and not under:
            ms = ms[: s["max"]]                # … or the indexes below `max`
        if under:
            last = -1
            for i, m in enumerate(ms):
                if has_nonempty(m, s["member"]):
                    last = i
            out = []
            for m in ms[: last + 1]:
                out.append(prune_state(m, s["member"], True, arrays, ceil, True) if has_nonempty(m, s["member"]) else blank_state(s["member"]))
            if ceil:
                out = out[: s["max"]]          # slots run up to the last surviving index, capped by `max`
            return {"list": out}
        return {"list": [prune_state(m, s["member"], False, arrays, ceil, True) for m in ms]}
    if t == "array":
        ms = e["array"]
        # an anonymous Array of anonymous members (reached through a bare list index) is handed the key
        # None, for which its own prune filter does not fire (Lean spec: arrayPrunes)
        own = s["prune"] and not (bare and s["name"] is None and s["member"]["name"] is None)
        if (own and arrays) or under:
            ms = [m for m in ms if has_nonempty(m, s["member"])]
        return {"array": ms}
    return e


def settle_state(e, s, kinds, under=False):
    """The state with every scalar / JoinedString text replaced by what its own set(text) makes of it
    (what from_flat necessarily does to a leaf whose pair arrives).  Below a pruning List (`under`) an
    empty-valued pair never arrives, so such a leaf stays as a fresh element has it.  Used only to state
    what the leaf-level known findings predict; for settled leaves it is the identity."""
    t = s["t"]
    if t == "leaf":
        if under and e["leaf"] == "":
            return e
        kind = kinds[s["k"]]
        if kind.get("type") == "Boolean" and e["leaf"] == "" and kind.get("false", "") != "":
            return {"leaf": kind["false"]}          # KF-C01-h, from the kind description
        probe = fl.kind_class(kinds[s["k"]])()
        try:
            probe.set(e["leaf"])
        except Exception:
            return e
        return {"leaf": probe.u}
    if t == "joined":
        if under and e["joined"][0] == "":
            return {"joined": ["", []]}
        probe = fl.kind_class(kinds[s["k"]])()
        try:
            probe.set(e["joined"][0])
        except Exception:
            return e
        return {"joined": [probe.u, [{"leaf": m.u} for m in probe]]}
    if t in ("dict", "compound"):
        fields = {f["name"]: f for f in s["fields"]}
        return {"dict": [[k, settle_state(v, fields[k], kinds, under)] for k, v in e["dict"]]}
    if t == "list":
        return {"list": [settle_state(m, s["member"], kinds, under or s["prune"]) for m in e["list"]]}
    if t == "array":
        return {"array": [settle_state(m, s["member"], kinds, under) for m in e["array"]]}
    return e


def _leaf_class(u):
    """Which recorded leaf-level finding explains ONE unsettled leaf — decided from the leaf's kind
    description and state, not from what the library under test makes of it."""
    t, text, retext, _key, _v, _pv, info = u
    kind = info["kind"]
    if t in ("Time", "Date", "DateTime"):
        # KF-C01-b: a native with more precision than the text form; the text itself is settled
        return "KF-C01-b" if info["extra"] and retext == text else None
    if t == "Float":
        # KF-C01-c: rejected input whose text Python reads as an infinity
        try:
            inf = info["value_none"] and float(text) in (float("inf"), float("-inf"))
        except ValueError:
            inf = False
        return "KF-C01-c" if inf else None
    if t == "Boolean":
        # KF-C01-h: custom false token; the never-set / None text '' reads back as False
        return "KF-C01-h" if text == "" and kind.get("false", "") != "" and retext == kind.get("false") else None
    if t == "Joined":
        # KF-C01-i (= KF-C18-c): a member text contains a separator match, so the joined text splits differently
        sepj = kind.get("sep", ",")
        ms = info["members"] or []
        return "KF-C01-i" if any(sepj in m for m in ms) and sepj.join(ms) == text else None
    return None


def leaf_finding(entries):
    """The finding that explains a failure whose prediction already matched: every unsettled leaf must be
    explained by a recorded finding (several may be at work at once)."""
    entries = list(entries)
    if not entries:
        return None
    ids = [_leaf_class(u) for u in entries]
    if any(i is None for i in ids):
        return None
    return sorted(ids)[0]


def over_ceiling(e, s):
    """Does some List of the state hold more members than its maximum_set_flat_members?"""
    t = s["t"]
    if t in ("dict", "compound"):
        fields = {f["name"]: f for f in s["fields"]}
        return any(over_ceiling(v, fields[k]) for k, v in e["dict"])
    if t == "list":
        return len(e["list"]) > s["max"] or any(over_ceiling(m, s["member"]) for m in e["list"])
    return False


def order_normal(e, s):
    """Members of sparse dicts in the order from_flat rebuilds them (the prediction of KF-C01-d)."""
    t = s["t"]
    if t in ("dict", "compound"):
        fields = {f["name"]: f for f in s["fields"]}
        order = {f["name"]: i for i, f in enumerate(s["fields"])}
        ms = [[k, order_normal(v, fields[k])] for k, v in e["dict"]]
        # a rebuilt SparseDict(minimum_fields='required') holds its required members first (created by
        # _reset), then the ones the pairs materialise, both in schema order
        req_first = s.get("mode") == "sparseReq"
        ms.sort(key=lambda p: (1 if req_first and fields[p[0]].get("opt") else 0, order[p[0]]))
        return {"dict": ms}
    if t == "list":
        return {"list": [order_normal(m, s["member"]) for m in e["list"]]}
    return e


def _pairless(e):
    """The state emits no pair at all (so no flat input can tell it from an absent slot)."""
    if "dict" in e:
        return all(_pairless(v) for _, v in e["dict"])
    if "list" in e:
        return all(_pairless(m) for m in e["list"])
    if "array" in e:
        return not e["array"]
    return False


def drop_pairless_tail(e, s):
    """Trailing list slots that emit no pair are invisible to flatten(): normalise them away."""
    t = s["t"]
    if t in ("dict", "compound") and "dict" in e:
        fields = {f["name"]: f for f in s["fields"]}
        return {"dict": [[k, drop_pairless_tail(v, fields[k])] for k, v in e["dict"]]}
    if t == "list" and "list" in e:
        ms = [drop_pairless_tail(m, s["member"]) for m in e["list"]]
        while ms and _pairless(ms[-1]):
            ms.pop()
        return {"list": ms}
    return e


def leaf_values(el, s, sep):
    """(key, repr(value)) of non-empty leaves of exactly-serialising kinds."""
    out = []
    for e, sc in fl.walk_elements(el, s):
        if sc["t"] == "leaf" and e.u != "":
            if any(not p.children_flattenable for p in e.parents):
                continue
            out.append((e.flattened_name(sep), repr(e.value), sc["k"], e.u))
    return out


def unsettled_leaves(el, schema, kinds, sep=None):
    """Leaves whose text is not a fixpoint of their own set() — the round trip cannot be exact."""
    out = []
    for e, sc in fl.walk_elements(el, schema):
        if sc["t"] in ("leaf", "joined"):
            if any(not p.children_flattenable for p in e.parents):
                continue
            kind = kinds[sc["k"]]
            probe = fl.kind_class(kind)()
            try:
                probe.set(e.u)
            except Exception:
                continue
            if probe.u != e.u or (sc["t"] == "leaf" and kind["type"] in fl.EXACT_TYPES and e.u != "" and probe.value != e.value):
                v = e.value
                extra = (isinstance(v, datetime.datetime) if kind["type"] == "Date"
                         else bool(getattr(v, "microsecond", 0)) if kind["type"] in ("Time", "DateTime") else False)
                members = [m.u for m in list.__iter__(e)] if sc["t"] == "joined" else None
                out.append((kind["type"], e.u, probe.u, e.flattened_name(sep) if sep is not None else None,
                            repr(e.value), repr(probe.value), {"extra": extra, "kind": kind, "members": members,
                                                               "value_none": v is None}))
    return out


def flatten_state(e, s, sep):
    """Expected flatten() output of an element state, breadth-first, written independently of the
    library: key = separator-join of the names on the path, list members contribute their index."""
    out = []

    def own_text(e, s):
        if s["t"] == "leaf":
            return e["leaf"]
        if s["t"] == "joined":
            return e["joined"][0]
        if s["t"] == "compound":
            return fl.compose_text([(k, own_text(v, f)) for k, v in e["dict"] for f in s["fields"] if f["name"] == k])
        return None

    queue = [([], e, s)]
    first = True
    while queue:
        path, e, s = queue.pop(0)
        names = path + ([s["name"]] if s["name"] is not None else [])
        t = s["t"]
        if t in ("leaf", "joined", "compound"):
            out.append((sep.join(names), own_text(e, s)))
        if t in ("dict", "compound"):
            fields = {f["name"]: f for f in s["fields"]}
            for k, v in e["dict"]:
                queue.append((names, v, fields[k]))
        elif t == "list":
            for i, m in enumerate(e["list"]):
                queue.append((names + [str(i)], m, s["member"]))
        elif t == "array":
            for m in e["array"]:
                queue.append((names, m, s["member"]))
    return out


# ----------------------------------------------------------------------------------------
# roundtrip_sparse (Proofs/C01Sparse.lean): spec `prS` and hypothesis `OkS`, transcribed from
# Flatland/Spec/C01Sparse.lean independently of the Lean runner, on element STATES

_NORM_CACHE = {}


def _norm(kind, text):
    key = (repr(sorted(kind.items(), key=str)) if isinstance(kind, dict) else repr(kind), text)
    if key not in _NORM_CACHE:
        _NORM_CACHE[key] = fl.norm_text(kind, text)
    return _NORM_CACHE[key]


def wf_schema(s):
    """Lean `wf`: mapping fields are named and pairwise distinct."""
    for x in fl.walk_schema(s):
        if x["t"] in ("dict", "compound"):
            names = [f["name"] for f in x["fields"]]
            if any(n is None for n in names) or len(set(names)) != len(names):
                return False
    return True


def root_ok(s):
    """Lean `rootOK`."""
    if s["t"] in ("leaf", "joined", "compound"):
        return s["name"] is not None
    if s["t"] == "array":
        return s["name"] is not None or s["member"]["name"] is not None
    return True


def ok_state(e, s, kinds, maxdigits):
    """Lean `OkS` / `okSB`: conforming, settled state — the members of a mapping are any subset of the
    declared fields in any order."""
    t = s["t"]
    if t == "leaf":
        return "leaf" in e and _norm(kinds[s["k"]], e["leaf"])[0] == e["leaf"]
    if t == "joined":
        if "joined" not in e:
            return False
        u, ms = e["joined"]
        nu, members = _norm(kinds[s["k"]], u)
        if nu != u:
            return False
        texts = [m.get("leaf") for m in ms]
        return (members is not None and texts == list(members)) or (u == "" and ms == [])
    if t == "array":
        m = s["member"]
        if "array" not in e or m["t"] != "leaf":
            return False
        return all("leaf" in x and _norm(kinds[m["k"]], x["leaf"])[0] == x["leaf"] for x in e["array"])
    if t in ("dict", "compound"):
        if "dict" not in e:
            return False
        keys = [k for k, _ in e["dict"]]
        if len(set(keys)) != len(keys):
            return False
        for k, v in e["dict"]:
            if not any(f["name"] == k and ok_state(v, f, kinds, maxdigits) for f in s["fields"]):
                return False
        return True
    if t == "list":
        if "list" not in e:
            return False
        ms = e["list"]
        if len(ms) > s["max"] or (ms and len(str(len(ms) - 1)) > maxdigits):
            return False
        return all(ok_state(m, s["member"], kinds, maxdigits) for m in ms)
    return False


def _keep(u, v):
    return (not u) or v != ""


def emits_state(e, s, u):
    """Lean `emitsB`: the state still emits a pair when empty values are dropped (`u`)."""
    return any(_keep(u, v) for _, v in flatten_state(e, s, ""))


def is_req(s, f):
    """Lean `isReq`: the fields a fresh mapping is created with."""
    if s["t"] == "compound" or s["mode"] == "dense":
        return True
    if s["mode"] == "sparse":
        return False
    return not f.get("opt")


def prs_state(e, s, sep, u, kinds):
    """Lean `prS`: what from_flat(flatten(e)) rebuilds — the documented pruning plus the sparse
    normalisation (minimum members first, then the other touched fields, in declaration order)."""
    t = s["t"]
    if t == "leaf":
        return e
    if t == "joined":
        text = e["joined"][0]
        if u and text == "":
            return {"joined": ["", []]}
        members = _norm(kinds[s["k"]], text)[1] or []
        return {"joined": [text, [{"leaf": m} for m in members]]}
    if t == "array":
        m = s["member"]
        own = s["prune"] and not (s["name"] is None and m["name"] is None)
        uu = u or own
        return {"array": [x for x in e["array"] if emits_state(x, m, uu)]}
    if t in ("dict", "compound"):
        anon = {"t": "dict", "name": None, "opt": False, "mode": "sparse", "fields": s["fields"]}
        keys = [k for k, v in flatten_state(e, anon, sep) if _keep(u, v)]
        held = dict((k, v) for k, v in e["dict"])
        first, second = [], []
        for f in s["fields"]:
            nf = f["name"]
            touched = any(k.startswith(nf) for k in keys)
            val = prs_state(held[nf], f, sep, u, kinds) if nf in held else blank_state(f)
            if is_req(s, f):
                first.append([nf, val if touched else blank_state(f)])
            elif touched:
                second.append([nf, val])
        return {"dict": first + second}
    if t == "list":
        ms, m = e["list"], s["member"]
        if s["prune"]:
            return {"list": [prs_state(x, m, sep, True, kinds) for x in ms if emits_state(x, m, True)]}
        keep = list(ms)
        while keep and not emits_state(keep[-1], m, u):
            keep.pop()
        return {"list": [prs_state(x, m, sep, u, kinds) if emits_state(x, m, u) else blank_state(m) for x in keep]}
    return e


def sparse_normal(e, s):
    """Lean `sparseNormal`: every mapping holds its members minimum-first, then in declaration order."""
    t = s["t"]
    if t in ("dict", "compound") and "dict" in e:
        fields = {f["name"]: f for f in s["fields"]}
        order = {f["name"]: i for i, f in enumerate(s["fields"])}
        n = len(s["fields"])
        ranks = []
        for k, v in e["dict"]:
            if k not in fields:
                return False
            ranks.append((0 if is_req(s, fields[k]) else n + 1) + order[k])
            if not sparse_normal(v, fields[k]):
                return False
        return all(a < b for a, b in zip(ranks, ranks[1:]))
    if t == "list" and "list" in e:
        return all(sparse_normal(m, s["member"]) for m in e["list"])
    return True


def _walk_states(e, s):
    yield e, s
    t = s["t"]
    if t in ("dict", "compound") and "dict" in e:
        fields = {f["name"]: f for f in s["fields"]}
        for k, v in e["dict"]:
            if k in fields:
                yield from _walk_states(v, fields[k])
    elif t == "list" and "list" in e:
        for m in e["list"]:
            yield from _walk_states(m, s["member"])


def thm_hyp(s0, schema, kinds, maxdigits):
    """The decidable hypotheses of `roundtrip_sparse` (everything but SepSafe)."""
    return wf_schema(schema) and root_ok(schema) and ok_state(s0, schema, kinds, maxdigits)


def force_max(s):
    for x in fl.walk_schema(s):
        if x["t"] == "list":
            x["max"] = 1024
    return s


class C01(Property):
    id = "C01"
    title = "flatten() output rebuilds the same element tree through from_flat()"
    proof_module = "Proofs.C01SparseDense"
    extra_proof_modules = ["Proofs.C01SparseSecond", "Proofs.C01SparseSecondCompoundEx"]
    level_text = ('Lean 4 theorem `roundtrip_sparse` (= `c01_sparse_full`, stated and proved at full strength): for EVERY well-formed schema — Dict, Schema, Compound, SparseDict (plain and minimum_fields=\'required\'), List pruning or not, Array/MultiValue, JoinedString, every scalar kind, any depth —, every SepSafe separator and every conforming settled element state e (`OkS`: a mapping holds ANY subset of its declared fields in ANY order), from_flat(flatten(e)) rebuilds exactly the tree `prS e`: the documented pruning `pr` (pruning Lists keep the members that still emit a non-empty value, renumbered; non-pruning Lists lose trailing members without a flat representation; Arrays drop empty members when pruning applies) plus the sparse normalisation of KF-C01-d/e written as a function on states — a rebuilt mapping holds the members a fresh one is created with first (minimum_fields), then the other fields some surviving key of the mapping STARTS WITH (`touched`: the startswith of Mapping._set_flat, so a member that emits no surviving pair is absent and an absent field whose name is a prefix of a sibling\'s key is materialised blank), all in declaration order. Without SparseDicts `prS = pr` (`prS_eq_pr`) and this is `roundtrip_pruned`/`roundtrip` (e itself when no pruning applies); `roundtrip_second_flatten`: without SparseDicts a second round trip leaves the flat output unchanged (the tree may still change: [[a],[\'\']] -> [[a],[]] -> [[a]]); `roundtrip_flatten_noprune`, `roundtrip_flatten_sub`: flat-level clauses without SparseDicts; `roundtrip_sparse_second`: with SparseDicts the second trip is again prS once the rebuilt tree conforms; `roundtrip_sparse_second_flat_partial`: WITH SparseDicts, when every scalar kind reads \'\' back as \'\' (blankSettled) and no field name is a prefix of a sibling\'s (prefixFree), a second round trip leaves the flat output unchanged — for every well-formed schema, Compounds included (`roundtrip_sparse_second_flat_compound_partial`: decidable hypotheses arraysScalar and compoundsFull — every Compound state holds exactly its declared fields, true of every real Compound and of every rebuilt tree, `compoundsFull_prS`; the Compound-free form `roundtrip_sparse_second_flat_partial` is the corollary; without compoundsFull the statement is false for a contrived `compose`, witness described in NOTES-p4.md, not formalised); `roundtrip_sparse_rebuilt`: the rebuilt tree conforms again (`prS_okS`, under blankSettled), is in normal order (`prS_sparseNormal`, needs only wf) and is stable (`stableS_prS`); `touched_iff`: under prefixFree a field is touched iff its member is present and still emits; `second_trip_needs_blankSettled`, `second_trip_needs_prefixFree`: both extra hypotheses are needed (concrete schema + state whose flat output differs between trip 1 and trip 2). The proofs go through the real breadth-first order, the sloppy startswith of Mapping._set_flat (first-layer confinement `reach_filter`, which unlike C02\'s `confined` holds for SparseDicts too) and the List index recogniser. Model tied to /repo by differential correspondence on states extracted from real elements: the Lean runner returns `prS e` and the decidable hypotheses (`okSB`, proved sound: `roundtrip_sparse_checked`); whenever they hold and the separator is SepSafe the harness demands that the tree the REAL from_flat(flatten(e)) builds equals `prS e`; an independent Python transcription of prS/OkS states the same clause in the oracle. Native leaf values are decided by the Python oracle on every case.')
    level_note = ("Trusted: Lean kernel + propext/Classical.choice/Quot.sound; hand-written model Flatland/Flat.lean (tied by correspondence, 2.5k/80k cases per run; the theorem's hypotheses hold on ~77% of the generated cases and on ~80% of those whose schema contains a SparseDict — tags thm-sparse-applies*); scalar set(text) and compound texts enter as tables computed from the real classes in isolation (C04/C18); SepSafe is stronger than 'separator not in names' (KF-C01-a) and is decided by the harness (fl.sep_safe), not inside Lean; Since rounds k3/p4 THEOREMS for all schemas whose Compound states are full (prS_sparseNormal for all), still checked at run time by the Lean runner on every case the theorem applies to (flag spec_agrees): sparseNormal(prS e), and — when every scalar kind reads '' back as '' (blankSettled; false for Boolean(false='no'), KF-C01-h) — OkS(prS e), and — when additionally no field name is a prefix of a sibling's (prefixFree) — flatten(prS(prS e)) = flatten(prS e); both extra hypotheses are needed: without blankSettled a materialised blank Boolean(false='no') member reads back as 'no' on the second trip, without prefixFree the second trip can materialise further blank members (cascade through a materialised blank Dict holding a SparseDict/required; Lean witnesses second_trip_needs_blankSettled / second_trip_needs_prefixFree). Negation witnesses: roundtrip_sparse_fails (identical flat output is false with SparseDicts: member order), unsettled leaf example in Proofs/C01SparseExamples.lean.")
    technique = 'Lean 4 proof (structural induction + level-order lemma + confinement) over a hand-written model; differential correspondence; Python oracle'
    theorems = [
        "Flatland.Flat.Proofs.roundtrip_sparse",
        "Flatland.Flat.Proofs.c01_sparse_full",
        "Flatland.Flat.Proofs.roundtrip_sparse_flatten",
        "Flatland.Flat.Proofs.roundtrip_sparse_second",
        "Flatland.Flat.Proofs.roundtrip_sparse_checked",
        "Flatland.Flat.Proofs.roundtrip_sparse_second_flat_partial",
        "Flatland.Flat.Proofs.roundtrip_sparse_second_flat_compound_partial",
        "Flatland.Flat.Proofs.flatten_prS_prS_full",
        "Flatland.Flat.Proofs.compoundsFull_of_compoundFree",
        "Flatland.Flat.Proofs.compoundsFull_prS",
        "Flatland.Flat.Proofs.exC_second",
        "Flatland.Flat.Proofs.roundtrip_sparse_rebuilt",
        "Flatland.Flat.Proofs.flatten_prS_prS",
        "Flatland.Flat.Proofs.prS_okS",
        "Flatland.Flat.Proofs.okS_blank",
        "Flatland.Flat.Proofs.prS_sparseNormal",
        "Flatland.Flat.Proofs.touched_iff",
        "Flatland.Flat.Proofs.stableS_prS",
        "Flatland.Flat.Proofs.stableS_blank",
        "Flatland.Flat.Proofs.lvl_prS",
        "Flatland.Flat.Proofs.bl_stable",
        "Flatland.Flat.Proofs.emitsB_prS_true",
        "Flatland.Flat.Proofs.second_trip_needs_blankSettled",
        "Flatland.Flat.Proofs.second_trip_needs_prefixFree",
        "Flatland.Flat.Proofs.sparse_tree_changes_second",
        "Flatland.Flat.Proofs.prS_eq_pr",
        "Flatland.Flat.Proofs.okS_of_okP",
        "Flatland.Flat.Proofs.okSB_sound",
        "Flatland.Flat.Proofs.wfS_eq",
        "Flatland.Flat.Proofs.rts_all",
        "Flatland.Flat.Proofs.rts_mapping",
        "Flatland.Flat.Proofs.rts_list",
        "Flatland.Flat.Proofs.field_roundtripS",
        "Flatland.Flat.Proofs.setFields_closed",
        "Flatland.Flat.Proofs.reach_filter",
        "Flatland.Flat.Proofs.reach_other_head",
        "Flatland.Flat.Proofs.roundtrip_pruned",
        "Flatland.Flat.Proofs.roundtrip_second_flatten",
        "Flatland.Flat.Proofs.roundtrip_flatten_noprune",
        "Flatland.Flat.Proofs.roundtrip_flatten_sub",
        "Flatland.Flat.Proofs.roundtrip_values_nonempty",
        "Flatland.Flat.Proofs.flatten_pr_pr",
        "Flatland.Flat.Proofs.okP_pr",
        "Flatland.Flat.Proofs.rtp_all",
        "Flatland.Flat.Proofs.rtp_list",
        "Flatland.Flat.Proofs.roundtrip",
        "Flatland.Flat.Proofs.roundtrip_flatten",
        "Flatland.Flat.Proofs.roundtrip_second",
        "Flatland.Flat.Proofs.rt_all",
        "Flatland.Flat.Proofs.field_roundtrip",
        "Flatland.Flat.Proofs.rt_list",
        "Flatland.Flat.Proofs.sepSafe_single_char",
        "Flatland.Flat.Proofs.roundtrip_sparse_fails",
    ]
    trusted_base = [
        "scalar set(text) and compound text are inputs of the flat model (env tables from the real classes in isolation; C04/C18)",
        "the populated element's state is extracted from the real element after set(); the model recomputes flatten, from_flat and both round trips",
    ]
    assumptions = [
        "a quarter of the generated trees get 1-3 later set() calls on single scalar leaves (values of the kind, text, None, non-text values no scalar adapts); members of a JoinedString are not set individually here: a member of a pruning JoinedString set to '' is KF-C18-a, reported by the C18 check",
        "SepSafe(sep, names): stronger than 'the separator does not occur in names' (overlaps are KF-C01-a)",
        "OkS(e): every scalar text is a fixpoint of its own set() (else KF-C01-b/c/f/h/i), mapping keys are declared fields, Array members are scalars; decided by the Lean runner (okSB, proved sound) and, independently, by the harness (ok_state) — the two answers are compared on every case (key thm_hyp)",
        "the theorems assume no List is longer than its maximum_set_flat_members (default 1024); longer lists are truncated by from_flat — recorded as KF-C01-g and exercised by 30% of the generated cases",
    ]
    rule = ("random schemas (Dict/SparseDict/List pruning and not/Array/MultiValue/JoinedString/DateYYYYMMDD/every scalar kind, depth<=4, "
            "hostile names) x native values (valid, unadaptable text, None, '', whitespace) x 21 separators incl. regex-special, multi-char, NUL; "
            "non-trivial = >=3 pairs and a sequence or mapping below the root; distinct = canonical case JSON")
    quick_n = 2500
    thorough_n = 80000

    def corpus(self):
        S = lambda name, k=0: {"t": "leaf", "name": name, "opt": False, "k": k}
        kinds = [fl.LEAF_KINDS[0], fl.LEAF_KINDS[7], fl.LEAF_KINDS[11]]
        overlap = {"schema": {"t": "dict", "name": None, "opt": False, "mode": "dense", "fields": [
            {"t": "dict", "name": "a_", "opt": False, "mode": "dense", "fields": [S("b")]},
            {"t": "dict", "name": "a", "opt": False, "mode": "dense", "fields": [S("_b")]}]},
            "kinds": kinds, "sep": "__", "value": {"d": [["a_", {"d": [["b", {"s": "1"}]]}], ["a", {"d": [["_b", {"s": "2"}]]}]]}}
        time_us = {"schema": S("t", 1), "kinds": kinds, "sep": "_", "value": {"time": [1, 2, 3, 5]}}
        float_big = {"schema": S("f", 2), "kinds": kinds, "sep": "_", "value": {"i": str(10 ** 400)}}
        sparse_order = {"schema": {"t": "dict", "name": None, "opt": False, "mode": "sparse", "fields": [S("a"), S("b")]},
                        "kinds": kinds, "sep": "_", "value": {"d": [["b", {"s": "1"}], ["a", {"s": "2"}]]}}
        regex_sep = {"schema": {"t": "list", "name": "l", "opt": False, "prune": False, "max": 1024, "member": S("s")},
                     "kinds": kinds, "sep": "|", "value": [{"s": "a"}, {"s": ""}, {"s": "c"}]}
        ceiling = {"schema": {"t": "list", "name": "l", "opt": False, "prune": False, "max": 2, "member": S("s")},
                   "kinds": kinds, "sep": "_", "value": [{"s": "a"}, {"s": "b"}, {"s": "c"}]}      # KF-C01-g
        # KF-C01-e: a blank member of a SparseDict below a pruning List does not come back
        sparse_blank = {"schema": {"t": "list", "name": "l", "opt": False, "prune": True, "max": 1024, "member":
                        {"t": "dict", "name": None, "opt": False, "mode": "sparse", "fields": [S("a"), S("b")]}},
                        "kinds": kinds, "sep": "_", "value": [{"d": [["a", {"s": "1"}], ["b", {"s": ""}]]}]}
        # KF-C01-h: a never-set Boolean with custom tokens flattens to '' and comes back as 'no'
        kinds_h = [fl.LEAF_KINDS[0], fl.LEAF_KINDS[13]]
        bool_custom = {"schema": {"t": "dict", "name": None, "opt": False, "mode": "dense", "fields": [S("a"), S("f", 1)]},
                       "kinds": kinds_h, "sep": "_", "value": {"d": [["a", {"s": "1"}]]}}
        # KF-C01-i: a JoinedString member text containing the separator splits differently on the way back
        jk = {"type": "Joined", "sep": ",", "prune": False, "member": fl.LEAF_KINDS[0]}
        kinds_i = [fl.LEAF_KINDS[0], jk]
        joined_sep = {"schema": {"t": "joined", "name": "j", "opt": False, "k": 1,
                                 "member": {"t": "leaf", "name": None, "opt": False, "k": 0}},
                      "kinds": kinds_i, "sep": "_", "value": [{"s": "a ,b"}, {"s": "c"}]}
        extra = []
        try:
            import json as _json, os as _os
            _p = _os.path.join(_os.path.dirname(__file__), 'c01_corpus.json')
            if _os.path.exists(_p):
                extra = _json.load(open(_p))
        except Exception:
            extra = []
        return extra + [overlap, time_us, float_big, sparse_order, regex_sep, ceiling, sparse_blank, bool_custom, joined_sep]

    def generate(self, rng, n, tier):
        for _ in range(n):
            sep = rng.choice(fl.SEP_POOL)
            kinds = []
            schema = fl.gen_schema(rng, sep, rng.choice([1, 2, 2, 3, 3, 4]), kinds)
            for _retry in range(3):
                if schema["t"] in ("leaf", "joined") and rng.random() < 0.85:
                    kinds = []
                    schema = fl.gen_schema(rng, sep, rng.choice([2, 3, 3, 4]), kinds)
            if rng.random() < 0.7:
                force_max(schema)      # most cases keep the ceiling out of the way; the rest exercise KF-C01-g
            case = {"schema": schema, "kinds": kinds, "sep": sep, "value": fl.gen_value(rng, schema, kinds, hostile=0.12)}
            if rng.random() < 0.25:
                # "populated with set()" also means set() on single members afterwards: some scalar leaves of the
                # populated tree are set again (1-3 times), with values of their kind, with text, and with values
                # no scalar adapts (a list, a dict): a rejected second set() must not leave the first one's native
                # value behind (seeded C01-rejected-nontext-keeps-value)
                case["resets"] = [_gen_reset(rng, kinds) for _ in range(rng.randint(1, 3))]
            yield case

    def _trip(self, case):
        schema, kinds, sep = case["schema"], case["kinds"], case["sep"]
        cls = fl.build_class(schema, kinds)
        el = cls()
        try:
            el.set(fl.decode_native(case["value"]))
        except (KeyError, TypeError, ValueError) as e:
            return None, "set() rejected the value: %s" % type(e).__name__
        for r in case.get("resets", ()):
            # leaves of the FLAT form: a JoinedString is one leaf; its members are not set individually here (a
            # member of a pruning JoinedString set to '' is KF-C18-a, reported by the C18 check)
            leaves = _flat_leaves(el, schema)
            if not leaves:
                break
            leaf, ls = leaves[r["leaf"] % len(leaves)]
            v = r["v"]
            if isinstance(v, dict) and "kindv" in v:
                v = v["kindv"][ls["k"] % len(v["kindv"])]
            leaf.set(fl.decode_native(v))     # scalar set() reports failure by its flag, it does not raise
        f0 = el.flatten(sep)
        el1 = cls()
        el1.set_flat(f0, sep)
        f1 = el1.flatten(sep)
        el2 = cls()
        el2.set_flat(f1, sep)
        f2 = el2.flatten(sep)
        return (el, f0, el1, f1, el2, f2), None

    def run_impl(self, case):
        try:
            r, why = self._trip(case)
        except Exception as e:
            return {"raise": type(e).__name__}
        if r is None:
            return {"skip": why}
        el, f0, el1, f1, el2, f2 = r
        schema, kinds = case["schema"], case["kinds"]
        texts = [v for _, v in f0] + [v for _, v in f1]
        comps = fl.observed_compounds(el, schema) + fl.observed_compounds(el1, schema) + fl.observed_compounds(el2, schema)
        s0 = fl.extract(el, schema)
        env = fl.make_env(kinds, texts, comps)
        hyp = thm_hyp(s0, schema, kinds, env["maxdigits"])
        safe = fl.sep_safe(case["sep"], fl.schema_names(schema))
        return {"flatten": [list(p) for p in f0], "rt_elem": fl.extract(el1, schema),
                "rt_flatten": [list(p) for p in f1], "rt2_flatten": [list(p) for p in f2],
                # the decidable hypotheses of roundtrip_sparse, recomputed by the Lean runner (okSB/wfS/rootOK)
                "thm_hyp": hyp,
                "_sep_safe": safe, "_elem": s0, "_env": env}

    def has_model(self, case):
        return not fl.digit_sep(case["sep"])

    def model_input(self, case, obs):
        if not obs or "_elem" not in obs:
            return {"schema": case["schema"], "sep": case["sep"], "elem": {"leaf": ""}, "env": fl.make_env([], [], [])}
        return {"schema": case["schema"], "sep": case["sep"], "elem": obs["_elem"], "env": obs["_env"],
                "sep_safe": bool(obs.get("_sep_safe"))}

    def compare(self, impl_obs, model_obs):
        if "skip" in impl_obs:
            return None
        if "raise" in impl_obs:
            return "implementation raised %s" % impl_obs["raise"]
        r = super().compare(impl_obs, model_obs)
        if r is not None:
            return r
        # roundtrip_sparse tied to the code: whenever its hypotheses hold, the tree the REAL
        # from_flat(flatten(e)) builds is the spec `prS e` the Lean runner computes
        if impl_obs.get("thm_hyp") and impl_obs.get("_sep_safe") and isinstance(model_obs, dict) and "prs_elem" in model_obs:
            from harness.core import canon
            if canon(model_obs["prs_elem"]) != canon(impl_obs["rt_elem"]):
                return "roundtrip_sparse: real from_flat(flatten(e))=%s but Lean prS e=%s" % (
                    canon(impl_obs["rt_elem"])[:300], canon(model_obs["prs_elem"])[:300])
        return None

    def oracle(self, case):
        schema, kinds, sep = case["schema"], case["kinds"], case["sep"]
        try:
            r, why = self._trip(case)
        except Exception as e:
            return [{"clause": "round-trip-raises", "observed": "%s: %s" % (type(e).__name__, str(e)[:100])}]
        if r is None:
            return []
        el, f0, el1, f1, el2, f2 = r
        fails = []
        s0, s1 = fl.extract(el, schema), fl.extract(el1, schema)
        expect = prune_state(s0, schema, False)
        pruned = expect != s0
        if not pruned and f1 != f0:
            fails.append({"clause": "identical-flatten", "expected": [list(p) for p in f0], "observed": [list(p) for p in f1],
                          "state": s0, "rt_state": s1})
        elif pruned:
            # pruning is permitted, not required: an Array may keep its '' members
            want = flatten_state(expect, schema, sep)
            want2 = flatten_state(prune_state(s0, schema, False, arrays=False), schema, sep)
            if f1 != want and f1 != want2 and f1 != f0:
                fails.append({"clause": "only-documented-pruning", "expected": [list(p) for p in want],
                              "observed": [list(p) for p in f1], "state": s0, "pruned_state": expect, "rt_state": s1})
        if f2 != f1:
            fails.append({"clause": "second-trip-stable", "expected": [list(p) for p in f1], "observed": [list(p) for p in f2]})
        # roundtrip_sparse, stated on the real code: under its hypotheses the rebuilt TREE is prS(e) — SparseDicts
        # included — the second trip does not change the flat output, and the rebuilt tree is in normal order
        maxd = __import__("sys").get_int_max_str_digits()
        if thm_hyp(s0, schema, kinds, maxd) and fl.sep_safe(sep, fl.schema_names(schema)):
            want_tree = prs_state(s0, schema, sep, False, kinds)
            if s1 != want_tree:
                fails.append({"clause": "sparse-exact-tree", "expected": want_tree, "observed": s1, "state": s0})
            elif not sparse_normal(s1, schema):
                fails.append({"clause": "sparse-rebuilt-normal", "observed": s1})
        exact = fl.EXACT_TYPES | {"DateMember"}
        if not pruned and not fails:
            v0 = Counter((k, v) for k, v, kk, _ in leaf_values(el, schema, sep) if kinds[kk]["type"] in exact)
            v1 = Counter((k, v) for k, v, kk, _ in leaf_values(el1, schema, sep) if kinds[kk]["type"] in exact)
            if v0 != v1:
                fails.append({"clause": "leaf-values-kept", "expected": sorted(v0), "observed": sorted(v1)})
        elif pruned and not fails:
            # members may have been dropped and the rest renumbered: the non-empty leaves still carry the same
            # (text, native value), whatever their key has become
            v0 = Counter((u, v) for _, v, kk, u in leaf_values(el, schema, sep) if kinds[kk]["type"] in exact)
            v1 = Counter((u, v) for _, v, kk, u in leaf_values(el1, schema, sep) if kinds[kk]["type"] in exact)
            if v0 != v1:
                fails.append({"clause": "leaf-values-kept-pruned", "expected": sorted(v0.elements()), "observed": sorted(v1.elements())})
        return fails

    def classify(self, case, failure):
        """A failure belongs to a known finding only when the observation is what that finding PREDICTS for
        this very case (not merely when the case contains the finding's trigger)."""
        schema, kinds, sep = case["schema"], case["kinds"], case["sep"]
        clause = failure.get("clause")
        other = self._classify_rest(case, failure)
        if other is not None:
            return other
        if not fl.sep_safe(sep, fl.schema_names(schema), nd_rule=False):
            # KF-C01-a predicts: the failure is caused by the separator overlapping names — the same case
            # under a separator that occurs nowhere in its names / indexes / itself does not fail that way
            safe = next(c for c in ["\x1f", "\x1e", "\x1d", "\u2063"] if all(c not in n for n in fl.schema_names(schema)))
            alt = dict(case, sep=safe)
            try:
                still = [f for f in self.oracle(alt) if f.get("clause") == clause]
            except Exception:
                still = [1]
            return None if still else "KF-C01-a"
        return None

    def _classify_rest(self, case, failure):
        schema, kinds, sep = case["schema"], case["kinds"], case["sep"]
        clause = failure.get("clause")
        try:
            r, _ = self._trip(case)
        except Exception:
            return None
        if r is None or clause == "round-trip-raises":
            return None
        el, f0, el1, f1, el2, f2 = r
        uns = unsettled_leaves(el, schema, kinds, sep)
        s0 = fl.extract(el, schema)
        has_sparse = any(s["t"] == "dict" and s["mode"] != "dense" for s in fl.walk_schema(schema))

        # What the leaf-level findings (KF-C01-b/c/f: from_flat necessarily runs each leaf's own set(text)),
        # the ceiling finding (KF-C01-g: Lists are cut at maximum_set_flat_members) and the SparseDict
        # findings (KF-C01-d/e) PREDICT for one trip is a function of the state the trip starts from:
        # prune as documented (on the texts as they are), cut at the ceilings, then settle each leaf.
        if clause == "leaf-values-kept":
            if not uns:
                return None
            exp, obs = failure.get("expected"), failure.get("observed")
            sub = {(u[3], u[4]): u[5] for u in uns}
            predicted = Counter((k, sub.get((k, v), v)) for k, v in map(tuple, exp))
            empt = {(u[3], u[5]) for u in uns if u[2] == ""}
            predicted = Counter({kv: n for kv, n in predicted.items() if kv not in empt})
            if predicted != Counter(map(tuple, obs)):
                return None
            return leaf_finding(uns)
        if clause == "leaf-values-kept-pruned":
            if not uns:
                return None
            exp, obs = failure.get("expected"), failure.get("observed")
            sub = {(u[1], u[4]): (u[2], u[5]) for u in uns}
            predicted = Counter(sub.get((t, v), (t, v)) for t, v in map(tuple, exp))
            predicted = Counter({tv: n for tv, n in predicted.items() if tv[0] != ""})
            if predicted != Counter(map(tuple, obs)):
                return None
            return leaf_finding(uns)
        if clause in ("identical-flatten", "only-documented-pruning"):
            return self._classify_trip(el, s0, el1, f1, schema, kinds, sep, has_sparse)
        if clause == "second-trip-stable":
            # the second trip starts from the rebuilt element; when the first trip was bent by a ceiling or an
            # unsettled leaf its result need not be stable, and the second trip — behaving exactly as
            # documented from there — inherits that finding
            inherited = "KF-C01-g" if over_ceiling(s0, schema) else leaf_finding(uns)
            return self._classify_trip(el1, fl.extract(el1, schema), el2, f2, schema, kinds, sep, has_sparse, inherited)
        return None

    def _classify_trip(self, start_el, start, end_el, observed, schema, kinds, sep, has_sparse, inherited=None):
        uns = unsettled_leaves(start_el, schema, kinds, sep)
        over = over_ceiling(start, schema)

        def trip(arrays):
            return settle_state(prune_state(start, schema, False, arrays=arrays, ceil=True), schema, kinds)

        obs = [list(p) for p in observed]
        if not has_sparse:
            if not (uns or over or inherited):
                return None
            for a1 in (True, False):
                if obs == [list(p) for p in flatten_state(trip(a1), schema, sep)]:
                    return "KF-C01-g" if over else (leaf_finding(uns) if uns else inherited)
            return None
        end_state = fl.extract(end_el, schema)
        # KF-C01-d predicts: the rebuilt tree is the predicted one with SparseDict members in SCHEMA order
        for a1 in (True, False):
            if obs == [list(p) for p in flatten_state(order_normal(trip(a1), schema), schema, sep)]:
                return "KF-C01-d"
        # KF-C01-e predicts: besides that order, only BLANK sparse members differ — compared on states, so
        # that list lengths and every other member count
        def normal(st):
            # the two normalisations feed each other (a member whose only pairs belonged to blank sparse members is
            # pair-less once those are stripped): apply them until nothing changes, on both sides alike
            cur = order_normal(st, schema)
            for _ in range(64):
                nxt = strip_blank_sparse(drop_pairless_tail(cur, schema), schema)
                if nxt == cur:
                    break
                cur = nxt
            return cur

        for a1 in (True, False):
            if normal(trip(a1)) == normal(end_state):
                return "KF-C01-e"
        return None

    def nontrivial(self, case, obs):
        if "skip" in obs or "raise" in obs:
            return False
        return len(obs["flatten"]) >= 3 and case["schema"]["t"] not in ("leaf", "joined")

    def tags(self, case, obs):
        if "skip" in obs:
            return ["skipped-set-rejected"]
        if "raise" in obs:
            return ["raised-" + obs["raise"]]
        t = ["pairs=%d" % min(len(obs["flatten"]), 20), "sep=%r" % case["sep"]]
        if case.get("resets"):
            t.append("leaf-resets=%d" % len(case["resets"]))
            if any(isinstance(r["v"], list) or (isinstance(r["v"], dict) and "d" in r["v"]) for r in case["resets"]):
                t.append("leaf-reset-with-unadaptable-non-text")
        if obs["rt_flatten"] != obs["flatten"]:
            t.append("pruned-or-changed")
        for s in fl.walk_schema(case["schema"]):
            t.append("has-" + s["t"] + ("-prune" if s.get("prune") else ""))
        for k in case["kinds"]:
            t.append("kind-" + k["type"])
        schema, kinds = case["schema"], case["kinds"]
        sparse = any(x["t"] == "dict" and x["mode"] != "dense" for x in fl.walk_schema(schema))
        s0 = obs.get("_elem")
        if s0 is not None:
            applies = bool(obs.get("thm_hyp")) and bool(obs.get("_sep_safe"))
            if applies:
                t.append("thm-sparse-applies")
                if sparse:
                    t.append("thm-sparse-applies+has-sparse")
                    holds = [m for e, sc in _walk_states(s0, schema) if sc["t"] == "dict" and sc["mode"] != "dense" for m in [e]]
                    if any(len(m["dict"]) for m in holds):
                        t.append("thm-sparse-applies+sparse-populated")
                    # cross-check of the recorded class predicates against the exact spec
                    want = prs_state(s0, schema, case["sep"], False, kinds)
                    pred_d = order_normal(prune_state(s0, schema, False), schema)
                    if want == pred_d:
                        t.append("kf-d-prediction=prS")
                    elif (strip_blank_sparse(drop_pairless_tail(pred_d, schema), schema)
                          == strip_blank_sparse(drop_pairless_tail(order_normal(want, schema), schema), schema)):
                        t.append("kf-e-normalised-prediction~prS")
                    elif flatten_state(pred_d, schema, case["sep"]) == flatten_state(want, schema, case["sep"]):
                        # same flat output; the trees differ in members that are never flattened (a fresh
                        # JoinedString comes back with the members its empty text splits into)
                        t.append("kf-prediction~prS-same-flatten")
                    else:
                        t.append("kf-predictions-differ-from-prS")
                    t.append("sparse-in-normal-order" if sparse_normal(s0, schema) else "sparse-reordered-by-trip")
            else:
                why = ("sep-not-safe" if not obs.get("_sep_safe") else
                       "not-wf" if not wf_schema(schema) else "root-unnamed" if not root_ok(schema) else "state-unsettled-or-over-ceiling")
                t.append("thm-sparse-na:" + why)
                if sparse:
                    t.append("thm-sparse-na+has-sparse")
        return list(dict.fromkeys(t))

    def shrink_candidates(self, case):
        rs = case.get("resets")
        if rs:
            for i in range(len(rs)):
                c = copy.deepcopy(case)
                del c["resets"][i]
                if not c["resets"]:
                    del c["resets"]
                yield c
        yield from _shrink_schema_value(case)


def _flat_leaves(el, s):
    """(element, schema) of every scalar leaf that is not a member of a JoinedString, in walk order"""
    out = []
    t = s["t"]
    if t == "leaf":
        out.append((el, s))
    elif t in ("dict", "compound"):
        fields = {f["name"]: f for f in s["fields"]}
        for k, v in dict.items(el):
            if k in fields:
                out += _flat_leaves(v, fields[k])
    elif t == "list":
        for m in el:
            out += _flat_leaves(m, s["member"])
    elif t == "array":
        for m in list.__iter__(el):
            out += _flat_leaves(m, s["member"])
    return out


def _gen_reset(rng, kinds):
    """one later set() on a scalar leaf: which leaf (index into the leaves in walk order, modulo) and the value — a
    value generated for each kind of the case (picked by the leaf's kind when it runs), plain text, None, or a
    non-text value that no scalar adapts"""
    r = rng.random()
    if r < 0.3:
        v = rng.choice([[{"i": 1}, {"i": 2}], [], [{"s": "x"}], {"d": [["a", {"i": 1}]]}, {"d": []}])
    elif r < 0.4:
        v = rng.choice([{"none": 1}, {"s": ""}, {"s": "junk"}, {"s": " 7 "}])
    else:
        v = {"kindv": [fl.gen_leaf_value(rng, k) for k in kinds] or [{"s": "x"}]}
    return {"leaf": rng.randrange(64), "v": v}


PROP = C01()
