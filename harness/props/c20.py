"""C20 — Dict.slice / update_object / set_by_object move exactly the selected fields."""
import copy
import itertools

from harness.core import Property
from harness.props import scalars_g6 as S

KINDS = ("str", "strns", "int")
NAME_POOL = ["a", "b", "c", "ab", "A", "B", "x", "y", "z", "a_b", "x_a", "x_b", "id", "k",
             "名", "é", "a b", "zz", "0", "b.c"]
KEYFNS = [{"fn": "ident"}, {"fn": "upper"}, {"fn": "add", "p": "x_"}, {"fn": "strip", "p": "x_"},
          {"fn": "strip", "p": "a"}, {"fn": "const", "c": "k"}, {"fn": "rev"}]


# ---------------------------------------------------------------- natives

def nat_to_py(j):
    """Values are written either in the compact form of the first C20 cases ({"s"|"i"|"b": ...}) or as
    C04 natives ({"t": ...}: dates, times, floats, Decimals, ...)."""
    if j is None:
        return None
    if "t" in j:
        return S.nat_to_py(j)
    if "s" in j:
        return j["s"]
    if "i" in j:
        return j["i"]
    return j["b"]


def py_to_nat(v):
    """Observed values, in the form the model prints them."""
    return S.out_nat(v)


KIND_ALIASES = {"str": {"k": "string", "strip": True}, "strns": {"k": "string", "strip": False},
                "int": {"k": "integer", "signed": True, "width": 0}}
RICH_KINDS = [
    {"k": "boolean_default"}, {"k": "date", "strip": True}, {"k": "time", "strip": True}, {"k": "datetime", "strip": False},
    {"k": "integer", "signed": False, "width": 4},
    {"k": "constrained", "enum": True, "child": {"k": "string", "strip": True},
     "valid": {"v": "oneof", "vals": [{"t": "str", "v": "a"}, {"t": "str", "v": "b"}]}},
]


def kind_of(k):
    return KIND_ALIASES[k] if isinstance(k, str) else k


def keyfn_of(spec):
    if spec is None:
        return None
    fn = spec["fn"]
    if fn == "ident":
        return lambda k: k
    if fn == "upper":
        return lambda k: "".join(chr(ord(c) - 32) if "a" <= c <= "z" else c for c in k)
    if fn == "add":
        p = spec["p"]
        return lambda k: p + k
    if fn == "strip":
        p = spec["p"]
        return lambda k: k[len(p):] if k.startswith(p) else k
    if fn == "const":
        c = spec["c"]
        return lambda k: c
    if fn == "rev":
        return lambda k: k[::-1]
    if fn == "table":                     # a lookup table used as the key function: KeyError for a missing name
        return dict((a, b) for a, b in spec["map"]).__getitem__
    if fn in ("raise_on", "unhash_on"):
        base = keyfn_of(spec.get("base")) or (lambda k: k)
        names = set(spec["names"])
        if fn == "raise_on":              # rejects some field names with the given exception
            exc = EXC[spec["exc"]]

            def f(k):
                if k in names:
                    raise exc(k)
                return base(k)
        else:                             # returns an unhashable key (a list) for some field names
            def f(k):
                return [base(k)] if k in names else base(k)
        return f
    raise AssertionError(fn)


EXC = {"KeyError": KeyError, "TypeError": TypeError, "ValueError": ValueError, "AttributeError": AttributeError}

# include / omit / rename in forms that make keyslice_pairs (or set_by_object's own preparation) raise, and
# the exception class Python's set() / dict() / tuple unpacking raise for them
MALFORMED = {
    "include": {"unhashable-member": "TypeError", "non-iterable": "TypeError"},
    "omit": {"unhashable-member": "TypeError", "non-iterable": "TypeError"},
    "rename": {"triple": "ValueError", "single": "ValueError", "str3": "ValueError",
               "unhashable-source": "TypeError", "non-iterable": "TypeError"},
}


def malformed_value(m):
    return {"unhashable-member": ["a", ["b"]], "non-iterable": 7, "triple": [("a", "b", "c")], "single": [("a",)],
            "str3": ["abc"], "unhashable-source": [(["a"], "b")]}[m["form"]]


def rename_arg(spec):
    if spec is None:
        return None
    pairs = [(a, b) for a, b in spec["pairs"]]
    how = spec["as"]
    if how == "dict":
        return dict(pairs)
    if how == "tuple":
        return tuple(pairs)
    if how == "gen":                      # a one-shot iterable of pairs
        return (p for p in pairs)
    if how == "items":                    # a dict-like that only offers keys() and __getitem__
        return _KeysOnly(dict(pairs))
    return pairs


class _KeysOnly:
    def __init__(self, d):
        self._d = d

    def keys(self):
        return self._d.keys()

    def __getitem__(self, k):
        return self._d[k]

    def __bool__(self):
        return bool(self._d)


def rename_map(spec):
    return dict((a, b) for a, b in spec["pairs"]) if spec else {}


# ---------------------------------------------------------------- real implementation

def _kind_cls(kind):
    return S.kind_cls(kind_of(kind))


def build_schema(case):
    import flatland
    fields = [_kind_cls(f["kind"]).named(f["name"]) for f in case["fields"]]
    base = flatland.SparseDict if case.get("sparse") else flatland.Dict
    return base.of(*fields).using(policy=case.get("policy", "subset"))


def is_present(case, f):
    return (not case.get("sparse")) or f.get("present", True)


def build_element(case):
    el = build_schema(case)()
    for f in case["fields"]:
        if not is_present(case, f):
            continue
        if case.get("sparse"):
            el[f["name"]] = nat_to_py(f["value"])      # creates the member and set()s it
        else:
            el[f["name"]].set(nat_to_py(f["value"]))
    return el


class _ObjBox:
    """A Python object built from the case: plain attributes, property-backed attributes
    (getter raises AttributeError while nothing is stored, or another exception when the case says
    `raises`), and a log of every attribute read.  `mode` makes some `setattr` calls fail:
    read-only properties, a class with `__slots__`, or a `__setattr__` that rejects some names."""

    def __init__(self, spec, mode=None):
        store = {}
        log = []
        ns = {}
        mode = mode or {}
        kind = mode.get("kind")
        ro = set(mode.get("names", [])) if kind == "roprop" else set()
        by_name = {a["name"]: a for a in spec}
        for n in list(by_name) + [n for n in sorted(ro) if n not in by_name]:
            a = by_name.get(n)
            if (a and a.get("prop")) or n in ro:
                def getter(self, n=n, raises=(a or {}).get("raises")):
                    if raises:
                        raise EXC[raises](n)
                    if n not in store:
                        raise AttributeError(n)
                    return store[n]

                def setter(self, v, n=n):
                    store[n] = v
                ns[n] = property(getter) if n in ro else property(getter, setter)
                if a and a["present"] and not a.get("raises"):
                    store[n] = nat_to_py(a["value"])

        def __getattribute__(self, n):
            log.append(n)
            return object.__getattribute__(self, n)
        ns["__getattribute__"] = __getattribute__
        self.slots = None
        if kind == "slots":
            self.slots = tuple(mode["allowed"])
            ns["__slots__"] = self.slots
        if kind == "setattr":
            deny, exc = set(mode["names"]), EXC[mode["exc"]]

            def __setattr__(self, n, v):
                if n in deny:
                    raise exc(n)
                object.__setattr__(self, n, v)
            ns["__setattr__"] = __setattr__
        cls = type("CaseObject", (object,), ns)
        self.obj = cls()
        for a in spec:
            if a["name"] not in ns and a["present"]:
                object.__setattr__(self.obj, a["name"], nat_to_py(a["value"]))
        self.store = store
        self.log = log

    def snapshot(self):
        if self.slots is not None:
            d = {}
            for n in self.slots:
                try:
                    d[n] = object.__getattribute__(self.obj, n)
                except AttributeError:
                    pass
            return d
        d = dict(object.__getattribute__(self.obj, "__dict__"))
        assert not (set(d) & set(self.store))
        d.update(self.store)
        return d

    def canon(self):
        return [[k, py_to_nat(v)] for k, v in sorted(self.snapshot().items())]


def ref_rejects(case, name):
    """Exception class name `setattr(obj, name, ...)` raises on the case's object, else None."""
    m = case.get("objmode")
    if not m:
        return None
    if m["kind"] == "roprop":
        return "AttributeError" if name in m["names"] else None
    if m["kind"] == "slots":
        return None if name in m["allowed"] else "AttributeError"
    return m["exc"] if name in m["names"] else None


def _kwargs(case, with_key, args=None):
    a = case if args is None else args
    kw = {}
    for name in ("include", "omit"):
        if name in a:
            kw[name] = None if a[name] is None else list(a[name])
    if "rename" in a:
        kw["rename"] = rename_arg(a["rename"])
    if with_key and a.get("key") is not None:
        kw["key"] = keyfn_of(a["key"])
    if args is None and case.get("malformed"):
        kw[case["malformed"]["arg"]] = malformed_value(case["malformed"])
    return kw


def _value_list(el, case):
    return [[k, py_to_nat(el[k].value)] for k in el.keys()]


def _member_value(kind, x):
    """`.value` of a fresh member of this kind after set(x) (used by the oracle)."""
    m = _kind_cls(kind)()
    m.set(x)
    return m.value


# ---------------------------------------------------------------- reference selection (spec B)

def _truthy(x):
    return bool(x)


def ref_outkey(k, include, omit, rmap):
    """Where does key `k` go?  renamed keys always, under the new key; else include xor omit."""
    if k in rmap:
        return rmap[k]
    if _truthy(include):
        return k if k in include else None
    if _truthy(omit):
        return None if k in omit else k
    return k


class RefErr(str):
    """The selection fails; several fields may fail with different exception classes — which one is
    met first depends on the iteration order, which the documentation leaves open: `alts`."""

    def __new__(cls, classes):
        self = str.__new__(cls, classes[0])
        self.alts = set(classes)
        return self


def _is_err(exp, got):
    return got in getattr(exp, "alts", {str(exp)})


def ref_keyed(keyspec, name):
    """What the key function does with one field name: (True, key) or (False, exception class name).
    A key that cannot be hashed cannot be looked up in include / omit / rename nor stored in the
    resulting dict: TypeError."""
    fn = keyfn_of(keyspec)
    if fn is None:
        return True, name
    try:
        k = fn(name)
    except Exception as e:  # noqa: BLE001
        return False, type(e).__name__
    try:
        hash(k)
    except TypeError:
        return False, "TypeError"
    return True, k


def ref_slice(names_values, include, omit, rmap, keyspec, malformed=None):
    """names_values: {field name: native value}.  Returns the expected dict, or the name of the
    exception class when the selection cannot be computed: both include and omit supplied, an
    argument in a form that cannot be used, or a key function that fails for one of the fields
    (every field is keyed, selected or not: the key function is applied first)."""
    supplied = {"include": _truthy(include), "omit": _truthy(omit)}
    if malformed:
        supplied[malformed["arg"]] = True
    if supplied["include"] and supplied["omit"]:
        return "TypeError"
    if malformed:
        return MALFORMED[malformed["arg"]][malformed["form"]]
    sources = {}
    failing = [k for ok, k in (ref_keyed(keyspec, name) for name in sorted(names_values)) if not ok]
    if failing:
        return RefErr(failing)
    for name in sorted(names_values):
        ok, k = ref_keyed(keyspec, name)
        out = ref_outkey(k, include, omit, rmap)
        if out is not None:
            sources.setdefault(out, []).append(name)
    # when several fields land on one key, the field with the greatest name wins
    return {out: names_values[max(ns)] for out, ns in sources.items()}


def ref_read_set(fields, omit, rmap):
    """The attributes whose destination (rename target, else own name) is a declared field; `omit`
    removes names, except renamed ones (renamed attributes are included regardless of omit)."""
    out = set()
    for x in set(fields) | set(rmap):
        if rmap.get(x, x) in fields and (x in rmap or x not in (omit or ())):
            out.add(x)
    return out


class C20(Property):
    id = "C20"
    title = "Dict.slice / update_object / set_by_object move exactly the selected fields"
    proof_module = "Proofs.C20Fail"      # top of the chain C20 <- C20Fail
    theorems = [
        "Flatland.C20.Proofs.slice_spec",
        "Flatland.C20.Proofs.slice_keys",
        "Flatland.C20.Proofs.slice_spec_injective",
        "Flatland.C20.Proofs.include_omit_exclusive",
        "Flatland.C20.Proofs.update_object_frame",
        "Flatland.C20.Proofs.update_object_untouched",
        "Flatland.C20.Proofs.set_by_object_reads",
        "Flatland.C20.Proofs.C20_full_holds",
        "Flatland.C20.Proofs.set_by_object_values",
        "Flatland.C20.Proofs.object_roundtrip_final",
        "Flatland.C20.Proofs.object_roundtrip",
        "Flatland.C20.Proofs.object_roundtrip_sparse",
        # failure and recovery paths (Proofs/C20Fail.lean)
        "Flatland.C20.Proofs.sliceP_refines",
        "Flatland.C20.Proofs.updateObjectP_refines",
        "Flatland.C20.Proofs.setByObjectP_refines",
        "Flatland.C20.Proofs.sliceP_ok_iff",
        "Flatland.C20.Proofs.update_object_atomic_on_selection_error",
        "Flatland.C20.Proofs.update_object_atomic",
        "Flatland.C20.Proofs.updateObjectP_atomic",
        "Flatland.C20.Proofs.lazyUpdate_fails",
        "Flatland.C20.Proofs.foldl_set_dictOf",
        "Flatland.C20.Proofs.lazyUpdate_eq_on_success",
        "Flatland.C20.Proofs.lazyLoop_selection_error",
        "Flatland.C20.Proofs.lazyUpdate_differs_iff",
        "Flatland.C20.Proofs.lazyUpdate_differs_emitted",
        "Flatland.C20.Proofs.writeAll_split",
        "Flatland.C20.Proofs.update_object_setattr_error",
        "Flatland.C20.Proofs.set_by_object_read_error_keeps_element",
        "Flatland.C20.Proofs.set_by_object_setup_error",
    ]
    level_text = "proof"
    level_note = ("slice_spec / include_omit_exclusive / update_object_frame / set_by_object_reads (C20_full_holds) / set_by_object_values are "
                  "proved for every value type, field list, include/omit/rename and key function (Dict and SparseDict, fixes 2460dd6, 29e8575, "
                  "786474b). PARTIAL: the consequence clause object_roundtrip (Dict and SparseDict forms) is proved under the reading of "
                  "'inverse renaming' spelled out by its hypotheses: identity key function; rename sources distinct, all declared fields; rename "
                  "targets distinct, none a declared field; the object has no readable attribute named like a field or a target beforehand; "
                  "non-strict policy; read back with rename^-1 and no include/omit. Outside these hypotheses the oracle checks only the two "
                  "halves (update_object writes the slice, set_by_object stores the winners), not the composed law. In the model `reads` is the "
                  "candidate list (the code calls hasattr on every candidate); spec outKey restates the three documented rules and is close to "
                  "the code by nature; member.set() is a parameter (C04). FAILURE PATHS (h10): the model carries key functions that raise / return "
                  "unhashable keys, unusable include/omit/rename, objects rejecting a setattr and attribute reads that raise (…P functions, proved equal "
                  "to the total ones when nothing raises: sliceP_refines, updateObjectP_refines, setByObjectP_refines); proved for all inputs: "
                  "sliceP_ok_iff (a slice exists iff the arguments are usable and the key function accepts EVERY field), "
                  "update_object_atomic_on_selection_error / update_object_atomic (no slice -> the object is untouched), lazyUpdate_fails (the "
                  "interleaved select-one-write-one variant violates it), update_object_setattr_error + writeAll_split (a rejected setattr: frame, "
                  "rejected attribute unchanged, every selected attribute old-or-new, writes = the prefix of the slice before the first rejected name), "
                  "set_by_object_read_error_keeps_element / set_by_object_setup_error (a raising read or unusable argument leaves the element as it was). "
                  "The oracle states (a) atomicity on a selection error, (b) for a rejected setattr only what the text determines, (c) element untouched "
                  "after a raising read, and judges a second, narrower call against the state the first one left")
    technique = "Lean 4 theorems about a hand-written model + differential correspondence with /repo + Python oracle of spec B"
    trusted_base = [
        "Python objects modelled as attribute stores (plain attributes and properties whose getter returns, raises AttributeError or raises "
        "another exception) plus a function telling which setattr the object rejects and with what (read-only property, __slots__, __setattr__); "
        "objects whose setattr has other side effects (setters touching other attributes, observable double assignment) are not modelled",
        "key functions are arbitrary functions Str -> (Str or exception) in the theorems; an unhashable result is modelled as TypeError at that "
        "field (raised by `key in rename/include/omit` or by dict(sliced), all inside slice()); the correspondence runs a fixed family "
        "(identity, ASCII upper, prefix add/strip, constant, reverse, partial lookup table, raise-on-names, unhashable-on-names)",
        "exception classes of unusable arguments (set() of an unhashable member / a non-iterable: TypeError; dict() of a pair that does not "
        "unpack: ValueError) are Python built-in behaviour, tabulated in MALFORMED and in Run/C20.lean parseSetup",
        "member.set(x).value is a parameter of the model (setF); the runner instantiates it with the scalar model of C04 "
        "(String, Integer, Boolean, Date, Time, DateTime, Enum members; None/str/int/bool/float/Decimal/date/time/datetime values)",
        "Python's sorted() on distinct str keys = insertion sort by code point; dict insertion/overwrite semantics",
    ]
    assumptions = [
        "field names, include/omit members, rename keys and values are str; rename is a dict or a list of 2-tuples",
        "Dict and SparseDict(minimum_fields=None); members are scalars",
        "left open by the text, therefore not asserted by the oracle (the correspondence with the model still pins the code's behaviour): when a "
        "setattr raises, WHICH of the other selected attributes are already written (the code writes in dict order of the slice = sorted field "
        "order, and stops at the first rejected name); when several fields / reads fail with different exception classes, which class comes out "
        "(the first in sorted order); the exception class for unusable include/omit/rename forms",
        "a strict-policy rejection inside set_by_object (self.set(final) raises after its reset) is not a 'read that raises': the element is "
        "reset there, as modelled since g6 (dictSetValue); clause (c) is about exceptions raised before self.set is reached",
    ]
    rule = ("Dict schemas of 1-5 fields (70% String/String(strip=False)/Integer, 30% Boolean/Date/Time/DateTime/unsigned %04i Integer/Enum) with names from a pool (ASCII, case variants, "
            "prefix-related, non-ASCII), member values None/str/int/bool incl. padded and unadaptable (rich kinds: kind-appropriate texts, floats, Decimals, native dates/times); op in slice/update_object/"
            "set_by_object/roundtrip; include/omit each None, [] or 1-3 names (known, unknown, overlapping rename; 8% both -> TypeError); "
            "rename None/{}/dict/list/tuple/generator of pairs/keys()-only mapping with sources and targets from fields+pool (collisions, chains, duplicate sources at low rate); "
            "key function None or one of 7; objects with plain/property-backed/raising/absent attributes; policy subset/strict/duck; 15% SparseDict with each member "
            "present with probability 0.6. FAILURE STREAM (30% of slice/update/setby cases): key function = lookup table without an entry for the "
            "first/middle/last field in sorted order (KeyError), raise-on-names (TypeError/ValueError/KeyError/AttributeError), unhashable-key-on-names, "
            "each optionally over upper / prefix-add and combined with rename/include/omit; include/omit/rename in unusable forms (unhashable member, "
            "non-iterable, 3-tuples, 1-tuples, 3-char strings, unhashable source); objects rejecting the setattr of the first/middle/last attribute "
            "the call writes (read-only property, __slots__ without the name, __setattr__ raising AttributeError/ValueError/TypeError) or of an "
            "unrelated name; for set_by_object properties whose getter raises ValueError/TypeError/KeyError at the first/middle/last candidate; "
            "60% followed by a second, narrower call on the same object / element (recovery). "
            "non-trivial = no exception and at least one of include/omit/rename/key supplied and a non-empty selection")
    exhaustive_note = ("fields {a:str, b:int}; include, omit in {None, [], [a], [b], [a,b], [zz]}; rename in {None, a->b, a->z, z->a, "
                       "swap a<->b, chain z->a,y->z}; op in slice/update/setby; key in {None, upper} for slice/update")
    quick_n = 80000
    thorough_n = 600000

    # ------------------------------------------------------------ cases

    def corpus(self):
        f = [{"name": "a", "kind": "str", "value": {"s": "A"}}, {"name": "b", "kind": "str", "value": {"s": "B"}}]
        obj = [{"name": "a", "prop": False, "present": True, "value": {"s": "A"}},
               {"name": "x", "prop": False, "present": True, "value": {"s": "X"}},
               {"name": "y", "prop": True, "present": True, "value": {"s": "Y"}}]
        return [
            # fixed 2460dd6 (was KF-C20-a): a rename target that is itself a rename source made y be read
            {"op": "setby", "fields": f, "policy": "subset", "include": None, "omit": None,
             "rename": {"as": "pairs", "pairs": [["x", "a"], ["y", "x"]]}, "key": None, "obj": obj},
            # a pair-list / generator rename must be usable twice inside set_by_object (candidate scan and keyslice_pairs)
            {"op": "setby", "fields": f, "policy": "subset", "include": None, "omit": None,
             "rename": {"as": "gen", "pairs": [["x", "a"]]}, "key": None, "obj": obj},
            {"op": "setby", "fields": f, "policy": "subset", "include": ["b"], "omit": None,
             "rename": {"as": "pairs", "pairs": [["x", "a"]]}, "key": None, "obj": obj},
            # fixed 786474b: an attribute renamed to a non-field is not read; rename overrides omit
            {"op": "setby", "fields": f, "policy": "subset", "include": None, "omit": None,
             "rename": {"as": "dict", "pairs": [["a", "z"]]}, "key": None, "obj": obj},
            {"op": "setby", "fields": f, "policy": "subset", "include": None, "omit": ["x"],
             "rename": {"as": "dict", "pairs": [["x", "a"]]}, "key": None, "obj": obj},
            # pinned: include=[] means "not supplied"
            {"op": "slice", "fields": f, "policy": "subset", "include": [], "omit": None, "rename": None, "key": None, "obj": []},
            # renamed-and-omitted field is still emitted under the new key (planned drill of DESIGN 9.1)
            {"op": "slice", "fields": f, "policy": "subset", "include": None, "omit": ["a"],
             "rename": {"as": "dict", "pairs": [["a", "z"]]}, "key": None, "obj": []},
            # the key function is applied before rename/include
            {"op": "slice", "fields": f, "policy": "subset", "include": ["B"], "omit": None,
             "rename": {"as": "dict", "pairs": [["A", "q"]]}, "key": {"fn": "upper"}, "obj": []},
            {"op": "update", "fields": f, "policy": "subset", "include": ["a"], "omit": ["b"], "rename": None, "key": None, "obj": obj},
            # fixed 29e8575 (was KF-C20-b): a fresh SparseDict read nothing from the object
            {"op": "setby", "sparse": True, "fields": [dict(x, present=False) for x in f], "policy": "subset", "include": None,
             "omit": None, "rename": None, "key": None, "obj": obj},
            {"op": "slice", "sparse": True, "fields": [dict(f[0], present=True), dict(f[1], present=False)], "policy": "subset",
             "include": None, "omit": None, "rename": {"as": "dict", "pairs": [["a", "z"]]}, "key": None, "obj": []},
            {"op": "roundtrip", "fields": f, "policy": "subset", "include": ["a"], "omit": None,
             "rename": {"as": "dict", "pairs": [["b", "bee"]]}, "key": None, "obj": [],
             "args2": {"include": None, "omit": None, "rename": {"as": "dict", "pairs": [["bee", "b"]]}}},
        ] + self._failure_corpus()

    def _failure_corpus(self):
        """Witnesses of seeded/C20-update-object-lazy-pairs (update_object iterating the lazy keyslice_pairs) and
        one case per failure kind."""
        f3 = [{"name": "city", "kind": "str", "value": {"s": "Oslo"}}, {"name": "name", "kind": "str", "value": {"s": "Ann"}},
              {"name": "zip", "kind": "str", "value": {"s": "0150"}}]
        rec = [{"name": "town", "prop": False, "present": True, "value": {"s": "Bergen"}},
               {"name": "note", "prop": False, "present": True, "value": {"s": "keep me"}}]
        base = {"op": "update", "fields": f3, "policy": "subset", "include": None, "omit": None, "rename": None, "key": None, "obj": rec}
        zip_only = {"include": ["zip"], "omit": None, "rename": {"as": "dict", "pairs": [["zip", "postcode"]]}, "key": None}
        return [
            # the demo: a field-name -> attribute-name table with no entry for the field that sorts last; then a narrower call
            dict(base, key={"fn": "table", "map": [["city", "town"], ["name", "full_name"]]}, then=zip_only),
            # an unhashable transformed key together with rename (TypeError from `key in rename`) on the middle field
            dict(base, key={"fn": "unhash_on", "names": ["name"], "base": None}, rename={"as": "dict", "pairs": [["city", "town"]]},
                 then=zip_only),
            dict(base, key={"fn": "raise_on", "names": ["zip"], "exc": "ValueError", "base": {"fn": "upper"}}),
            dict(base, op="slice", obj=[], key={"fn": "table", "map": [["city", "town"]]}),
            dict(base, malformed={"arg": "rename", "form": "triple"}),
            dict(base, malformed={"arg": "include", "form": "unhashable-member"}, omit=["zip"]),
            # a setattr the object rejects: first / middle / last attribute written
            dict(base, objmode={"kind": "roprop", "names": ["city"]}, then=zip_only),
            dict(base, objmode={"kind": "setattr", "names": ["name"], "exc": "ValueError"}, then=zip_only),
            dict(base, objmode={"kind": "slots", "allowed": ["town", "note", "city", "name", "postcode"]}, then=zip_only),
            # set_by_object: the getter of the middle candidate raises; then the same call without it
            dict(base, op="setby", obj=[{"name": "city", "prop": False, "present": True, "value": {"s": "Rome"}},
                                        {"name": "name", "prop": True, "present": False, "value": None, "raises": "ValueError"},
                                        {"name": "zip", "prop": False, "present": True, "value": {"s": "00100"}}],
                 then={"include": None, "omit": ["name"], "rename": None, "key": None}),
            dict(base, op="setby", malformed={"arg": "rename", "form": "str3"}),
        ]

    def exhaustive(self, tier):
        fields = [{"name": "a", "kind": "str", "value": {"s": " va "}}, {"name": "b", "kind": "int", "value": {"s": "7"}}]
        sels = [None, [], ["a"], ["b"], ["a", "b"], ["zz"]]
        rens = [None, [["a", "b"]], [["a", "z"]], [["z", "a"]], [["a", "b"], ["b", "a"]], [["z", "a"], ["y", "z"]]]
        obj = [{"name": "a", "prop": False, "present": True, "value": {"s": "oa"}},
               {"name": "b", "prop": True, "present": True, "value": {"i": 3}},
               {"name": "z", "prop": False, "present": True, "value": {"s": " 9 "}},
               {"name": "y", "prop": True, "present": False, "value": None},
               {"name": "q", "prop": False, "present": True, "value": {"b": True}}]
        for op in ("slice", "update", "setby"):
            keys = [None, {"fn": "upper"}] if op != "setby" else [None]
            for inc, om, ren, key in itertools.product(sels, sels, rens, keys):
                yield {"op": op, "fields": copy.deepcopy(fields), "policy": "subset", "include": inc, "omit": om,
                       "rename": None if ren is None else {"as": "pairs", "pairs": ren}, "key": key,
                       "obj": copy.deepcopy(obj)}

    def _rand_value(self, rng, kind):
        if not isinstance(kind, str):
            import datetime as _dt
            import decimal as _dec
            from harness.props.c04 import appropriate_input
            r = rng.random()
            if r < 0.6:
                v = appropriate_input(rng, kind)
            else:
                v = rng.choice([None, "x", "", 5, True, 2.5, _dec.Decimal("7.9"), _dt.date(2020, 1, 2), _dt.time(3, 4, 5),
                                _dt.datetime(2020, 1, 2, 3, 4, 5), " a ", "2020-01-02", "03:04:05", "on"])
            if isinstance(v, int) and not isinstance(v, bool) and abs(v) >= 10 ** 4000:
                v = 7
            return S.py_to_nat(v)
        if kind == "int":
            return rng.choice([None, {"i": 3}, {"i": -2}, {"i": 0}, {"s": "12"}, {"s": " 7 "}, {"s": "+5"}, {"s": "-40"},
                               {"s": "abc"}, {"s": ""}, {"b": True}, {"i": 10 ** 12}])
        return rng.choice([None, {"s": "v1"}, {"s": " padded "}, {"s": ""}, {"s": "x"}, {"s": "　w\t"},
                           {"i": 7}, {"b": False}, {"s": "a,b"}])

    def _rand_sel(self, rng, fields, rsrc):
        r = rng.random()
        if r < 0.45:
            return None
        if r < 0.55:
            return []
        pool = fields * 3 + rsrc + NAME_POOL
        return [rng.choice(pool) for _ in range(rng.randint(1, 3))]

    def _rand_rename(self, rng, fields, for_setby):
        r = rng.random()
        if r < 0.35:
            return None
        if r < 0.40:
            return {"as": rng.choice(["dict", "pairs", "tuple"]), "pairs": []}
        n = rng.randint(1, 3)
        pairs = []
        for _ in range(n):
            if for_setby:
                src = rng.choice(NAME_POOL + fields)
                dst = rng.choice(fields * 3 + NAME_POOL + [p[0] for p in pairs] * 2)
            else:
                src = rng.choice(fields * 3 + NAME_POOL)
                dst = rng.choice(NAME_POOL * 2 + fields)
            pairs.append([src, dst])
        as_ = rng.choice(["dict", "dict", "pairs", "pairs", "tuple", "gen", "items"])
        if as_ in ("dict", "items"):  # a dict cannot carry duplicate sources
            seen = {}
            for a, b in pairs:
                seen[a] = b
            pairs = [[a, b] for a, b in seen.items()]
        return {"as": as_, "pairs": pairs}

    def _rand_obj(self, rng, names):
        out = []
        for n in names:
            r = rng.random()
            if r < 0.2:
                continue
            prop = rng.random() < 0.3
            present = rng.random() < 0.8
            if not prop and not present:
                continue
            kind = rng.choice(KINDS) if rng.random() < 0.7 else rng.choice(RICH_KINDS)
            out.append({"name": n, "prop": prop, "present": present,
                        "value": self._rand_value(rng, kind) if present else None})
        return out

    def generate(self, rng, n, tier):
        for _ in range(n):
            nf = rng.choice([1, 2, 2, 3, 3, 4, 5])
            names = rng.sample(NAME_POOL, nf)
            fields = []
            for nm in names:
                kind = rng.choice(KINDS) if rng.random() < 0.7 else rng.choice(RICH_KINDS)
                fields.append({"name": nm, "kind": kind, "value": self._rand_value(rng, kind)})
            op = rng.choice(["slice", "slice", "update", "setby", "setby", "roundtrip"])
            case = {"op": op, "fields": fields, "policy": rng.choice(["subset"] * 8 + ["strict", "duck"])}
            if rng.random() < 0.15:
                case["sparse"] = True
                case["policy"] = rng.choice(["subset"] * 4 + ["duck"])
                for f in fields:
                    f["present"] = rng.random() < 0.6
            if op == "roundtrip":
                yield self._gen_roundtrip(rng, case, names)
                continue
            if rng.random() < 0.3:
                yield self._gen_failure(rng, case, names)
                continue
            ren = self._rand_rename(rng, names, op == "setby")
            rsrc = [p[0] for p in ren["pairs"]] if ren else []
            inc = self._rand_sel(rng, names, rsrc)
            om = self._rand_sel(rng, names, rsrc)
            if inc and om and rng.random() < 0.85:
                if rng.random() < 0.5:
                    inc = rng.choice([None, []])
                else:
                    om = rng.choice([None, []])
            case.update({"include": inc, "omit": om, "rename": ren,
                         "key": rng.choice(KEYFNS) if (op != "setby" and rng.random() < 0.4) else None})
            attr_names = list(dict.fromkeys(names + rsrc + rng.sample(NAME_POOL, 3)))
            case["obj"] = self._rand_obj(rng, attr_names) if op != "slice" else []
            yield case

    def _pick_at(self, rng, ordered):
        """an element of `ordered` at the first / a middle / the last position"""
        pos = rng.choice(["first", "middle", "last"])
        if pos == "first" or len(ordered) == 1:
            return ordered[0]
        if pos == "last" or len(ordered) == 2:
            return ordered[-1]
        return ordered[rng.randint(1, len(ordered) - 2)]

    def _gen_failure(self, rng, case, names):
        """Failure and recovery paths: key functions that raise / return unhashable keys for some field
        names, malformed include / omit / rename, objects that reject a setattr (read-only property,
        __slots__, __setattr__) or whose attribute reads raise; then (60%) a second, narrower call."""
        op = rng.choice(["update", "update", "update", "setby", "setby", "slice"])
        case["op"] = op
        srt = sorted(names)
        ren = self._rand_rename(rng, names, op == "setby") if rng.random() < 0.6 else None
        rsrc = [p[0] for p in ren["pairs"]] if ren else []
        inc = om = None
        r = rng.random()
        if r < 0.3:
            inc = self._rand_sel(rng, names, rsrc)
        elif r < 0.6:
            om = self._rand_sel(rng, names, rsrc)
        case.update({"include": inc, "omit": om, "rename": ren, "key": None})
        ident_names = [n for n in NAME_POOL if n.isidentifier()]
        attr_names = list(dict.fromkeys(names + rsrc + rng.sample(NAME_POOL, 3)))
        case["obj"] = self._rand_obj(rng, attr_names) if op != "slice" else []
        kinds = []
        if op in ("update", "slice"):
            kinds = rng.choice([["key"], ["key"], ["key"], ["malformed"], ["objmode"], ["objmode"], ["key", "objmode"], []])
            if op == "slice":
                kinds = [k for k in kinds if k != "objmode"] or ["key"]
        else:
            kinds = rng.choice([["read"], ["read"], ["read"], ["malformed"], []])
        if "key" in kinds:
            base = rng.choice([None, None, {"fn": "upper"}, {"fn": "add", "p": "x_"}])
            k = rng.random()
            bad = list({self._pick_at(rng, srt) for _ in range(rng.choice([1, 1, 2]))})
            if k < 0.4:       # a lookup table with no entry for some field names (and some entries for non-fields)
                fn = keyfn_of(base) or (lambda x: x)
                table = [[n, rng.choice([fn(n), fn(n), rng.choice(NAME_POOL)])] for n in names if n not in bad]
                table += [[rng.choice(NAME_POOL), "q"]] if rng.random() < 0.3 else []
                case["key"] = {"fn": "table", "map": [p for p in table if p[0] not in bad]}
            elif k < 0.7:
                case["key"] = {"fn": "raise_on", "names": bad + ([rng.choice(NAME_POOL)] if rng.random() < 0.3 else []),
                               "exc": rng.choice(["TypeError", "ValueError", "KeyError", "AttributeError"]), "base": base}
            else:
                case["key"] = {"fn": "unhash_on", "names": bad, "base": base}
        if "malformed" in kinds:
            arg = rng.choice(["include", "omit", "rename"])
            case["malformed"] = {"arg": arg, "form": rng.choice(sorted(MALFORMED[arg]))}
            case[arg] = None
        if "read" in kinds:
            # a property whose getter raises something else than AttributeError, at a first / middle / last candidate
            cands = sorted(ref_read_set(names, om, rename_map(ren))) or srt
            for n in {self._pick_at(rng, cands) for _ in range(rng.choice([1, 1, 2]))} | ({rng.choice(NAME_POOL)} if rng.random() < 0.2 else set()):
                case["obj"] = [a for a in case["obj"] if a["name"] != n]
                case["obj"].append({"name": n, "prop": True, "present": False, "value": None,
                                    "raises": rng.choice(["ValueError", "TypeError", "KeyError"])})
        if "objmode" in kinds:
            # the attributes the call is going to write, in the order of the sorted fields
            outs = []
            for n in srt:
                ok, k = ref_keyed(case["key"], n)
                o = ref_outkey(k, inc, om, rename_map(ren)) if ok else None
                if o is not None and o not in outs:
                    outs.append(o)
            targets = [self._pick_at(rng, outs)] if outs and rng.random() < 0.85 else []
            if rng.random() < 0.25:
                targets.append(rng.choice(NAME_POOL))
            mk = rng.choice(["roprop", "slots", "setattr"])
            if mk == "slots":
                for a in case["obj"]:
                    a["prop"] = False
                case["obj"] = [a for a in case["obj"] if a["present"] and a["name"].isidentifier() and a["name"] not in targets]
                allowed = [n for n in dict.fromkeys([a["name"] for a in case["obj"]] + outs + rng.sample(ident_names, 2))
                           if n.isidentifier() and n not in targets]
                case["objmode"] = {"kind": "slots", "allowed": allowed}
            elif mk == "roprop":
                case["objmode"] = {"kind": "roprop", "names": targets}
            else:
                case["objmode"] = {"kind": "setattr", "names": targets, "exc": rng.choice(["AttributeError", "ValueError", "TypeError"])}
        if rng.random() < 0.6 and op != "slice":
            # recovery: a narrower second call (well-formed arguments, total key function)
            t_inc = t_om = None
            if rng.random() < 0.6:
                t_inc = rng.sample(names, rng.randint(1, len(names)))
            elif rng.random() < 0.5:
                t_om = rng.sample(names, 1)
            raisers = [a["name"] for a in case["obj"] if a.get("raises")]
            if raisers and rng.random() < 0.7:          # leave the raising attributes out: the call can succeed now
                t_inc, t_om = None, raisers + (t_om or [])
            case["then"] = {"include": t_inc, "omit": t_om,
                            "rename": self._rand_rename(rng, names, op == "setby") if rng.random() < 0.4 else None,
                            "key": rng.choice([None, None, {"fn": "upper"}]) if op == "update" else None}
        return case

    def _gen_roundtrip(self, rng, case, names):
        """Mostly cases inside the hypotheses of `object_roundtrip` (injective renaming onto fresh
        attribute names, object without attributes named like fields/targets), some outside."""
        hostile = rng.random() < 0.25
        free = [n for n in NAME_POOL if n not in names]
        k = rng.randint(0, min(len(names), 3))
        srcs = rng.sample(names, k)
        dsts = rng.sample(free, k)
        pairs = [[s, d] for s, d in zip(srcs, dsts)]
        if hostile and pairs and rng.random() < 0.5:
            pairs[0][1] = rng.choice(names)          # target collides with a field name
        as_ = rng.choice(["dict", "pairs", "tuple", "gen"])
        sel = rng.random()
        inc = om = None
        if sel < 0.35:
            inc = rng.sample(names, rng.randint(1, len(names)))
        elif sel < 0.7:
            om = rng.sample(names, rng.randint(1, len(names)))
        case.update({"include": inc, "omit": om, "rename": {"as": as_, "pairs": pairs} if pairs or rng.random() < 0.5 else None,
                     "key": None})
        case["args2"] = {"include": None, "omit": None,
                         "rename": {"as": as_, "pairs": [[d, s] for s, d in pairs]} if pairs else None}
        others = [n for n in free if n not in dsts]
        attr_names = rng.sample(others, min(3, len(others)))
        if hostile:
            attr_names += rng.sample(names + dsts, 1)
        case["obj"] = self._rand_obj(rng, attr_names)
        return case

    # ------------------------------------------------------------ implementation runner

    def run_impl(self, case):
        el = build_element(case)
        op = case["op"]
        exc = None
        if op == "slice":
            try:
                res = el.slice(**_kwargs(case, True))
                result = [[k, py_to_nat(v)] for k, v in sorted(res.items())]
            except Exception as e:  # noqa: BLE001 - the class name is the observation
                exc, result = type(e).__name__, None
            return {"exc": exc, "result": result}
        box = _ObjBox(case.get("obj", []), case.get("objmode"))
        if op == "update":
            try:
                el.update_object(box.obj, **_kwargs(case, True))
            except Exception as e:  # noqa: BLE001
                exc = type(e).__name__
            obs = {"exc": exc, "obj": box.canon()}
            if case.get("then") is not None:        # recovery: a second call on the same object
                exc2 = None
                try:
                    el.update_object(box.obj, **_kwargs(case, True, case["then"]))
                except Exception as e:  # noqa: BLE001
                    exc2 = type(e).__name__
                obs.update({"exc2": exc2, "obj2": box.canon()})
            return obs
        if op == "setby":
            try:
                el.set_by_object(box.obj, **_kwargs(case, False))
            except Exception as e:  # noqa: BLE001
                exc = type(e).__name__
            obs = {"exc": exc, "reads": sorted(set(box.log)), "value": _value_list(el, case)}
            if case.get("then") is not None:
                del box.log[:]
                exc2 = None
                try:
                    el.set_by_object(box.obj, **_kwargs(case, False, case["then"]))
                except Exception as e:  # noqa: BLE001
                    exc2 = type(e).__name__
                obs.update({"exc2": exc2, "reads2": sorted(set(box.log)), "value2": _value_list(el, case)})
            return obs
        if op == "roundtrip":
            try:
                el.update_object(box.obj, **_kwargs(case, True))
            except Exception as e:  # noqa: BLE001
                return {"exc": type(e).__name__, "obj": box.canon(), "reads": None, "value": None}
            del box.log[:]
            el2 = build_schema(case)()
            try:
                el2.set_by_object(box.obj, **_kwargs(case, False, case["args2"]))
            except Exception as e:  # noqa: BLE001
                exc = type(e).__name__
            return {"exc": exc, "obj": box.canon(), "reads": sorted(set(box.log)), "value": _value_list(el2, case)}
        raise AssertionError(op)

    # ------------------------------------------------------------ oracle (spec B on the real code)

    def _check_update(self, case, tag, before, after, exp, raised, fails):
        """One update_object call: `exp` is the reference slice (or the exception class when there is
        none), `before`/`after` the object's complete attribute state."""
        if isinstance(exp, str):
            # (a) no slice can be produced: nothing is selected, so nothing may be touched
            if not _is_err(exp, raised):
                fails.append({"clause": tag + "selection-error-raises", "expected": sorted(getattr(exp, "alts", {str(exp)})),
                              "observed": raised})
            if after != before:
                fails.append({"clause": tag + "update-atomic-on-selection-error", "expected": _j(before), "observed": _j(after)})
            return
        rejected = {k: ref_rejects(case, k) for k in exp if ref_rejects(case, k)}
        if rejected:
            # (b) a setattr of a selected attribute fails.  Determined by the text: the call cannot complete
            # (one of the failing setattr's exceptions comes out), attributes outside the selection are
            # untouched, the rejecting attribute is unchanged, every other selected attribute holds its
            # old value or the slice's value.  Left open: which of them are already written.
            if raised not in set(rejected.values()):
                fails.append({"clause": tag + "setattr-error-propagates", "expected": sorted(set(rejected.values())), "observed": raised})
            for k in set(before) | set(after):
                if k not in exp or k in rejected:
                    if after.get(k, _MISSING) != before.get(k, _MISSING):
                        fails.append({"clause": tag + ("update-frame" if k not in exp else "rejected-attribute-unchanged"), "attribute": k,
                                      "expected": _j(before.get(k)), "observed": _j(after.get(k))})
            for k in exp:
                if k not in rejected and after.get(k, _MISSING) != before.get(k, _MISSING) and not _same(after.get(k, _MISSING), exp[k]):
                    fails.append({"clause": tag + "update-writes", "attribute": k, "expected": _j(exp[k]), "observed": _j(after.get(k))})
            return
        if raised:
            fails.append({"clause": tag + "update-raises", "expected": None, "observed": raised})
            return
        want = dict(before)
        want.update(exp)
        if after != want or any(type(after[k]) is not type(want[k]) for k in want):
            clause = "update-frame" if any(after.get(k, _MISSING) != before.get(k, _MISSING)
                                           for k in set(after) | set(before) if k not in exp) else "update-writes"
            fails.append({"clause": tag + clause, "expected": _j(want), "observed": _j(after)})

    def oracle(self, case):
        fails = []
        el = build_element(case)
        op = case["op"]
        values = {f["name"]: el[f["name"]].value for f in case["fields"] if is_present(case, f)}
        kinds = {f["name"]: f["kind"] for f in case["fields"]}
        fields = [f["name"] for f in case["fields"]]        # the DECLARED fields
        inc, om = case.get("include"), case.get("omit")
        rmap = rename_map(case.get("rename"))
        exp = ref_slice(values, inc, om, rmap, case.get("key"), case.get("malformed"))

        if op == "slice":
            try:
                got = el.slice(**_kwargs(case, True))
            except Exception as e:  # noqa: BLE001
                got = type(e).__name__
            if isinstance(exp, str) or isinstance(got, str):
                if not _is_err(exp, got):
                    fails.append({"clause": "include-omit-exclusive" if (inc and om) else "slice-error", "expected": _j(exp), "observed": _j(got)})
            elif got != exp or any(type(got[k]) is not type(exp[k]) for k in exp):
                fails.append({"clause": "slice-selection", "expected": _j(exp), "observed": _j(got)})
            return fails

        box = _ObjBox(case.get("obj", []), case.get("objmode"))
        before = box.snapshot()
        if op in ("update", "roundtrip"):
            try:
                el.update_object(box.obj, **_kwargs(case, True))
                raised = None
            except Exception as e:  # noqa: BLE001
                raised = type(e).__name__
            after = box.snapshot()
            self._check_update(case, "", before, after, exp, raised, fails)
            if op == "update" and case.get("then") is not None:
                # recovery: the second call is judged against the state the first one left
                t = case["then"]
                exp2 = ref_slice(values, t.get("include"), t.get("omit"), rename_map(t.get("rename")), t.get("key"))
                try:
                    el.update_object(box.obj, **_kwargs(case, True, t))
                    raised2 = None
                except Exception as e:  # noqa: BLE001
                    raised2 = type(e).__name__
                self._check_update(case, "then-", after, box.snapshot(), exp2, raised2, fails)
            if op == "update" or isinstance(exp, str) or raised:
                return fails
            # ---- consequence: read back with the inverse renaming
            a2 = case["args2"]
            inv = rename_map(a2.get("rename"))
            targets = set(rmap.values())
            hyp = (len(set(rmap.values())) == len(rmap) and not (targets & set(fields))
                   and inv == {v: k for k, v in rmap.items()} and not a2.get("include") and not a2.get("omit")
                   and len(case["rename"]["pairs"] if case.get("rename") else []) == len(rmap)
                   and not any(n in before for n in set(fields) | targets))
            del box.log[:]
            el2 = build_schema(case)()
            try:
                el2.set_by_object(box.obj, **_kwargs(case, False, a2))
            except Exception as e:  # noqa: BLE001
                if not (type(e) is TypeError and case.get("policy", "subset") == "strict") and (hyp or type(e) is not TypeError):
                    fails.append({"clause": "roundtrip", "expected": "no exception", "observed": type(e).__name__})
                return fails
            if hyp:
                for f in fields:
                    selected = (f in rmap) or (bool(inc) and f in inc) or (bool(om) and f not in om) or (not inc and not om)
                    selected = selected and f in values
                    want_v = _member_value(kinds[f], values[f]) if selected else None
                    got_v = _val(el2, f)
                    if got_v != want_v or type(got_v) is not type(want_v):
                        fails.append({"clause": "roundtrip", "field": f, "expected": _j(want_v), "observed": _j(got_v)})
                    if selected and values[f] is not None and _member_value(kinds[f], values[f]) != values[f]:
                        fails.append({"clause": "roundtrip-value-stable", "field": f, "expected": _j(values[f]),
                                      "observed": _j(_member_value(kinds[f], values[f]))})
            return fails

        # ---- set_by_object
        go_on = self._check_setby(case, "", el, box, before, fields, kinds, case, case.get("malformed"), fails)
        if case.get("then") is not None and go_on:
            del box.log[:]
            self._check_setby(case, "then-", el, box, before, fields, kinds, case["then"], None, fails)
        return fails

    def _check_setby(self, case, tag, el, box, before, fields, kinds, args, malformed, fails):
        """One set_by_object call with `args` on element `el` (in whatever state it is).  Returns False when
        the element's state afterwards is not determined by the text (a strict-policy rejection)."""
        inc, om = args.get("include"), args.get("omit")
        rmap = rename_map(args.get("rename"))
        pre_values = {f: el[f].value for f in fields if f in el}
        try:
            el.set_by_object(box.obj, **_kwargs(case, False, None if args is case else args))
            raised = None
        except Exception as e:  # noqa: BLE001
            raised = type(e).__name__
        reads = set(box.log)
        now = {f: el[f].value for f in fields if f in el}
        if box.snapshot() != before:
            fails.append({"clause": tag + "setby-object-untouched", "expected": _j(before), "observed": _j(box.snapshot())})
        if malformed or (inc and om):
            want_exc = "TypeError"
            if malformed and malformed["arg"] == "rename":
                want_exc = MALFORMED["rename"][malformed["form"]]
            if raised != want_exc:
                fails.append({"clause": tag + ("include-omit-exclusive" if not malformed else "setby-malformed-raises"),
                              "expected": want_exc, "observed": raised})
            if reads:
                fails.append({"clause": tag + "reads", "expected": [], "observed": sorted(reads)})
            if now != pre_values:
                fails.append({"clause": tag + "setby-failed-call-leaves-element", "expected": _j(pre_values), "observed": _j(now)})
            return True
        want_reads = ref_read_set(fields, om, rmap)
        raisers = {a["name"]: a["raises"] for a in case.get("obj", []) if a.get("raises") and a["name"] in want_reads}
        if raisers:
            # (c) reading one of the attributes that map to declared fields raises: the exception comes out, the
            # element is as it was, only attributes of the read set were looked at (which ones: order-dependent)
            if raised not in set(raisers.values()):
                fails.append({"clause": tag + "setby-read-error-propagates", "expected": sorted(set(raisers.values())), "observed": raised})
            if now != pre_values or any(type(now[f]) is not type(pre_values[f]) for f in now):
                fails.append({"clause": tag + "setby-read-error-leaves-element", "expected": _j(pre_values), "observed": _j(now)})
            if not reads <= want_reads:
                fails.append({"clause": tag + "reads", "expected": sorted(want_reads), "observed": sorted(reads)})
            return True
        if reads != want_reads:
            fails.append({"clause": tag + "reads", "expected": sorted(want_reads), "observed": sorted(reads)})
        # values: each field gets the value of the attribute that maps to it (greatest attribute
        # name wins when several do), through member.set(); all other fields are unset
        sources = {}
        for a in sorted(want_reads):
            if a not in before:
                continue
            out = ref_outkey(a, inc, om, rmap)
            if out is not None and out in fields:
                sources[out] = a
        strict_missing = case.get("policy") == "strict" and set(sources) != set(fields)
        if strict_missing:
            if raised != "TypeError":
                fails.append({"clause": tag + "strict-policy", "expected": "TypeError", "observed": raised})
            return False
        if raised:
            fails.append({"clause": tag + "setby-raises", "expected": None, "observed": raised})
            return False
        for f in fields:
            want_v = _member_value(kinds[f], before[sources[f]]) if f in sources else None
            got_v = _val(el, f)
            if got_v != want_v or type(got_v) is not type(want_v):
                fails.append({"clause": tag + "setby-values", "field": f, "expected": _j(want_v), "observed": _j(got_v)})
        return True

    # ------------------------------------------------------------ findings, coverage, shrinking

    def classify(self, case, failure):
        # no open findings: KF-C20-a (rename chains) and KF-C20-b (SparseDict) were repaired in /repo
        # (2460dd6, 29e8575); their witnesses stay in the corpus
        return None

    def nontrivial(self, case, obs):
        if _failure_kinds(case):
            # a failure-path case is non-trivial when the failure was reached, or a recovery call ran
            return bool(obs.get("exc")) or "exc2" in obs
        if obs.get("exc"):
            return False
        supplied = any(case.get(k) for k in ("include", "omit", "key")) or bool(case.get("rename") and case["rename"]["pairs"])
        if not supplied:
            return False
        if case["op"] == "slice":
            return bool(obs["result"])
        if case["op"] == "update":
            return True
        return any(v is not None for _, v in (obs.get("value") or []))

    def tags(self, case, obs):
        for f in case["fields"]:
            if not isinstance(f["kind"], str):
                pass
        if case.get("sparse"):
            pass
        t = ["op=" + case["op"], "exc=%s" % obs.get("exc"), "fields=%d" % len(case["fields"]),
             "dict=%s" % ("sparse" if case.get("sparse") else "dense"),
             "rich-kinds=%s" % any(not isinstance(f["kind"], str) for f in case["fields"]),
             "policy=" + case.get("policy", "subset")]
        for k in ("include", "omit"):
            v = case.get(k)
            t.append("%s=%s" % (k, "none" if v is None else ("empty" if not v else "given")))
        r = case.get("rename")
        t.append("rename=%s" % ("none" if r is None else ("empty" if not r["pairs"] else r["as"])))
        t.append("key=%s" % (case["key"]["fn"] if case.get("key") else "none"))
        names = [f["name"] for f in case["fields"]]
        if r and r["pairs"]:
            rmap = rename_map(r)
            if any(k in names for k in rmap):
                t.append("rename-hits-field")
            if any(v in names for v in rmap.values()):
                t.append("rename-targets-field")
            if any(k in (case.get("omit") or []) or k in (case.get("include") or []) for k in rmap):
                t.append("rename-overlaps-selection")
        for k in ("include", "omit"):
            if case.get(k) and any(n not in names for n in case[k]):
                t.append(k + "-names-unknown")
        if case["op"] == "slice" and obs.get("result") is not None:
            t.append("selected=%d" % len(obs["result"]))
            if len(obs["result"]) < len(names) and not case.get("include") and not case.get("omit"):
                t.append("key-collision")
        if case["op"] in ("setby", "roundtrip") and obs.get("reads") is not None:
            t.append("reads=%d" % min(len(obs["reads"]), 8))
        if any(a.get("prop") for a in case.get("obj", [])):
            t.append("obj-has-property")
        if any(a.get("prop") and not a["present"] for a in case.get("obj", [])):
            t.append("obj-has-raising-property")
        fk = _failure_kinds(case)
        for k in fk:
            t.append("fail=" + k)
        if fk:
            t.append("fail-outcome=%s/%s" % (case["op"], obs.get("exc")))
            if "exc2" in obs:
                t.append("recovery=%s/%s-then-%s" % (case["op"], obs.get("exc"), obs.get("exc2")))
            srt = sorted(f["name"] for f in case["fields"])
            bad = [n for n in srt if not ref_keyed(case.get("key"), n)[0]] if case["op"] != "setby" else []
            if bad:
                i = srt.index(bad[0])
                t.append("key-fails-at=%s" % ("only" if len(srt) == 1 else "first" if i == 0 else "last" if i == len(srt) - 1 else "middle"))
            if case["op"] == "update" and case.get("objmode") and obs.get("exc") and not bad and not case.get("malformed"):
                before = {a["name"] for a in case.get("obj", []) if a["present"]}
                written = [k for k, _ in obs["obj"] if k not in before]
                t.append("setattr-fails-after-new-attrs=%d" % min(len(written), 3))
            if case["op"] == "setby" and obs.get("exc") and obs.get("reads"):
                t.append("read-fails-after-reads=%d" % min(len(obs["reads"]) - 1, 3))
        return t

    def shrink_candidates(self, case):
        for k in ("then", "objmode", "malformed"):
            if case.get(k) is not None:
                c = copy.deepcopy(case)
                del c[k]
                yield c
        if case.get("key") and case["key"].get("base"):
            c = copy.deepcopy(case)
            c["key"]["base"] = None
            yield c
        for i, a in enumerate(case.get("obj", [])):
            if a.get("raises"):
                c = copy.deepcopy(case)
                del c["obj"][i]["raises"]
                yield c
        for i in range(len(case["fields"])):
            if len(case["fields"]) > 1:
                c = copy.deepcopy(case)
                del c["fields"][i]
                yield c
        for k in ("include", "omit"):
            v = case.get(k)
            if v:
                for i in range(len(v)):
                    c = copy.deepcopy(case)
                    del c[k][i]
                    yield c
            if v is not None and not v:
                c = copy.deepcopy(case)
                c[k] = None
                yield c
        r = case.get("rename")
        if r is not None:
            for i in range(len(r["pairs"])):
                c = copy.deepcopy(case)
                del c["rename"]["pairs"][i]
                if "args2" in c and c["args2"].get("rename"):
                    c["args2"]["rename"]["pairs"] = [[b, a] for a, b in c["rename"]["pairs"]]
                yield c
            if not r["pairs"]:
                c = copy.deepcopy(case)
                c["rename"] = None
                yield c
        if case.get("key") is not None:
            c = copy.deepcopy(case)
            c["key"] = None
            yield c
        for i in range(len(case.get("obj", []))):
            c = copy.deepcopy(case)
            del c["obj"][i]
            yield c
        if case.get("policy", "subset") != "subset":
            c = copy.deepcopy(case)
            c["policy"] = "subset"
            yield c
        for i, f in enumerate(case["fields"]):
            if f["value"] not in (None, {"s": "v"}):
                c = copy.deepcopy(case)
                c["fields"][i]["value"] = {"s": "v"} if f["kind"] != "int" else {"i": 1}
                if not isinstance(f["kind"], str):
                    c["fields"][i]["kind"] = "str"
                if c["fields"][i]["value"] != f["value"]:
                    yield c
            if f["kind"] != "str":
                c = copy.deepcopy(case)
                c["fields"][i]["kind"] = "str"
                yield c


def _failure_kinds(case):
    out = []
    k = case.get("key")
    if k and k["fn"] in ("table", "raise_on", "unhash_on"):
        out.append("key-" + k["fn"] + ("-" + k["exc"] if k["fn"] == "raise_on" else ""))
    if case.get("malformed"):
        out.append("malformed-%s-%s" % (case["malformed"]["arg"], case["malformed"]["form"]))
    if case.get("objmode"):
        out.append("setattr-" + case["objmode"]["kind"])
    if any(a.get("raises") for a in case.get("obj", [])):
        out.append("read-raises")
    return out


_MISSING = object()


def _same(a, b):
    return a is not _MISSING and a == b and type(a) is type(b)


def _val(el, f):
    """`.value` of member f; a member that does not exist (SparseDict) counts as unset."""
    return el[f].value if f in el else None


def _j(v):
    """JSON-able rendering of expected/observed values for replay files."""
    if isinstance(v, dict):
        return {str(k): _j(x) for k, x in sorted(v.items(), key=lambda kv: str(kv[0]))}
    if isinstance(v, (list, tuple, set)):
        return [_j(x) for x in v]
    if v is None or isinstance(v, (bool, int, str)):
        return v
    return repr(v)


PROP = C20()
