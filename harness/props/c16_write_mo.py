"""Minimal .mo writer (GNU gettext format, little endian, no hash table) from a parsed .po.
usage: write_mo.py <in.po> <out.mo>"""
import struct, sys
sys.path.insert(0, '/tmp/agents/g4')
from harness.extractors.c16 import parse_po

def write_mo(po_path, mo_path):
    entries, problems = parse_po(po_path)
    assert not problems, problems
    cat = {}
    for e in entries:
        if e["fuzzy"] and e["msgid"] != "":
            continue
        if e["msgid_plural"] is None:
            if e["msgstr"] and (e["msgstr"][0] or e["msgid"] == ""):
                cat[e["msgid"]] = e["msgstr"][0]
        elif all(e["msgstr"]):
            cat[e["msgid"] + "\0" + e["msgid_plural"]] = "\0".join(e["msgstr"])
    keys = sorted(cat, key=lambda k: k.encode("utf-8"))
    ids = [k.encode("utf-8") for k in keys]
    strs = [cat[k].encode("utf-8") for k in keys]
    n = len(keys)
    koff, voff = 7 * 4, 7 * 4 + n * 8
    data_off = voff + n * 8
    ktab, vtab, blob = [], [], b""
    for b_ in ids:
        ktab.append((len(b_), data_off + len(blob))); blob += b_ + b"\0"
    for b_ in strs:
        vtab.append((len(b_), data_off + len(blob))); blob += b_ + b"\0"
    out = struct.pack("<Iiiiiii", 0x950412de, 0, n, koff, voff, 0, 0)
    out += b"".join(struct.pack("<ii", l, o) for l, o in ktab)
    out += b"".join(struct.pack("<ii", l, o) for l, o in vtab)
    open(mo_path, "wb").write(out + blob)

if __name__ == "__main__":
    write_mo(sys.argv[1], sys.argv[2])
