"""C02 — hostile flat input is absorbed: total, confined, bounded, order-free."""
import copy
import json
import random
import unicodedata

from harness import flatlib as fl
from harness.core import Property, chash


# ------------------------------------------------------------------ independent key classifier

def _digits(s):
    i = 0
    while i < len(s) and unicodedata.category(s[i]) == "Nd":
        i += 1
    return s[:i], s[i:]


def address(s, sep, key):
    """Canonical address a flat key reaches in schema `s`, or None when the key does not follow
    declared names down to a leaf or to an index of a declared list.  `key` is the text still to
    be consumed, starting with this element's own name (None/'' = nothing left).
    Result: tuple path ending in ('leaf',) or ('slot', i, <deeper address or None>)."""
    key = key or ""
    t = s["t"]
    name = s["name"]
    if t in ("leaf", "joined"):
        return ("leaf",) if key == (name or "") else None
    if t in ("dict", "compound"):
        if name is not None:
            if not key.startswith(name + sep):
                return None
            key = key[len(name) + len(sep):]
        for f in s["fields"]:
            fname = f["name"]
            if key == fname or key.startswith(fname + sep):
                a = address(f, sep, key)
                if a is not None:
                    return (fname,) + a
        return None
    if t == "list":
        if name:
            if not key.startswith(name + sep):
                return None
            key = key[len(name) + len(sep):]
        ds, rest = _digits(key)
        if not ds:
            return None
        if rest.startswith(sep):
            rest = rest[len(sep):]
        elif rest == "":
            pass
        else:
            return None
        if len(ds) > 4300:
            return None
        idx = int(ds)
        deeper = address(s["member"], sep, rest) if True else None
        return ("slot", idx) + (deeper if deeper is not None else ("junk",))
    if t == "array":
        mname = s["member"]["name"]
        if name:
            if key == name:
                return ("leaf",) if not mname else None
            if not key.startswith(name + sep):
                return None
            rest = key[len(name) + len(sep):]
            return ("leaf",) if rest == (mname or "") else None
        return ("leaf",) if key == (mname or "") else None
    return None


def addresses(schema, sep, key):
    return address(schema, sep, key) is not None


def leaf_address(schema, sep, key):
    a = address(schema, sep, key)
    if a is None or a[-1] != "leaf":
        return None
    return a


# ------------------------------------------------------------------ key generation

def valid_keys(rng, s, sep, prefix=None):
    """Keys that address leaves of the schema (one representative per leaf and a few indexes)."""
    t, name = s["t"], s["name"]
    here = prefix if name is None else ((prefix + sep + name) if prefix is not None else name)
    if t in ("leaf", "joined"):
        return [here if here is not None else ""]
    if t in ("dict", "compound"):
        out = []
        for f in s["fields"]:
            out += valid_keys(rng, f, sep, here)
        return out
    if t == "list":
        out = []
        for i in rng.sample([0, 1, 2, 3, 5, 9, 40, 1023, 1024, 2000], rng.randint(1, 3)):
            p = (here + sep + str(i)) if here is not None else str(i)
            out += valid_keys(rng, s["member"], sep, p)
        return out
    if t == "array":
        return valid_keys(rng, s["member"], sep, here) * rng.randint(1, 3)
    return []


UNI_DIGITS = ["٣", "１２", "०", "0٣", "߁"]


def mutate_key(rng, key, sep, names):
    r = rng.randint(0, 15)
    if r == 0 and key:
        return key[: rng.randint(0, len(key))]
    if r == 1:
        return key + rng.choice(["x", sep, sep + "junk", "\n", "\x00", " ", sep + sep + "a"])
    if r == 2:
        return key.replace(sep, sep + sep, 1)
    if r == 3:
        return key.replace(sep, "", 1)
    if r == 4:
        return str(rng.choice([0, 1, 7, -1, 10 ** 6]))
    if r == 5:
        return key.replace("0", "00", 1).replace("1", "01", 1)
    if r == 6:
        return key.replace("0", rng.choice(UNI_DIGITS), 1).replace("1", rng.choice(UNI_DIGITS), 1)
    if r == 7:
        n = rng.choice([30, 4300, 4301, 5000])
        ds = rng.choice("123456789") * n
        parts = key.split(sep)
        for i, p in enumerate(parts):
            if p.isdigit():
                parts[i] = ds
                return sep.join(parts)
        return key + sep + ds
    if r == 8 and names:
        return rng.choice(names) + rng.choice(["", "x", sep, "1"])
    if r == 9:
        return key + "\n"
    if r == 10:
        return rng.choice([".*", "(", "[a-z]+", "\\d", "$", "^", key.upper(), key.swapcase(), ""])
    if r == 11 and names:
        return sep.join(rng.sample(names, min(len(names), rng.randint(1, 3))))
    if r == 12:
        return key + sep + key
    if r == 13:
        return sep + key
    if r == 14:
        return key.replace(sep, sep + "-1" + sep, 1)
    return key


def gen_pairs(rng, schema, sep):
    names = fl.schema_names(schema)
    base = valid_keys(rng, schema, sep)
    pairs = []
    for _ in range(rng.choice([0, 1, 2, 3, 4, 6, 8, 12])):
        if base and rng.random() < 0.8:
            key = rng.choice(base)
        else:
            key = rng.choice(names + ["zz", ""]) if names else "zz"
        if rng.random() < 0.35:
            key = mutate_key(rng, key, sep, names)
        pairs.append([key, rng.choice(fl.TEXTS)])
    if pairs and rng.random() < 0.2:
        pairs.append(list(rng.choice(pairs)))
    if rng.random() < 0.25:
        # keys spelled with the name of the (used) PARENT class some classes are derived from
        # (flatlib.build_class): they address nothing in the derived schema
        for _ in range(rng.choice([1, 1, 2])):
            tail = rng.choice(["0", "1", "0" + sep + "zz", "zzf", "0" + sep + rng.choice(names or ["s"])])
            key = "zzparent" + rng.choice([sep, "_"]) + tail
            if base and rng.random() < 0.5:
                b = rng.choice(base)
                cut = b.rfind(sep)
                key = (b[:cut + len(sep)] if cut >= 0 else "") + key
            pairs.insert(rng.randint(0, len(pairs)), [key, rng.choice(["x", "evil", ""])])
    return pairs


# ------------------------------------------------------------------ running the real code

def run_flat(schema, kinds, sep, pairs):
    cls = fl.build_class(schema, kinds)
    el = cls()
    el.set_flat([tuple(p) for p in pairs], sep)
    return el


def state(schema, kinds, sep, pairs):
    try:
        el = run_flat(schema, kinds, sep, pairs)
    except Exception as e:
        return {"raise": type(e).__name__}
    return fl.extract(el, schema)


def strip_blank_sparse(elem, s):
    """Drop members of sparse dicts that are blank (for the class predicate of KF-C02-b)."""
    t = s["t"]
    if t in ("dict", "compound") and "dict" in elem:
        fields = {f["name"]: f for f in s["fields"]}
        out = []
        for k, v in elem["dict"]:
            v2 = strip_blank_sparse(v, fields[k])
            if t == "dict" and s["mode"] != "dense" and _is_blank(v2):
                continue
            out.append([k, v2])
        return {"dict": out}
    if t == "list" and "list" in elem:
        return {"list": [strip_blank_sparse(m, s["member"]) for m in elem["list"]]}
    return elem


def _extra_members(w, wo, s, sep, path):
    """Flattened names of the sparse-dict members present in state `w` and absent from `wo`."""
    t = s["t"]
    here = path + ([s["name"]] if s.get("name") is not None and not path[-1:] == ["#idx"] else [])
    if path[-1:] == ["#idx"]:
        here = path[:-1]
    out = []
    if t in ("dict", "compound") and "dict" in w and "dict" in wo:
        fields = {f["name"]: f for f in s["fields"]}
        other = dict((k, v) for k, v in wo["dict"])
        for k, v in w["dict"]:
            if k not in other:
                out.append(sep.join(here + [k]))
            else:
                out += _extra_members(v, other[k], fields[k], sep, here)
    elif t == "list" and "list" in w and "list" in wo:
        for i, (a, b) in enumerate(zip(w["list"], wo["list"])):
            out += _extra_members(a, b, s["member"], sep, here + [str(i), "#idx"])
    return out


def _is_blank(elem):
    if "leaf" in elem:
        return elem["leaf"] == ""
    if "dict" in elem:
        return all(_is_blank(v) for _, v in elem["dict"])
    if "list" in elem:
        return not elem["list"]
    if "array" in elem:
        return not elem["array"]
    if "joined" in elem:
        return elem["joined"][0] == ""
    return False


def list_lengths(el, s):
    out = []
    for e, sc in fl.walk_elements(el, s):
        if sc["t"] == "list":
            out.append((len(e), sc["max"]))
    return out


class C02(Property):
    id = "C02"
    title = "Hostile flat input is absorbed: total, confined, bounded, order-free"
    proof_module = "Proofs.C02Order"
    level_text = 'Lean 4 theorems on the set_flat model: `bounded_fromFlat` (ceiling invariant for every pair list, every nesting, both rebuild modes), `confined_fromFlat` (a non-addressing pair has no effect; every dense schema, any position), `order_free` (invariance under every permutation when no key occurs twice hereditarily); negation witnesses for SparseDict materialisation and index aliases. Totality is observed by correspondence (exception class).'
    level_note = 'Trusted: Lean kernel + 3 standard axioms; model Flatland/Flat.lean tied by correspondence; the Lean spec `addr` is cross-checked against an independent Python classifier on every pair of every case; scalar set(text) enters as a table; Nd digit table and int digit limit regenerated from the interpreter.'
    technique = 'Lean 4 proof (invariant by mutual structural induction, confinement, permutation invariance); differential correspondence; Python oracle'
    theorems = [
        "Flatland.Flat.Proofs.bounded_fromFlat",
        "Flatland.Flat.Proofs.bounded_setFlat",
        "Flatland.Flat.Proofs.confined_fromFlat",
        "Flatland.Flat.Proofs.confined_full_fails",
        "Flatland.Flat.Proofs.order_free",
        "Flatland.Flat.Proofs.order_free_full_fails",
        # the stable version (k2, Proofs/C02OrderStable.lean): Arrays exempt, their pairs keep their order
        "Flatland.Flat.Proofs.order_free_stable",
        "Flatland.Flat.Proofs.hnodup_hnodupA",
        "Flatland.Flat.Proofs.asame_of_hnodup",
        "Flatland.Flat.Proofs.order_free_of_stable",
        "Flatland.Flat.Proofs.order_free_stable_full_fails",
        "Flatland.Flat.Proofs.exStable",
    ]
    extra_proof_modules = ["Proofs.C02OrderStable"]   # needed for the audit to see the six names above
    trusted_base = [
        "scalar set(text) is an input of the flat model (env.norm tables computed from the real scalar classes in isolation; C04's subject)",
        "regex/int()/startswith re-implemented by hand in Flatland/Flat.lean (Nd table and int digit limit regenerated from the interpreter)",
    ]
    assumptions = [
        "separators beginning with a decimal digit: only totality and the bound are checked (oracle only; the Lean model of the index recogniser reads the maximal digit run, the regex backtracks)",
        "Addresses = reaches a leaf name or 'list-path sep digits' (a key continuing with junk after a list index still addresses the slot)",
        "Array members are scalars (library assertion); Dict fields are named",
    ]
    rule = ("random schemas (as C01, every maximum_set_flat_members/prune_empty setting) x pair lists built from valid leaf keys plus 35% mutated "
            "keys (truncated/extended/doubled or missing separators/bare indexes/-1/leading zeros/30-5000 digit runs/non-ASCII digits/"
            "sibling-prefix names/trailing newline/NUL/regex metacharacters); non-trivial = at least 2 pairs and at least one pair that "
            "changes the tree; distinct = canonical case JSON")
    quick_n = 2500
    thorough_n = 80000
    case_timeout = 8

    def corpus(self):
        S = lambda name, k=0: {"t": "leaf", "name": name, "opt": False, "k": k}
        kinds = [fl.LEAF_KINDS[0]]
        L = {"t": "list", "name": "l", "opt": False, "prune": True, "max": 1024, "member": S("s")}
        LD = {"t": "list", "name": "l", "opt": False, "prune": True, "max": 1024,
              "member": {"t": "dict", "name": None, "opt": False, "mode": "dense", "fields": [S("a")]}}
        LL = {"t": "list", "name": "l", "opt": False, "prune": False, "max": 4,
              "member": {"t": "list", "name": None, "opt": False, "prune": True, "max": 3, "member": S(None)}}
        A = {"t": "array", "name": "arr", "opt": False, "prune": True, "multi": False, "member": S("m")}
        AA = {"t": "array", "name": None, "opt": False, "prune": True, "multi": False, "member": S(None)}
        SP = {"t": "dict", "name": None, "opt": False, "mode": "sparse", "fields": [S("a"), S("b")]}
        mk = lambda sc, pairs: {"schema": sc, "kinds": kinds, "sep": "_", "pairs": pairs}
        return [
            mk(L, [["l_" + "1" * 5000 + "_s", "v"]]),                       # fixed: huge index
            mk(LD, [["l_0", "x"]]),                                          # fixed: bare index, dict member
            mk(LL, [["l_0", "x"], ["l_1_0", "y"], ["l_9_0", "z"]]),          # fixed: bare index, list member; ceiling
            mk(AA, [["", "a"], ["zz", "b"], ["", "c"]]),                     # fixed: anonymous array junk
            mk(A, [["arr_zzz", "v"], ["arr_m", "w"], ["arr_m_x", "u"]]),     # fixed: named array junk remainder
            mk(L, [["l_0_s", "a"], ["l_0_s_", "b"]]),                        # doubled separator tail
            mk(L, [["l_0_s", "a"], ["l_00_s", "b"]]),                        # KF-C02-a alias witness
            mk(SP, [["abc", "x"]]),                                          # KF-C02-b witness
            {"schema": {"t": "dict", "name": None, "opt": False, "mode": "dense", "fields": [
                {"t": "array", "name": "", "opt": False, "prune": True, "multi": False, "member": S("(x)")}]},
             "kinds": kinds, "sep": "a", "pairs": [["(x)", "x"]]},           # KF-C02-c witness: a field named ''
            # Lists WITHOUT an explicit ceiling ("max": null -> `resolve_ceilings`: the class default of
            # maximum_set_flat_members applies in the real code, the documented 1024 in model and oracle):
            # 1030 consecutive indexes, kept / pruned; sparse indexes on both sides of the default ceiling
            mk(fl.resolve_ceilings(dict(L, prune=False, max=None)), [["l_%d_s" % i, "v%d" % i] for i in range(1030)]),
            mk(fl.resolve_ceilings(dict(L, max=None)), [["l_%d_s" % i, "v"] for i in range(1030)]),
            mk(fl.resolve_ceilings(dict(L, prune=False, max=None)),
               [["l_%d_s" % i, "v"] for i in (0, 5, 1022, 1023, 1024, 1025, 2047, 2048, 4096)]),
            mk(fl.resolve_ceilings(dict(L, max=None)),
               [["l_%d_s" % i, "v"] for i in list(range(0, 2060, 2)) + [1023, 1025]]),
        ]

    def generate(self, rng, n, tier):
        for _ in range(n):
            sep = rng.choice(fl.SEP_POOL)
            kinds = []
            schema = fl.gen_schema(rng, sep, rng.choice([1, 2, 2, 3, 3, 4]), kinds)
            for _retry in range(3):
                if schema["t"] in ("leaf", "joined") and rng.random() < 0.85:
                    kinds = []
                    schema = fl.gen_schema(rng, sep, rng.choice([2, 3, 3, 4]), kinds)
            # a further share of the Lists that say the documented ceiling carry no explicit ceiling at all (the
            # class default applies in the real code); flatlib.gen_schema already leaves 1 in 7 that way
            for x in fl.walk_schema(schema):
                if x["t"] == "list" and x["max"] == fl.DOC_LIST_CEILING and not x.get("max_default") and rng.random() < 0.5:
                    x["max_default"] = True
            yield {"schema": schema, "kinds": kinds, "sep": sep, "pairs": gen_pairs(rng, schema, sep)}

    def run_impl(self, case):
        schema, kinds, sep, pairs = case["schema"], case["kinds"], case["sep"], case["pairs"]
        texts = [v for _, v in pairs]
        try:
            el = run_flat(schema, kinds, sep, pairs)
        except Exception as e:
            return {"raise": type(e).__name__, "_env": fl.make_env(kinds, texts, [])}
        return {"elem": fl.extract(el, schema), "flatten": [list(p) for p in el.flatten(sep)],
                "addr": [addresses(schema, sep, k) for k, _ in pairs],
                "_env": fl.make_env(kinds, texts, fl.observed_compounds(el, schema)),
                "_lens": list_lengths(el, schema)}

    def has_model(self, case):
        # fields named '' are outside the model's address specification (KF-C02-c): oracle only
        return not fl.digit_sep(case["sep"]) and not any(x.get("name") == "" for x in fl.walk_schema(case["schema"]))

    def model_input(self, case, obs):
        return {"schema": case["schema"], "sep": case["sep"], "pairs": case["pairs"],
                "env": (obs or {}).get("_env") or fl.make_env(case["kinds"], [], [])}

    def compare(self, impl_obs, model_obs):
        if "raise" in impl_obs:
            return "implementation raised %s; the model is total" % impl_obs["raise"]
        return super().compare(impl_obs, model_obs)

    def oracle(self, case):
        schema, kinds, sep, pairs = case["schema"], case["kinds"], case["sep"], case["pairs"]
        fails = []
        try:
            el = run_flat(schema, kinds, sep, pairs)
        except Exception as e:
            return [{"clause": "total", "observed": "%s: %s" % (type(e).__name__, str(e)[:120])}]
        for n, mx in list_lengths(el, schema):
            if n > mx:
                fails.append({"clause": "bounded", "observed": n, "expected": "<= %d" % mx})
                break
        full = fl.extract(el, schema)
        if fl.digit_sep(sep):
            # with a separator that starts with a decimal digit, which index a key spells depends on regex
            # backtracking; the independent address classifier below does not model that, so only
            # totality and the bound are decided for such cases
            return fails
        # confined: a pair that addresses nothing has no effect
        for i, (k, v) in enumerate(pairs):
            if not addresses(schema, sep, k):
                without = state(schema, kinds, sep, pairs[:i] + pairs[i + 1:])
                if without != full:
                    fails.append({"clause": "confined", "key": k, "index": i,
                                  "with": full, "without": without})
                    break
        # order-free when no key occurs twice
        keys = [k for k, _ in pairs]
        if len(set(keys)) == len(keys) and len(keys) > 1:
            r = random.Random(chash(case))
            for _ in range(4):
                perm = pairs[:]
                r.shuffle(perm)
                st = state(schema, kinds, sep, perm)
                if st != full:
                    fails.append({"clause": "order-free", "permutation": perm, "expected": full, "observed": st})
                    break
        return fails

    def classify(self, case, failure):
        schema, sep, pairs = case["schema"], case["sep"], case["pairs"]
        if failure.get("clause") == "order-free":
            # KF-C02-a predicts: the order dependence comes from two distinct keys that spell the same leaf
            # address (first pair wins) — with only one spelling kept per address it is gone, both for the
            # failing permutation and for fresh ones
            seen, drop = {}, set()
            for k, _ in pairs:
                a = leaf_address(schema, sep, k)
                if a is not None:
                    if a in seen and seen[a] != k:
                        drop.add(k)
                    else:
                        seen.setdefault(a, k)
            if not drop:
                return None
            kept = [p for p in pairs if p[0] not in drop]
            perm = [p for p in (failure.get("permutation") or []) if p[0] not in drop]
            try:
                if perm and state(schema, case["kinds"], sep, perm) != state(schema, case["kinds"], sep, kept):
                    return None
                if any(f.get("clause") == "order-free" for f in self.oracle(dict(case, pairs=kept))):
                    return None
            except Exception:
                return None
            return "KF-C02-a"
        if failure.get("clause") == "confined":
            # KF-C02-c predicts: below a container field named '' (accepted by Dict.of) the separator that
            # should follow the empty name is not demanded: the stray key is an address once that separator
            # is put in front of it
            k = failure.get("key")
            if isinstance(k, str) and any(x.get("name") == "" for x in fl.walk_schema(schema)):
                P = "\ue000"                      # read the '' names literally: give them a real (fresh) name
                lit = json.loads(json.dumps(schema))
                for x in fl.walk_schema(lit):
                    if x.get("name") == "":
                        x["name"] = P
                if not addresses(lit, sep, k) and addresses(lit, sep, P + sep + k):
                    return "KF-C02-c"
            # KF-C02-b: the only effect is a blank member materialised in a sparse dict
            w, wo = failure.get("with"), failure.get("without")
            if isinstance(w, dict) and isinstance(wo, dict) and "raise" not in w and "raise" not in wo:
                if strip_blank_sparse(w, schema) == strip_blank_sparse(wo, schema):
                    # … and the mechanism is the recorded one: every member the stray key materialised has a
                    # flattened name that is a string prefix of the key (the prefix test of
                    # SparseDict's pair filter), so an unrelated key creating members is still reported
                    extra = _extra_members(w, wo, schema, sep, [])
                    if extra and isinstance(k, str) and all(k.startswith(n) for n in extra):
                        return "KF-C02-b"
        return None

    def nontrivial(self, case, obs):
        if "raise" in obs or len(case["pairs"]) < 2:
            return False
        return obs["elem"] != state(case["schema"], case["kinds"], case["sep"], [])

    def tags(self, case, obs):
        t = ["pairs=%d" % min(len(case["pairs"]), 12), "root=" + case["schema"]["t"]]
        if "raise" in obs:
            return t + ["raised-" + obs["raise"]]
        na = sum(1 for k, _ in case["pairs"] if not addresses(case["schema"], case["sep"], k))
        t.append("nonaddressing=%d" % min(na, 6))
        for n, mx in obs.get("_lens", []):
            if n == mx and mx < 1024:
                t.append("list-at-ceiling")
        if any(x["t"] == "list" and x.get("max_default") for x in fl.walk_schema(case["schema"])):
            t.append("list-default-ceiling")
            if any(n >= fl.DOC_LIST_CEILING for n, _ in obs.get("_lens", [])):
                t.append("list-at-default-ceiling")
        if any(len(k) > 1000 for k, _ in case["pairs"]):
            t.append("huge-digit-run")
        if any(any(ord(c) > 127 and unicodedata.category(c) == "Nd" for c in k) for k, _ in case["pairs"]):
            t.append("non-ascii-digits")
        return list(dict.fromkeys(t))

    def shrink_candidates(self, case):
        for i in range(len(case["pairs"])):
            c = copy.deepcopy(case)
            del c["pairs"][i]
            yield c
        for i, (k, v) in enumerate(case["pairs"]):
            if len(k) > 12:
                c = copy.deepcopy(case)
                c["pairs"][i][0] = k[: len(k) // 2]
                yield c
            if v not in ("", "x"):
                c = copy.deepcopy(case)
                c["pairs"][i][1] = "x"
                yield c
        s = case["schema"]
        if s["t"] == "dict" and len(s["fields"]) > 1:
            for i in range(len(s["fields"])):
                c = copy.deepcopy(case)
                del c["schema"]["fields"][i]
                yield c


PROP = C02()
