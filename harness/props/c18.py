"""C18 — derived elements always reflect their parts."""
import copy
import datetime
import re

from harness.core import Property
from harness.props import scalars_g6 as S
from harness.props.c04 import (K_int, K_string, K_enum, appropriate_input, input_to_py, leaf, tree_conv, ZEROS)

MEMBER_NAMES = ["year", "month", "day"]
MEMBER_KINDS = [K_int(True, 4), K_int(True, 2), K_int(True, 2)]
SPLITTERS = {"static": None, "commaws": r"\s*,\s*"}


def splitter_re(sp):
    if sp == "static":
        return None
    if sp == "commaws":
        return re.compile(r"\s*,\s*")
    return re.compile("[" + re.escape(sp["anyof"]) + "]")


def state_obs(el):
    return {"v": S.out_nat(el.value), "u": S.cps(el.u)}


# ---------------------------------------------------------------- builders

def date_cls(case):
    import flatland
    return flatland.DateYYYYMMDD.named(case["name"]) if case.get("name") else flatland.DateYYYYMMDD


def joined_cls(case):
    import flatland
    c = case["cfg"]
    kw = dict(separator=c["sep"], prune_empty=c["prune"], member_schema=S.kind_cls(c["member"]))
    rx = splitter_re(c.get("splitter", "static"))
    if rx is not None:
        kw["separator_regex"] = rx
    cls = flatland.JoinedString.using(**kw)
    return cls.named(case["name"]) if case.get("name") else cls


def multi_cls(case):
    import flatland
    return flatland.MultiValue.named(case["name"]).of(S.kind_cls(case["kind"])).using(prune_empty=case["prune"])


def ref_form(case):
    import flatland
    w = {"ignore": "ignore", "yes": True, "no": False}[case["writable"]]
    sub = flatland.Dict.named("sub").of(S.kind_cls(case["kind"]).named("t"))
    return flatland.Dict.of(sub, flatland.String.named("o"), flatland.Ref.named("r").to("../sub/t").using(writable=w))


# ---------------------------------------------------------------- applying one operation

def apply_date(el, case, op):
    if op["op"] == "set":
        return el.set(S.nat_to_py(op["x"]))
    if op["op"] == "member":
        return el[MEMBER_NAMES[op["i"]]].set(S.nat_to_py(op["x"]))
    prefix = case["name"] + "_" if case.get("name") else ""
    return el.set_flat([(prefix + k, v) for k, v in op["pairs"]])


def apply_joined(el, case, op):
    o = op["op"]
    if o == "set":
        return el.set(input_to_py(op["x"]))
    if o == "member":
        return el[op["i"]].set(S.nat_to_py(op["x"]))
    if o == "append":
        return el.append(S.nat_to_py(op["x"]))
    if o == "del":
        del el[op["i"]]
        return None
    return el.set_flat([(k, v) for k, v in op["pairs"]])


def apply_multi(el, case, op):
    o = op["op"]
    if o == "set":
        return el.set(input_to_py(op["x"]))
    if o == "member":
        return el[op["i"]].set(S.nat_to_py(op["x"]))
    if o == "append":
        return el.append(S.nat_to_py(op["x"]))
    if o == "insertfront":
        return el.insert(0, S.nat_to_py(op["x"]))
    if o == "del":
        del el[op["i"]]
        return None
    return el.set_flat([(k, v) for k, v in op["pairs"]])


def apply_ref(form, case, op):
    o = op["op"]
    if o == "tset":
        return form["sub"]["t"].set(S.nat_to_py(op["x"])), None
    if o == "subset":
        return form["sub"].set({"t": S.nat_to_py(op["x"])}), None
    if o == "read":
        r = form["r"]
        return None, [S.out_nat(r.value), S.cps(r.u)]
    return form["r"].set(S.nat_to_py(op["x"])), None


def ret_json(r):
    return r if isinstance(r, bool) else None


# ---------------------------------------------------------------- reference derivations (spec B)

def expected_date(vals):
    """The date composed from the members' values: ('', None) unless they are three ints that form
    a Gregorian date with 1 <= year <= 9999."""
    if all(type(v) is int for v in vals):
        y, m, d = vals
        if 1 <= y <= 9999:
            try:
                dt = datetime.date(y, m, d)
            except (ValueError, OverflowError):
                return "", None
            return "%04d-%02d-%02d" % (y, m, d), dt
    return "", None


DATE_TEXT = re.compile(r"\d{4}-\d{2}-\d{2}")


def parse_date_input(x):
    """If x is a date, or a text that denotes one (YYYY-MM-DD, surrounding whitespace allowed),
    the (y, m, d) it denotes; else None."""
    if isinstance(x, datetime.date):
        return x.year, x.month, x.day
    if isinstance(x, str) and DATE_TEXT.fullmatch(x.strip()):
        t = x.strip()
        try:
            y, m, d = int(t[:4]), int(t[5:7]), int(t[8:10])
            datetime.date(y, m, d)
        except ValueError:
            return None
        return y, m, d
    return None


def resplit(case, text):
    c = case["cfg"]
    rx = splitter_re(c.get("splitter", "static"))
    return rx.split(text) if rx is not None else text.split(c["sep"])


class C18(Property):
    id = "C18"
    title = "Derived elements always reflect their parts"
    proof_module = "Proofs.C18"
    theorems = [
        "Flatland.C18.Proofs.date_compose_spec",
        "Flatland.C18.Proofs.date_explode",
        "Flatland.C18.Proofs.joined_value",
        "Flatland.C18.Proofs.joined_reset_partial",
        "Flatland.C18.Proofs.settled_of_text",
        "Flatland.C18.Proofs.C18_joined_reset_fails",
        "Flatland.C18.Proofs.multivalue_first",
        "Flatland.C18.Proofs.ref_proxy_partial",
        "Flatland.C18.Proofs.C18_ref_fails",
        "Flatland.Scalar.matchDate_fmt",
    ]
    generated_obligations = ["Flatland.C04.Proofs.pyTables_ok"]
    level_text = "proof"
    level_note = ("date_compose_spec/date_explode are full (every member value; ints beyond CPython's digit limit excluded); joined_reset is "
                  "partial (SplitStable, NoEmptyTextUnderPrune; refuted in full by KF-C18-a) and ref_proxy is partial (RefSafe; refuted in "
                  "full by KF-C18-b); joined_value / multivalue_first are definitional in the model and rest on the correspondence")
    trusted_base = [
        "the scalar model of C04 (CPython primitives re-implemented over regenerated tables; float/Decimal opaque)",
        "JoinedString separators: str.split for static separators, and the two regular expressions `\\s*,\\s*` and single-character "
        "classes as hand-written recognisers (patterns are supplied by the harness, not read from /repo)",
        "Ref: one form shape Dict{sub: Dict{t}, o, r: Ref('../sub/t')}; find_one / lazy_property modelled as 'resolve once, keep the element'",
    ]
    assumptions = [
        "DateYYYYMMDD with its generated Integer members (custom member schemas other than Integer formats are not modelled)",
        "operations: whole-element set(), set_flat(), member set(), append/insert/del; direct attribute assignment (.value = / .u =) is not modelled",
        "no tz-aware or bytes inputs (as C04)",
    ]
    rule = ("operation histories of length 1-6 on one derived element, observed after every operation. 35% DateYYYYMMDD (anonymous or named): "
            "set(date | datetime | valid/mutated/transliterated/padded date text | None | garbage | other natives), member set() with in-range, "
            "boundary (0, -1, 13, 29-32, 100, 10000, 12345, True) and unadaptable values, set_flat with exact, prefix-sharing and unknown keys. "
            "35% JoinedString: 8 separator configurations (static ',', ', ', '::', ' '; regex \\s*,\\s* with ', ' and ','; character classes), prune "
            "on/off, String(strip on/off)/Integer/Boolean members; set(text | list with None/0/False members | non-iterable), member set, append, "
            "del, set_flat; 25% of histories use hostile member texts (containing the separator, padded). 15% MultiValue (Integer/String/"
            "Boolean/Date members): set, member set, append, insert(0), del, set_flat with repeated/empty/foreign keys. 15% Ref in "
            "Dict{sub: Dict{t}, o, r: Ref('../sub/t')} with writable ignore/True/False: target set, container set (replaces the member), Ref "
            "read, Ref set. Exhaustive: compose over a 12x9x10 grid of member values. non-trivial = history completes and a derived value "
            "was produced (date composed or >2 steps; >=1 member; >=1 Ref read)")
    quick_n = 30000
    thorough_n = 200000

    # ------------------------------------------------------------ cases

    def corpus(self):
        D = datetime.date
        j_default = {"sep": ",", "splitter": "static", "prune": True, "member": K_string(True)}
        cases = [
            # fixed 71fc8fd is a C06 matter; C18 witnesses: compose after member edits
            {"sub": "date", "name": None, "ops": [{"op": "member", "i": 0, "x": S.py_to_nat(2020)},
                                                  {"op": "member", "i": 1, "x": S.py_to_nat(2)},
                                                  {"op": "member", "i": 2, "x": S.py_to_nat(30)},
                                                  {"op": "member", "i": 2, "x": S.py_to_nat("29")}]},
            {"sub": "date", "name": "when", "ops": [{"op": "set", "x": S.py_to_nat(D(2020, 1, 2))},
                                                    {"op": "set", "x": None},
                                                    {"op": "set", "x": S.py_to_nat("garbage")},
                                                    {"op": "setflat", "pairs": [["year", "1999"], ["month", "12"], ["day", "31"], ["yearx", "5"]]}]},
            {"sub": "date", "name": None, "ops": [{"op": "set", "x": S.py_to_nat("2020-01-02")},
                                                  {"op": "member", "i": 0, "x": S.py_to_nat(-5)},
                                                  {"op": "member", "i": 0, "x": S.py_to_nat(12345)},
                                                  {"op": "member", "i": 0, "x": S.py_to_nat(True)},
                                                  {"op": "member", "i": 1, "x": S.py_to_nat(13)}]},
            # open KF-C18-a: pruning JoinedString with a member whose text is ''
            {"sub": "joined", "name": "j", "cfg": j_default,
             "ops": [{"op": "set", "x": {"i": "list", "v": [leaf("a"), leaf(" "), leaf("b")]}}]},
            # open KF-C18-c: a member text that contains the separator next to whitespace
            {"sub": "joined", "name": "j", "cfg": j_default,
             "ops": [{"op": "set", "x": {"i": "list", "v": [leaf("a , b")]}}]},
            {"sub": "joined", "name": "j", "cfg": {"sep": ", ", "splitter": "commaws", "prune": True, "member": K_string(True)},
             "ops": [{"op": "set", "x": leaf("a  ,  b,c,d")}, {"op": "append", "x": S.py_to_nat("")}, {"op": "del", "i": 0}]},
            # fixed 09fc190: JoinedString.set(None) / set(non-iterable) no longer raise
            {"sub": "joined", "name": "j", "cfg": j_default,
             "ops": [{"op": "set", "x": leaf("a,b")}, {"op": "set", "x": leaf(None)}, {"op": "append", "x": S.py_to_nat("z")},
                     {"op": "set", "x": leaf(7)}]},
            {"sub": "multi", "name": "m", "kind": K_int(True), "prune": True,
             "ops": [{"op": "set", "x": {"i": "list", "v": [leaf("3"), leaf("x")]}}, {"op": "insertfront", "x": S.py_to_nat("zz")},
                     {"op": "del", "i": 0}, {"op": "setflat", "pairs": [["m", "1"], ["m", ""], ["m", "2"], ["z", "9"]]}]},
            # open KF-C18-b: the Ref keeps proxying a member that was replaced
            {"sub": "ref", "kind": K_string(True), "writable": "ignore",
             "ops": [{"op": "subset", "x": S.py_to_nat("one")}, {"op": "read"}, {"op": "subset", "x": S.py_to_nat("two")}, {"op": "read"}]},
            {"sub": "ref", "kind": K_int(True), "writable": "yes",
             "ops": [{"op": "rset", "x": S.py_to_nat(" 6 ")}, {"op": "read"}, {"op": "tset", "x": S.py_to_nat("x")}, {"op": "read"}]},
            {"sub": "ref", "kind": K_int(True), "writable": "no", "ops": [{"op": "read"}, {"op": "rset", "x": S.py_to_nat(6)}]},
        ]
        for c in cases:
            c["conv"] = []
        return cases

    def exhaustive(self, tier):
        # compose over a grid of member values around every boundary of the date recogniser
        ys = [None, -1, 0, 1, 999, 2020, 2021, 1900, 2000, 9999, 10000, True]
        ms = [None, -1, 0, 1, 2, 12, 13, 99, 100]
        ds = [None, -1, 0, 1, 28, 29, 30, 31, 32, 100]
        for y in ys:
            for m in ms:
                for d in ds:
                    yield {"sub": "date", "name": None, "conv": [], "ops": [
                        {"op": "member", "i": 0, "x": S.py_to_nat(y)}, {"op": "member", "i": 1, "x": S.py_to_nat(m)},
                        {"op": "member", "i": 2, "x": S.py_to_nat(d)}]}

    exhaustive_note = "DateYYYYMMDD.compose over a 12 x 9 x 10 grid of member values (None, negatives, 0, month 13, day 29-32, year 10000, True)"

    # -- random pieces
    def _date_member_input(self, rng, i):
        r = rng.random()
        if r < 0.55:
            hi = [9999, 12, 31][i]
            return rng.choice([rng.randint(1, hi), str(rng.randint(1, hi)), rng.randint(1, hi)])
        if r < 0.8:
            return rng.choice([None, 0, -1, 13, 32, 29, 30, 31, 2, 100, 10000, 12345, "", "x", " 7 ", "٣", True, False, "02", 2.5])
        return S.random_native(rng)

    def _date_text(self, rng):
        r = rng.random()
        d = datetime.date(rng.choice([1, 999, 1900, 2000, 2020, 2021, 9999]), rng.randint(1, 12), rng.randint(1, 28))
        if r < 0.2:
            d = rng.choice([datetime.date(2020, 2, 29), datetime.date(2000, 2, 29), datetime.date(1, 1, 1)])
        s = d.isoformat()
        rr = rng.random()
        if rr < 0.2:
            s = S.translit(rng, s, ZEROS)
        elif rr < 0.4:
            s = S.mutate_text(rng, s)
        elif rr < 0.5:
            s = " " + s + "\n"
        return s

    def _gen_date(self, rng):
        ops = []
        for _ in range(rng.choice([1, 2, 3, 4, 5, 6])):
            r = rng.random()
            if r < 0.35:
                x = rng.choice([self._date_text(rng), self._date_text(rng), datetime.date(2020, 2, 29), datetime.datetime(1999, 12, 31, 23, 59),
                                None, "", "garbage", 5, "2021-02-29", "0000-01-01"]) if rng.random() < 0.85 else S.random_native(rng)
                ops.append({"op": "set", "x": S.py_to_nat(x)})
            elif r < 0.8:
                i = rng.randint(0, 2)
                ops.append({"op": "member", "i": i, "x": S.py_to_nat(self._date_member_input(rng, i))})
            else:
                pairs = []
                for n in rng.sample(MEMBER_NAMES + ["yearx", "ye", "", "Day", "year"], rng.randint(0, 4)):
                    v = self._date_member_input(rng, 0)
                    pairs.append([n, v if isinstance(v, str) else str(rng.choice([1, 2, 12, 28, 2020, 1999]))])
                ops.append({"op": "setflat", "pairs": pairs})
        return {"sub": "date", "name": rng.choice([None, "when", "d"]), "ops": ops, "conv": []}

    def _joined_piece(self, rng, cfg):
        bk = S.base_kind(cfg["member"])["k"]
        if bk == "integer":
            return rng.choice(["1", "22", " 3 ", "x", "", " ", "-4", "0_5", "٣"])
        if bk == "boolean_default":
            return rng.choice(["on", "off", "1", "", "x", "true"])
        return rng.choice(["a", "b", "", " ", " x ", "a b", "c", "long text", "\tq"])

    def _gen_joined(self, rng):
        cfg = rng.choice([
            {"sep": ",", "splitter": "static"}, {"sep": ", ", "splitter": "static"}, {"sep": "::", "splitter": "static"},
            {"sep": " ", "splitter": "static"}, {"sep": ", ", "splitter": "commaws"}, {"sep": ",", "splitter": "commaws"},
            {"sep": ";", "splitter": {"anyof": ";,"}}, {"sep": "|", "splitter": {"anyof": "|"}},
        ])
        cfg = dict(cfg, prune=rng.random() < 0.6,
                   member=rng.choice([K_string(True), K_string(True), K_string(False), K_int(True), {"k": "boolean_default"}]))
        hostile = rng.random() < 0.25     # member texts containing separators / padding
        ops = []
        n_members = 0
        for _ in range(rng.choice([1, 2, 3, 4, 5])):
            r = rng.random()
            piece = lambda: (self._joined_piece(rng, cfg) if not hostile or rng.random() < 0.6
                             else rng.choice(["a" + cfg["sep"] + "b", "a , b", cfg["sep"], "x ", " y", "p;q", "a,b"]))
            if r < 0.4 or n_members == 0:
                parts = [piece() for _ in range(rng.choice([0, 1, 2, 3, 4]))]
                rr = rng.random()
                if rr < 0.55:
                    x = leaf(cfg["sep"].join(parts))
                elif rr < 0.9:
                    x = {"i": "list", "v": [leaf(rng.choice([p, p, p, None, 0, 7, False])) for p in parts]}
                else:
                    x = leaf(rng.choice([None, 7, "", S.Other("thing", True)]))
                ops.append({"op": "set", "x": x})
                n_members = 1          # unknown; member ops are clipped at run time by the generator below
            elif r < 0.6:
                ops.append({"op": "member", "i": rng.randint(0, 2), "x": S.py_to_nat(rng.choice([piece(), None, 5]))})
            elif r < 0.75:
                ops.append({"op": "append", "x": S.py_to_nat(rng.choice([piece(), piece(), None, ""]))})
            elif r < 0.85:
                ops.append({"op": "del", "i": rng.randint(0, 2)})
            else:
                ops.append({"op": "setflat", "pairs": [[rng.choice(["j", "j", "k", "j_x"]), cfg["sep"].join(piece() for _ in range(rng.randint(0, 3)))]
                                                       for _ in range(rng.randint(0, 2))]})
        case = {"sub": "joined", "name": "j", "cfg": cfg, "ops": ops}
        self._clip_indexes(case, joined_cls, apply_joined)
        case["conv"] = []
        return case

    def _gen_multi(self, rng):
        kind = rng.choice([K_int(True), K_string(True), K_string(False), {"k": "boolean_default"}, {"k": "date", "strip": True}])
        ops = []
        for _ in range(rng.choice([1, 2, 3, 4, 5])):
            r = rng.random()
            val = lambda: (appropriate_input(rng, kind) if rng.random() < 0.7 else rng.choice([None, "", "x", 5, " 1 "]))
            if r < 0.3:
                rr = rng.random()
                if rr < 0.8:
                    x = {"i": "list", "v": [leaf(val()) for _ in range(rng.choice([0, 1, 2, 3]))]}
                else:
                    x = leaf(rng.choice([None, 5, "ab", ""]))
                ops.append({"op": "set", "x": x})
            elif r < 0.5:
                ops.append({"op": "member", "i": rng.randint(0, 2), "x": S.py_to_nat(val())})
            elif r < 0.65:
                ops.append({"op": "append", "x": S.py_to_nat(val())})
            elif r < 0.75:
                ops.append({"op": "insertfront", "x": S.py_to_nat(val())})
            elif r < 0.85:
                ops.append({"op": "del", "i": rng.randint(0, 2)})
            else:
                pairs = []
                for _ in range(rng.randint(0, 4)):
                    v = val()
                    pairs.append([rng.choice(["m", "m", "m", "z", "m_", "m_x", "mm"]), v if isinstance(v, str) else rng.choice(["", "1", "x"])])
                ops.append({"op": "setflat", "pairs": pairs})
        case = {"sub": "multi", "name": "m", "kind": kind, "prune": rng.random() < 0.6, "ops": ops}
        self._clip_indexes(case, multi_cls, apply_multi)
        case["conv"] = []
        return case

    def _gen_ref(self, rng):
        kind = rng.choice([K_string(True), K_int(True), K_int(False), {"k": "boolean_default"}, {"k": "date", "strip": True},
                           K_enum(K_string(True), ["a", "b"])])
        ops = []
        for _ in range(rng.choice([1, 2, 3, 4, 5, 6])):
            r = rng.random()
            x = S.py_to_nat(appropriate_input(rng, kind) if rng.random() < 0.75 else rng.choice([None, "", "x", 5, " 1 ", True]))
            if r < 0.25:
                ops.append({"op": "tset", "x": x})
            elif r < 0.45:
                ops.append({"op": "subset", "x": x})
            elif r < 0.75:
                ops.append({"op": "read"})
            else:
                ops.append({"op": "rset", "x": x})
        return {"sub": "ref", "kind": kind, "writable": rng.choice(["ignore", "yes", "yes", "no"]), "ops": ops, "conv": []}

    def _clip_indexes(self, case, mk_cls, apply):
        """Make member/del indexes valid by running the history on the real element (structure only)."""
        el = mk_cls(case)()
        kept = []
        for op in case["ops"]:
            if op["op"] in ("member", "del"):
                if len(el) == 0:
                    continue
                op["i"] = op["i"] % len(el)
            try:
                apply(el, case, op)
            except Exception:  # noqa: BLE001
                kept.append(op)
                break
            kept.append(op)
        case["ops"] = kept

    def generate(self, rng, n, tier):
        for _ in range(n):
            r = rng.random()
            if r < 0.35:
                yield self._gen_date(rng)
            elif r < 0.7:
                yield self._gen_joined(rng)
            elif r < 0.85:
                yield self._gen_multi(rng)
            else:
                yield self._gen_ref(rng)

    # ------------------------------------------------------------ implementation runner

    def run_impl(self, case):
        sub = case["sub"]
        steps = []
        if sub == "ref":
            form = ref_form(case)()
            for op in case["ops"]:
                try:
                    ret, read = apply_ref(form, case, op)
                except Exception as e:  # noqa: BLE001
                    steps.append({"exc": type(e).__name__})
                    break
                steps.append({"exc": None, "ret": ret_json(ret), "read": read, "t": state_obs(form["sub"]["t"])})
            return {"steps": steps}
        mk, apply = {"date": (date_cls, apply_date), "joined": (joined_cls, apply_joined), "multi": (multi_cls, apply_multi)}[sub]
        el = mk(case)()
        for op in case["ops"]:
            try:
                ret = apply(el, case, op)
            except Exception as e:  # noqa: BLE001
                steps.append({"exc": type(e).__name__})
                break
            obs = {"exc": None, "ret": ret_json(ret)}
            if sub == "date":
                try:
                    obs["u"], obs["value"] = S.cps(el.u), S.out_nat(el.value)
                except ValueError:
                    obs["u"] = obs["value"] = "ValueError"
                obs["members"] = [state_obs(el[n]) for n in MEMBER_NAMES]
            elif sub == "joined":
                obs["value"] = S.cps(el.value)
                obs["members"] = [state_obs(c) for c in el]
            else:
                obs["u"], obs["value"] = S.cps(el.u), S.out_nat(el.value)
                obs["members"] = [state_obs(c) for c in el]
            steps.append(obs)
        return {"steps": steps}

    # ------------------------------------------------------------ oracle

    def oracle(self, case):
        try:
            return getattr(self, "_oracle_" + case["sub"])(case)
        except Exception as e:  # noqa: BLE001
            return [{"clause": "derived-raises", "expected": None, "observed": type(e).__name__}]

    def _oracle_date(self, case):
        fails = []
        el = date_cls(case)()
        for n, op in enumerate(case["ops"]):
            try:
                apply_date(el, case, op)
            except Exception:  # noqa: BLE001 - set() raising is C04's business
                return fails
            vals = [el[m].value for m in MEMBER_NAMES]
            if any(type(v) is int and abs(v) >= 10 ** S.MAXD for v in vals):
                return fails
            want_u, want_v = expected_date(vals)
            got_u, got_v = el.u, el.value
            if got_u != want_u or got_v != want_v or type(got_v) is not type(want_v):
                fails.append({"clause": "date-is-composed-from-members", "step": n, "members": [S.out_nat(v) for v in vals],
                              "expected": [want_u, S.out_nat(want_v)], "observed": [got_u, S.out_nat(got_v)]})
            if bool(el.is_empty) != all(el[m].is_empty for m in MEMBER_NAMES):
                fails.append({"clause": "date-is-empty", "step": n, "expected": all(el[m].is_empty for m in MEMBER_NAMES),
                              "observed": bool(el.is_empty)})
            if op["op"] == "set":
                ymd = parse_date_input(S.nat_to_py(op["x"]))
                if ymd is not None:
                    if vals != list(ymd) or [type(v) for v in vals] != [int, int, int]:
                        fails.append({"clause": "date-set-sets-members", "step": n, "expected": list(ymd),
                                      "observed": [S.out_nat(v) for v in vals]})
                    if got_v != datetime.date(*ymd):
                        fails.append({"clause": "date-set-roundtrip", "step": n, "expected": list(ymd), "observed": S.out_nat(got_v)})
        return fails

    def _oracle_joined(self, case):
        fails = []
        cls = joined_cls(case)
        el = cls()
        sep = case["cfg"]["sep"]
        for n, op in enumerate(case["ops"]):
            try:
                apply_joined(el, case, op)
            except Exception:  # noqa: BLE001
                return fails
            us = [c.u for c in el]
            want = sep.join(us)
            if el.value != want or el.u != want:
                fails.append({"clause": "joined-value-is-join", "step": n, "expected": want, "observed": [el.value, el.u]})
            el2 = cls()
            try:
                el2.set(el.value)
                again = el2.value
            except Exception as e:  # noqa: BLE001
                again = type(e).__name__
            if again != el.value:
                fails.append({"clause": "joined-reset", "step": n, "members": us, "expected": el.value, "observed": again})
        return fails

    def _oracle_multi(self, case):
        fails = []
        el = multi_cls(case)()
        for n, op in enumerate(case["ops"]):
            try:
                apply_multi(el, case, op)
            except Exception:  # noqa: BLE001
                return fails
            members = list(el)
            want_u = members[0].u if members else ""
            want_v = members[0].value if members else None
            if el.u != want_u or S.out_nat(el.value) != S.out_nat(want_v):
                fails.append({"clause": "multivalue-first", "step": n, "expected": [want_u, S.out_nat(want_v)],
                              "observed": [el.u, S.out_nat(el.value)]})
        return fails

    def _oracle_ref(self, case):
        fails = []
        form = ref_form(case)()
        for n, op in enumerate(case["ops"]):
            try:
                apply_ref(form, case, op)
            except TypeError:
                if not (case["writable"] == "no" and op["op"] == "rset"):
                    fails.append({"clause": "ref-set-raises", "step": n, "expected": None, "observed": "TypeError"})
                continue
            except Exception:  # noqa: BLE001
                return fails
            r, t = form["r"], form["sub"]["t"]
            if S.out_nat(r.value) != S.out_nat(t.value) or r.u != t.u:
                fails.append({"clause": "ref-proxies-target", "step": n, "expected": [S.out_nat(t.value), t.u],
                              "observed": [S.out_nat(r.value), r.u]})
            keys = [k for k, _ in form.flatten()]
            if any(k == "r" or k.startswith("r_") for k in keys):
                fails.append({"clause": "ref-not-flattened", "step": n, "expected": "no key for r", "observed": keys})
        return fails

    def classify(self, case, failure):
        clause = failure.get("clause")
        if clause == "joined-reset":
            us = failure.get("members") or []
            if case["cfg"]["prune"] and any(u == "" for u in us):
                return "KF-C18-a"
            if resplit(case, case["cfg"]["sep"].join(us)) != us:
                return "KF-C18-c"
        if clause == "ref-proxies-target":
            # the oracle reads the Ref after every step, so the cache is resolved from step 0 on:
            # the class is "a subset (member replacement) happened at or before this step, after step 0"
            step = failure.get("step", 0)
            if any(op["op"] == "subset" for op in case["ops"][1:step + 1]):
                return "KF-C18-b"
        return None

    # ------------------------------------------------------------ coverage, shrinking

    def nontrivial(self, case, obs):
        steps = obs["steps"]
        if not steps or steps[-1].get("exc"):
            return False
        if case["sub"] == "date":
            return any(s.get("value") is not None for s in steps) or len(steps) > 2
        if case["sub"] in ("joined", "multi"):
            return any(len(s.get("members", [])) >= 1 for s in steps)
        return any(s.get("read") for s in steps)

    def tags(self, case, obs):
        t = ["sub=" + case["sub"], "ops=%d" % len(case["ops"])]
        for op in case["ops"]:
            t.append("%s-op=%s" % (case["sub"], op["op"]))
        steps = obs["steps"]
        if steps and steps[-1].get("exc"):
            t.append("exc=" + steps[-1]["exc"])
        if case["sub"] == "date":
            if any(s.get("value") not in (None, "ValueError") for s in steps):
                t.append("date-composed")
            if any(s.get("value") is None and all(m["v"] is not None for m in s.get("members", [{"v": None}])) for s in steps if not s.get("exc")):
                t.append("date-members-set-but-no-date")
        if case["sub"] == "joined":
            c = case["cfg"]
            t.append("joined-splitter=%s" % (c["splitter"] if isinstance(c["splitter"], str) else "anyof"))
            t.append("joined-prune=%s" % c["prune"])
            t.append("joined-members=%d" % max([len(s.get("members", [])) for s in steps] + [0]))
        if case["sub"] == "ref":
            t.append("ref-writable=" + case["writable"])
        return sorted(set(t))

    def shrink_candidates(self, case):
        ops = case["ops"]
        for i in range(len(ops)):
            c = copy.deepcopy(case)
            del c["ops"][i]
            if c["ops"]:
                yield c
        for i, op in enumerate(ops):
            x = op.get("x")
            if isinstance(x, dict) and x.get("i") == "list":
                for j in range(len(x["v"])):
                    c = copy.deepcopy(case)
                    del c["ops"][i]["x"]["v"][j]
                    yield c
            if isinstance(x, dict) and x.get("t") == "str":
                v = x["v"]
                for j in range(len(v)):
                    c = copy.deepcopy(case)
                    c["ops"][i]["x"] = S.py_to_nat(v[:j] + v[j + 1:])
                    yield c
            if op["op"] == "setflat":
                for j in range(len(op["pairs"])):
                    c = copy.deepcopy(case)
                    del c["ops"][i]["pairs"][j]
                    yield c


PROP = C18()
