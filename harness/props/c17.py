"""C17 — properties is a layered mapping: inherited downward, never leaking upward.

case = {"rtype": <builtin element type name>, "root": "using"|"named", "init": [[k, v]…],
        "cmds": [cmd…]}
class 0 is `T.using(properties=dict(init))` (root="using": owns a fresh Properties descriptor) or
`T.named("root")` (root="named": its frames live in `Element.properties`; init must be empty).
cmd:
  {"t":"op","view":["c"|"i",n],"op":…,"k","v","dflt":[]|[v],"pairs","other","form"}
  {"t":"subclass","p":n,"via":"named"|"using_name"|"using_optional"|"class_stmt"|"validated_by"}
  {"t":"mi","bases":[n…],"mro":[n…]}            class X(*bases); mro = C3 tail, restricted to case classes
  {"t":"using_props","p":n,"init":[[k,v]…],"wrap":bool}   p.using(properties=dict | Properties(dict))
  {"t":"using_shared","p":n,"owner":n,"init":[[k,v]…]}   p.using(properties=P), P the Properties object held by class
                                                 owner; init = P.initial_set as P was constructed (the caller knows P)
  {"t":"with_props","p":n,"pairs":[[k,v]…],"split":m,"form":"list"|"mapping"|"iter"|"none"}
                                                 first m pairs as THE positional argument (a list of pairs, a
                                                 mapping, an iterator; "none": folded into the keywords), rest keywords
  {"t":"new","c":n}  {"t":"new_with","c":n,"m":[[k,v]…]}  {"t":"assign","i":n,"m":[[k,v]…]}
observation = {"start": [[view, items]…], "steps": [{"r": result, "d": [[view, items]…]}…]}
where "d" lists every view whose list(items()) differs from the previous step (new views always).
"""
import copy
import itertools

from harness.core import Property

RTYPES = ["String", "Integer", "Boolean", "Dict", "List", "Array", "Date", "Enum", "DateYYYYMMDD", "JoinedString"]


def _root_type(name):
    import flatland
    if name == "Dict":
        return flatland.Dict.of(flatland.String.named("f"))
    if name in ("List", "Array"):
        return getattr(flatland, name).of(flatland.String)
    return getattr(flatland, name)
KEYS = ["a", "b", "c", "d", "k", "", "ключ", "k\U0001F511", "a b", "0"]
WRITE_OPS = ["setitem", "delitem", "clear", "pop", "setdefault", "update"]
READ_OPS = ["getitem", "get", "contains", "items", "keys", "values", "bool", "eq", "ne", "copy", "popitem"]
TOMB = ("<deleted>",)
CLASS_CMDS = ("subclass", "mi", "using_props", "using_shared", "with_props", "new_with_compound")
INST_CMDS = ("new", "new_with", "new_with_compound")


# ---------------------------------------------------------------- helpers

def c3_merge(seqs):
    """C3 linearisation merge; None if inconsistent."""
    seqs = [list(s) for s in seqs if s]
    out = []
    while seqs:
        for s in seqs:
            head = s[0]
            if not any(head in t[1:] for t in seqs):
                break
        else:
            return None
        out.append(head)
        seqs = [[x for x in s if x != head] for s in seqs]
        seqs = [s for s in seqs if s]
    return out


def _pairs(jp):
    return [(k, v) for k, v in jp]


def _cv(v):
    """values the cases use are None/int/str; anything else (e.g. the internal tombstone) is named by type"""
    if v is None or type(v) in (int, str):
        return v
    return {"<foreign>": type(v).__name__}


def _canon_items(items):
    return [[_cv(k), _cv(v)] for k, v in items]


# ---------------------------------------------------------------- the real implementation

class Real:
    """Executes a case on the real flatland, keeping every class and instance alive."""

    def __init__(self, case):
        T = _root_type(case["rtype"])
        if case["root"] == "using":
            root = T.using(properties=dict(_pairs(case["init"])))
        else:
            root = T.named("root")
        self.classes = [root]
        self.named_root = case["root"] != "using"
        self.insts = []
        self.held = {}          # view label -> the view OBJECT fetched once and kept by the caller

    def fresh_view(self, v):
        kind, n = v
        return self.classes[n].properties if kind == "c" else self.insts[n].properties

    def view(self, v, hold=False):
        """the view object a command goes through: the held one if the caller keeps one (fetched at the first
        command marked "held"), otherwise `X.properties` fetched afresh"""
        key = tuple(v)
        if hold and key not in self.held:
            self.held[key] = self.fresh_view(v)
        return self.held[key] if key in self.held else self.fresh_view(v)

    def view_objects(self, v):
        out = [(False, self.fresh_view(v))]
        if tuple(v) in self.held:
            out.append((True, self.held[tuple(v)]))
        return out

    def views(self):
        return [["c", i] for i in range(len(self.classes))] + [["i", i] for i in range(len(self.insts))]

    def snapshot(self):
        return [[v, _canon_items(self.view(v).items())] for v in self.views()]

    def materialised(self):
        """WHICH classes of the case have a frame in the `map` of the Properties object they resolve to.
        This is internal state of the library, read ONLY for the comparison of the materialisation order with the
        mechanism model (lean/Flatland/C17Frames.lean); the oracle never looks at it.  Nothing here goes through
        `Properties.__get__`, `_frames` or `_base_frame`, so the observation itself materialises nothing:
        the descriptor is found in the class `__dict__`s along the MRO and `cls in descriptor.map` is a plain
        WeakKeyDictionary membership test.  With root="named" class 0 stands for `Element` (the owner) in the
        models but is an ordinary subclass in the code: it is left out."""
        from flatland.schema.properties import Properties
        out = []
        for i, c in enumerate(self.classes):
            if i == 0 and self.named_root:
                continue
            desc = None
            for k in c.__mro__:
                desc = k.__dict__.get("properties")
                if desc is not None:
                    break
            if isinstance(desc, Properties) and c in desc.map:
                out.append(i)
        return out

    def do(self, cmd):
        """returns ("ok", raw result) or ("err", exception class name)"""
        try:
            return ("ok", self._do(cmd))
        except (KeyError, NotImplementedError, TypeError, ValueError, AttributeError) as e:
            return ("err", type(e).__name__)

    def _do(self, cmd):
        from flatland.schema.properties import Properties
        t = cmd["t"]
        if t == "op":
            return self._op(self.view(cmd["view"], hold=bool(cmd.get("held"))), cmd)
        if t == "subclass":
            p = self.classes[cmd["p"]]
            via = cmd.get("via", "named")
            if via == "named":
                c = p.named("n%d" % len(self.classes))
            elif via == "using_name":
                c = p.using(name="u%d" % len(self.classes))
            elif via == "using_optional":
                c = p.using(optional=True)
            elif via == "validated_by":
                c = p.validated_by(lambda e, s: True)
            else:
                c = type("Stmt%d" % len(self.classes), (p,), {})
            self.classes.append(c)
            return None
        if t == "mi":
            bases = tuple(self.classes[b] for b in cmd["bases"])
            c = type("MI%d" % len(self.classes), bases, {})
            got = [self.classes.index(x) for x in c.__mro__[1:] if x in self.classes]
            assert got == cmd["mro"], "harness: C3 mismatch %r vs %r" % (got, cmd["mro"])
            self.classes.append(c)
            return None
        if t == "using_props":
            d = dict(_pairs(cmd["init"]))
            c = self.classes[cmd["p"]].using(properties=Properties(d) if cmd.get("wrap") else d)
            self.classes.append(c)
            return None
        if t == "using_shared":
            desc = self.classes[cmd["owner"]].__dict__["properties"]
            assert isinstance(desc, Properties)
            self.classes.append(self.classes[cmd["p"]].using(properties=desc))
            return None
        if t == "with_props":
            pairs = _pairs(cmd["pairs"])
            m = cmd.get("split", len(pairs))
            kw = {}
            for k, v in pairs[m:]:
                kw[k] = v
            # the documented call: at most ONE positional argument — an iterable of pairs or a mapping — plus
            # keywords (fix 6f9ffeb); "none": no positional argument at all
            form = cmd.get("form", "list")
            parent = self.classes[cmd["p"]]
            if form == "none" or m == 0:
                new = parent.with_properties(**kw) if m == 0 else parent.with_properties(**dict(pairs[:m], **kw))
            elif form == "mapping":
                new = parent.with_properties(dict(pairs[:m]), **kw)
            elif form == "iter":
                new = parent.with_properties(iter(pairs[:m]), **kw)
            else:
                new = parent.with_properties(pairs[:m], **kw)
            self.classes.append(new)
            return None
        if t == "new":
            self.insts.append(self.classes[cmd["c"]]())
            return None
        if t == "new_with":
            self.insts.append(self.classes[cmd["c"]](properties=dict(_pairs(cmd["m"]))))
            return None
        if t == "new_with_compound":
            # _MetaCompound.__call__: a keyword that names a class attribute derives a class on the fly
            inst = self.classes[cmd["c"]](properties=dict(_pairs(cmd["m"])))
            assert type(inst) is not self.classes[cmd["c"]] and type(inst).__mro__[1] is self.classes[cmd["c"]]
            self.classes.append(type(inst))
            self.insts.append(inst)
            return None
        if t == "assign":
            self.insts[cmd["i"]].properties = dict(_pairs(cmd["m"]))
            # a view object fetched before the wholesale assignment belongs to the replaced mapping
            self.held.pop(("i", cmd["i"]), None)
            return None
        raise AssertionError("bad cmd %r" % (cmd,))

    @staticmethod
    def _op(view, cmd):
        op = cmd["op"]
        k = cmd.get("k")
        dflt = cmd.get("dflt", [])
        if op == "getitem":
            return ("v", view[k])
        if op == "setitem":
            view[k] = cmd["v"]
            return None
        if op == "delitem":
            del view[k]
            return None
        if op == "clear":
            r = view.clear()
            assert r is None
            return None
        if op == "pop":
            return ("v", view.pop(k, *dflt))
        if op == "setdefault":
            return ("v", view.setdefault(k, *dflt))
        if op == "get":
            return ("v", view.get(k, *dflt))
        if op == "update":
            pairs = _pairs(cmd["pairs"])
            form = cmd.get("form", "pairs")
            if form == "pairs":
                r = view.update(pairs)
            elif form == "dict":
                d = {}
                for kk, vv in pairs:
                    d[kk] = vv
                r = view.update(d)
            elif form == "kw":
                d = {}
                for kk, vv in pairs:
                    d[kk] = vv
                r = view.update(**d)
            else:  # split: first half positional, second half keywords
                m = len(pairs) // 2
                d = {}
                for kk, vv in pairs[m:]:
                    d[kk] = vv
                r = view.update(pairs[:m], **d)
            assert r is None
            return None
        if op == "items":
            return ("items", list(view.items()))
        if op == "keys":
            return ("keys", list(view.keys()))
        if op == "values":
            return ("vals", list(view.values()))
        if op == "contains":
            return ("b", k in view)
        if op == "bool":
            return ("b", bool(view))
        if op == "eq":
            return ("b", view == dict(_pairs(cmd["other"])))
        if op == "ne":
            return ("b", view != dict(_pairs(cmd["other"])))
        if op == "copy":
            c = view.copy()
            assert type(c) is dict
            return ("items", list(c.items()))
        if op == "popitem":
            return ("items", [view.popitem()])
        raise AssertionError("bad op %r" % (op,))


def _canon_result(res):
    kind, raw = res
    if kind == "err":
        return {"err": raw}
    if raw is None:
        return None
    tag, val = raw
    if tag == "items":
        return {"items": _canon_items(val)}
    if tag in ("keys", "vals"):
        return {tag: [_cv(x) for x in val]}
    if tag == "b":
        assert val is True or val is False
        return {"b": val}
    return {"v": _cv(val)}


# ---------------------------------------------------------------- reference overlay (spec B in Python)

class Ref:
    """The layered mapping of the property text: one layer of writes/deletions per view; a view
    shows the overlay of the layers of its chain from the most basic class down to itself.

    `defects` (empty for the oracle proper) switches on the recorded open findings, giving the
    "reference corrected for the known defect" that failures are classified against:
      "a"  instance clear() forgets the instance's own layer before tombstoning what the class shows
      "c"  a class whose MRO mixes Properties objects skips the layers held under another object"""

    def __init__(self, case, defects=()):
        self.defects = frozenset(defects)
        self.classes = [{"mro": [0], "fresh": True, "layer": dict(_pairs(case["init"])), "desc": 0}]
        self.insts = []
        self.ndesc = 1

    def cut(self, c):
        out = []
        for x in self.classes[c]["mro"]:
            out.append(x)
            if self.classes[x]["fresh"]:
                break
        return out

    def resolve(self, c):
        """the Properties object `cls.properties` resolves to: that of the nearest fresh class"""
        return self.classes[self.cut(c)[-1]]["desc"]

    def chain(self, c):
        out = self.cut(c)
        if "c" in self.defects:
            d = self.resolve(c)
            out = [x for x in out if self.resolve(x) == d]
        return out

    def inherits(self, w, v):
        """does view w see the layer of view v?  (always by the property text: defects ignored)"""
        if w == v:
            return True
        if v[0] == "i":
            return False
        if w[0] == "i":
            inst = self.insts[w[1]]
            return "detached" not in inst and v[1] in self.cut(inst["cls"])
        return v[1] in self.cut(w[1])

    def class_visible(self, c):
        out = {}
        for x in reversed(self.chain(c)):
            _overlay(out, self.classes[x]["layer"])
        return out

    def visible(self, v):
        kind, n = v
        if kind == "c":
            return self.class_visible(n)
        inst = self.insts[n]
        if "detached" in inst:
            return dict(inst["detached"])
        out = self.class_visible(inst["cls"])
        _overlay(out, inst["layer"])
        return out

    def views(self):
        return [["c", i] for i in range(len(self.classes))] + [["i", i] for i in range(len(self.insts))]

    def add_class(self, mro_tail, fresh, layer, desc=None):
        if fresh and desc is None:
            desc = self.ndesc
            self.ndesc += 1
        self.classes.append({"mro": [len(self.classes)] + list(mro_tail), "fresh": fresh, "layer": layer,
                             "desc": desc})

    def do(self, cmd):
        """expected result: ("err", name) | ("v", value) | ("b", bool) | ("dict", {...}) |
        ("keys", sorted list) | ("vals", sorted list) | None"""
        t = cmd["t"]
        if t == "op":
            kind, n = cmd["view"]
            if kind == "i" and "detached" in self.insts[n]:
                return _dict_op(self.insts[n]["detached"], None, cmd, plain=True)
            vis = self.visible(cmd["view"])
            layer = self.classes[n]["layer"] if kind == "c" else self.insts[n]["layer"]
            if kind == "i" and cmd["op"] == "clear" and "a" in self.defects:
                shown = self.class_visible(self.insts[n]["cls"])
                layer.clear()
                for key in shown:
                    layer[key] = TOMB
                return None
            return _dict_op(vis, layer, cmd, plain=False)
        if t == "subclass":
            self.add_class(self.classes[cmd["p"]]["mro"], False, {})
        elif t == "mi":
            self.add_class(cmd["mro"], False, {})
        elif t == "using_props":
            self.add_class(self.classes[cmd["p"]]["mro"], True, dict(_pairs(cmd["init"])))
        elif t == "using_shared":
            # a class that is handed a Properties object starts from the mapping that object was built with
            # (fix 936c1b4: the object's mapping is copied per class; former KF-C17-b)
            self.add_class(self.classes[cmd["p"]]["mro"], True, dict(_pairs(cmd["init"])),
                           desc=self.classes[cmd["owner"]]["desc"])
        elif t == "with_props":
            self.add_class(self.classes[cmd["p"]]["mro"], False, dict(_pairs(cmd["pairs"])))
        elif t == "new":
            self.insts.append({"cls": cmd["c"], "layer": {}})
        elif t == "new_with":
            self.insts.append({"cls": cmd["c"], "detached": dict(_pairs(cmd["m"]))})
        elif t == "new_with_compound":
            self.add_class(self.classes[cmd["c"]]["mro"], True, dict(_pairs(cmd["m"])))
            self.insts.append({"cls": len(self.classes) - 1, "layer": {}})
        elif t == "assign":
            self.insts[cmd["i"]] = {"cls": self.insts[cmd["i"]]["cls"], "detached": dict(_pairs(cmd["m"]))}
        return None


KNOWN_DEFECTS = ("a", "c")      # "b" (one Properties object shared by several classes) was fixed in /repo 936c1b4


def _same_mapping(exp, got):
    return set(exp) == set(got) and all(exp[k] == got[k] and type(exp[k]) is type(got[k]) for k in exp)


def _overlay(out, layer):
    for k, v in layer.items():
        if v is TOMB:
            out.pop(k, None)
        else:
            out[k] = v


def _dict_op(vis, layer, cmd, plain):
    """dict semantics on the visible mapping `vis`; writes recorded in `layer` (plain: vis itself)."""
    op = cmd["op"]
    k = cmd.get("k")
    dflt = cmd.get("dflt", [])

    def write(key, val):
        if plain:
            vis[key] = val
        else:
            layer[key] = val

    def delete(key):
        if plain:
            del vis[key]
        else:
            layer[key] = TOMB

    if op == "getitem":
        return ("v", vis[k]) if k in vis else ("err", "KeyError")
    if op == "setitem":
        write(k, cmd["v"])
        return None
    if op == "delitem":
        if k not in vis:
            return ("err", "KeyError")
        delete(k)
        return None
    if op == "clear":
        for key in list(vis):
            delete(key)
        return None
    if op == "pop":
        if k in vis:
            r = vis[k]
            delete(k)
            return ("v", r)
        return ("v", dflt[0]) if dflt else ("err", "KeyError")
    if op == "setdefault":
        if k in vis:
            return ("v", vis[k])
        d = dflt[0] if dflt else None
        write(k, d)
        return ("v", d)
    if op == "get":
        return ("v", vis.get(k, dflt[0] if dflt else None))
    if op == "update":
        for kk, vv in _pairs(cmd["pairs"]):
            write(kk, vv)
        return None
    if op == "items" or op == "copy":
        return ("dict", dict(vis))
    if op == "keys":
        return ("keys", sorted(vis))
    if op == "values":
        return ("vals", sorted(map(repr, vis.values())))
    if op == "contains":
        return ("b", k in vis)
    if op == "bool":
        return ("b", bool(vis))
    if op == "eq":
        return ("b", vis == dict(_pairs(cmd["other"])))
    if op == "ne":
        return ("b", vis != dict(_pairs(cmd["other"])))
    if op == "popitem":
        if not plain:
            return ("err", "NotImplementedError")
        if not vis:
            return ("err", "KeyError")
        last = list(vis)[-1]
        r = ("dict", {last: vis[last]})
        del vis[last]
        return r
    raise AssertionError(op)


def _result_matches(exp, got):
    """exp from Ref.do, got from Real.do"""
    kind, raw = got
    if exp is None:
        return kind == "ok" and raw is None
    if exp[0] == "err":
        return kind == "err" and raw == exp[1]
    if kind != "ok" or raw is None:
        return False
    tag, val = raw
    if exp[0] == "v":
        return tag == "v" and type(val) is type(exp[1]) and val == exp[1]
    if exp[0] == "b":
        return tag == "b" and val is exp[1]
    if exp[0] == "dict":
        return tag == "items" and len(val) == len(dict(val)) and dict(val) == exp[1]
    if exp[0] == "keys":
        return tag == "keys" and sorted(val) == exp[1]
    if exp[0] == "vals":
        return tag == "vals" and sorted(map(repr, val)) == exp[1]
    return False


def check_case(case, max_unknown=1):
    """The oracle: run the real code next to the reference overlay of the property text.  Every
    deviation from it is a failure.  Next to it runs the reference corrected for the recorded open
    findings; where the real code follows that one, checking goes on against it (so the rest of the
    history is still checked), and the failure records carry what `classify` needs."""
    real = Real(case)
    ref = Ref(case)
    corr = Ref(case, KNOWN_DEFECTS)
    fails = []
    reported = set()      # (clause, view) already reported as following the corrected reference
    unknown = [0]

    def read_all(step, op_view):
        for v in ref.views():
            exp = ref.visible(v)
            for held, view in real.view_objects(v):
                items = list(view.items())
                got = dict(items)
                base = exp
                if not _same_mapping(exp, got) or len(items) != len(got):
                    alt = corr.visible(v)
                    known = _same_mapping(alt, got) and len(items) == len(got)
                    leak = op_view is not None and not ref.inherits(v, op_view)
                    clause = "no-upward-leak" if leak else "read-is-overlay"
                    probe = set(exp) | set(got)
                    bad = sorted((k for k in probe if (k in exp) != (k in got) or (k in exp and (
                        exp[k] != got[k] or type(exp[k]) is not type(got[k])))), key=repr)
                    if not (known and (clause, tuple(v), held) in reported):
                        fails.append({"clause": clause, "step": step, "view": v, "keys": bad, "held_object": held,
                                      "expected": _canon_items(sorted(exp.items(), key=repr)),
                                      "observed": _canon_items(items)})
                    if known:
                        reported.add((clause, tuple(v), held))
                        base = alt           # go on checking this view against the corrected reference
                    else:
                        unknown[0] += 1
                        continue
                # the other read methods must tell the same story as items()
                probe = set(base) | {"<absent>"}
                incoherent = []
                if [k for k, _ in items] != list(view.keys()) or [x for _, x in items] != list(view.values()):
                    incoherent.append("keys()/values() differ from items()")
                for k in probe:
                    if (k in view) != (k in base):
                        incoherent.append("%r in view" % (k,))
                    if view.get(k, TOMB) != base.get(k, TOMB):
                        incoherent.append("get(%r)" % (k,))
                    try:
                        x = view[k]
                        if k not in base or x != base[k]:
                            incoherent.append("[%r]" % (k,))
                    except KeyError:
                        if k in base:
                            incoherent.append("[%r] raised" % (k,))
                if not (view == base) or (view != base) or bool(view) != bool(base) or view.copy() != base:
                    incoherent.append("==/!=/bool/copy")
                if incoherent:
                    unknown[0] += 1
                    fails.append({"clause": "dict-semantics-read", "step": step, "view": v, "keys": [],
                                  "expected": _canon_items(sorted(base.items(), key=repr)), "observed": incoherent[:6]})

    lazy = bool(case.get("lazy"))
    if not lazy:
        read_all(-1, None)
    for step, cmd in enumerate(case["cmds"]):
        if unknown[0] >= max_unknown:
            break
        exp = ref.do(cmd)
        alt = corr.do(cmd)
        got = real.do(cmd)
        if cmd["t"] != "op" and got[0] == "err":
            # a derivation / instantiation the documentation allows was refused: the rest of the history
            # cannot be run
            fails.append({"clause": "constructor-accepts-documented-call", "step": step, "view": None, "keys": [],
                          "expected": "a new class / instance", "observed": got[1]})
            return fails
        if not _result_matches(exp, got):
            known = _result_matches(alt, got)
            if not known:
                unknown[0] += 1
            fails.append({"clause": "dict-semantics-result", "step": step, "view": cmd.get("view"),
                          "keys": [cmd.get("k")], "expected": repr(exp), "observed": repr(got)})
        if not lazy:
            read_all(step, cmd["view"] if cmd["t"] == "op" else None)
    if lazy and unknown[0] < max_unknown:
        read_all(len(case["cmds"]) - 1, None)
    return fails


def classify_failure(case, failure):
    """The class predicate of the open findings: the failure is exactly what the recorded defect
    predicts — the reference with that one defect switched on shows, for the disputed view at the
    failing step, the mapping that was observed (or returns the result that was observed).  Tried for
    each defect alone, then for all of them together (histories in which two of them interact)."""
    clause = failure.get("clause")
    step = failure.get("step")
    view = failure.get("view")
    if clause not in ("read-is-overlay", "no-upward-leak", "dict-semantics-result") or step is None or not view:
        return None
    if not (-1 <= step < len(case["cmds"])):
        return None
    if clause == "dict-semantics-result":
        real = Real(case)
        got = None
        for c in case["cmds"][:step + 1]:
            got = real.do(c)
    else:
        try:
            observed = {k: v for k, v in failure.get("observed")}
            if len(observed) != len(failure.get("observed")):
                return None
        except (TypeError, ValueError):
            return None

    def predicts(defects):
        r = Ref(case, defects)
        out = None
        for c in case["cmds"][:step + 1]:
            out = r.do(c)
        if clause == "dict-semantics-result":
            return _result_matches(out, got)
        if view not in r.views():
            return False
        return _same_mapping(r.visible(view), observed)

    if predicts(()):
        return None                      # not a deviation from the property text at all
    for d in KNOWN_DEFECTS:
        if predicts((d,)):
            return "KF-C17-" + d
    if predicts(KNOWN_DEFECTS):
        # an interaction: file it under the first defect that matters for this view
        for d in KNOWN_DEFECTS:
            if not predicts(tuple(x for x in KNOWN_DEFECTS if x != d)):
                return "KF-C17-" + d
    return None


# ---------------------------------------------------------------- generator

def _rand_val(rng):
    r = rng.random()
    if r < 0.15:
        return None
    if r < 0.7:
        return rng.randint(-3, 9)
    return rng.choice(["x", "", "значение", "v\U0001F600", "deleted"])


def _rand_key(rng, nkeys):
    return rng.choice(KEYS[:nkeys])


def _rand_pairs(rng, nkeys, lo=0, hi=3):
    return [[_rand_key(rng, nkeys), _rand_val(rng)] for _ in range(rng.randint(lo, hi))]


class _Shape:
    """what the generator knows about the hierarchy built so far"""

    def __init__(self, root, init=()):
        self.mro = [[0]]
        self.fresh = [True]
        self.insts = []          # class id, or None when detached
        self.has_desc = [root == "using"]   # class has a Properties object of its own in __dict__
        self.init = [[list(p) for p in init]]   # the mapping that Properties object was constructed with

    def add(self, tail, fresh, init=None):
        self.mro.append([len(self.mro)] + list(tail))
        self.fresh.append(fresh)
        self.has_desc.append(fresh)
        self.init.append([list(p) for p in (init or [])])


def _rand_op(rng, view, nkeys, allow_root_write):
    w = rng.random() < 0.62
    op = rng.choice(WRITE_OPS if w else READ_OPS)
    cmd = {"t": "op", "view": view, "op": op}
    if op in ("getitem", "setitem", "delitem", "pop", "setdefault", "get", "contains"):
        cmd["k"] = _rand_key(rng, nkeys)
    if op == "setitem":
        cmd["v"] = _rand_val(rng)
    if op in ("pop", "setdefault", "get"):
        cmd["dflt"] = [] if rng.random() < 0.4 else [_rand_val(rng)]
    if op == "update":
        cmd["pairs"] = _rand_pairs(rng, nkeys, 0, 4)
        cmd["form"] = rng.choice(["pairs", "dict", "kw", "split"])
    if op in ("eq", "ne"):
        cmd["other"] = _rand_pairs(rng, nkeys, 0, 3)
    return cmd


def gen_case(rng, tier, max_cmds=40, shared=0.0, mi=0.0):
    nkeys = rng.choice([1, 2, 3, 4, 4, 6, 10])
    root = rng.choice(["using", "using", "named"])
    case = {"rtype": rng.choice(RTYPES), "root": root,
            "init": _rand_pairs(rng, nkeys, 0, 3) if root == "using" else [], "cmds": []}
    sh = _Shape(root, case["init"])
    cmds = case["cmds"]
    # a hierarchy of depth >= 3 with siblings, >= 2 instances per (some) class
    depth = rng.randint(3, 5)
    cur = 0
    for _ in range(depth - 1):
        cmds.append(_struct_cmd(rng, sh, cur, nkeys, shared))
        cur = len(sh.mro) - 1
    for _ in range(rng.randint(1, 3)):          # siblings / cousins
        cmds.append(_struct_cmd(rng, sh, rng.randrange(len(sh.mro)), nkeys, shared))
    for _ in range(rng.randint(2, 5)):
        c = rng.choice([cur, cur, rng.randrange(len(sh.mro))])
        for _ in range(2 if rng.random() < 0.6 else 1):
            cmds.append({"t": "new", "c": c})
            sh.insts.append(c)
    # the caller fetches some views once and keeps the objects: reads through them now (before most classes have
    # been written through for the first time), more commands through the same objects later
    hold_p = rng.choice([0.0, 0.15, 0.3, 0.5])
    if hold_p:
        for _ in range(rng.randint(1, 3)):
            view = ["i", rng.randrange(len(sh.insts))] if sh.insts and rng.random() < 0.4 \
                else ["c", rng.randrange(len(sh.mro))]
            cmds.append({"t": "op", "view": view, "op": rng.choice(["items", "bool", "keys", "copy"]), "held": True})
    n_ops = rng.randint(3, max(3, max_cmds - len(cmds)))
    for _ in range(n_ops):
        r = rng.random()
        if r < 0.06 and len(sh.mro) < 12:
            if rng.random() < mi and len(sh.mro) >= 3:
                m = _mi_cmd(rng, sh)
                if m:
                    cmds.append(m)
                    continue
            cmds.append(_struct_cmd(rng, sh, rng.randrange(len(sh.mro)), nkeys, shared))
        elif r < 0.10 and len(sh.insts) < 10:
            c = rng.randrange(len(sh.mro))
            if rng.random() < 0.3:
                if case["rtype"] == "DateYYYYMMDD":
                    m = _rand_pairs(rng, nkeys, 0, 3)
                    cmds.append({"t": "new_with_compound", "c": c, "m": m})
                    sh.add(sh.mro[c], True, m)
                    c = len(sh.mro) - 1
                else:
                    cmds.append({"t": "new_with", "c": c, "m": _rand_pairs(rng, nkeys, 0, 3)})
            else:
                cmds.append({"t": "new", "c": c})
            sh.insts.append(c)
        elif r < 0.13 and sh.insts:
            cmds.append({"t": "assign", "i": rng.randrange(len(sh.insts)), "m": _rand_pairs(rng, nkeys, 0, 3)})
        else:
            if sh.insts and rng.random() < 0.45:
                view = ["i", rng.randrange(len(sh.insts))]
            else:
                view = ["c", rng.randrange(len(sh.mro))]
            op = _rand_op(rng, view, nkeys, True)
            if rng.random() < hold_p:
                op["held"] = True
            cmds.append(op)
    return case


def _struct_cmd(rng, sh, p, nkeys, shared):
    r = rng.random()
    if r < 0.45:
        sh.add(sh.mro[p], False)
        return {"t": "subclass", "p": p,
                "via": rng.choice(["named", "using_name", "using_optional", "class_stmt", "validated_by"])}
    if r < 0.70:
        sh.add(sh.mro[p], False)
        pairs = _rand_pairs(rng, nkeys, 0, 3)
        return {"t": "with_props", "p": p, "pairs": pairs, "split": rng.randint(0, len(pairs)),
                "form": rng.choice(["list", "list", "mapping", "iter", "none"])}
    owners = [i for i, f in enumerate(sh.has_desc) if f]
    if rng.random() < shared and owners:
        owner = rng.choice(owners)
        sh.add(sh.mro[p], True, sh.init[owner])
        return {"t": "using_shared", "p": p, "owner": owner, "init": [list(x) for x in sh.init[owner]]}
    init = _rand_pairs(rng, nkeys, 0, 3)
    sh.add(sh.mro[p], True, init)
    return {"t": "using_props", "p": p, "init": init, "wrap": rng.random() < 0.3}


def _mi_cmd(rng, sh):
    for _ in range(6):
        bases = rng.sample(range(len(sh.mro)), rng.choice([2, 2, 3]) if len(sh.mro) >= 3 else 2)
        tail = c3_merge([sh.mro[b] for b in bases] + [bases])
        if tail is not None:
            sh.add(tail, False)
            return {"t": "mi", "bases": bases, "mro": tail}
    return None


# fixed hierarchy for the exhaustive sub-space: R(0) <- A(1) <- B(2); A2(3) sibling of A; i0, i1 of B
_EXH_PREFIX = [{"t": "subclass", "p": 0, "via": "named"}, {"t": "subclass", "p": 1, "via": "using_name"},
               {"t": "subclass", "p": 0, "via": "class_stmt"}, {"t": "new", "c": 2}, {"t": "new", "c": 2}]
_EXH_VIEWS = [["c", 0], ["c", 1], ["c", 2], ["c", 3], ["i", 0], ["i", 1]]


def _exh_alphabet():
    ops = [{"op": "setitem", "k": "k", "v": 1}, {"op": "delitem", "k": "k"}, {"op": "pop", "k": "k", "dflt": []},
           {"op": "setdefault", "k": "k", "dflt": [2]}, {"op": "clear"}, {"op": "update", "pairs": [["k", 3]], "form": "kw"}]
    out = []
    for v in _EXH_VIEWS:
        for o in ops:
            d = {"t": "op", "view": v}
            d.update(o)
            out.append(d)
    return out


# ---------------------------------------------------------------- the property

class C17(Property):
    id = "C17"
    title = "properties is a layered mapping: inherited downward, never leaking upward"
    proof_module = "Proofs.C17"
    theorems = ["Flatland.C17.Proofs." + t for t in (
        "no_upward_leak", "step_untouched", "no_upward_leak_history",
        "read_is_overlay_class", "read_is_overlay_inst",
        "overlay_applyOp", "dict_semantics_class", "dict_semantics_inst",
        "dict_result_class", "iter_result_class", "dict_result_inst", "iter_result_inst", "itemsOf_iItems",
        "iWrite_nodup",
        "sees_ancestor", "write_visible_below", "write_visible_below_inst",
        "detached", "detached_history",
        "WF_step", "NoShared_step", "inv_run",
        "C17_full_fails", "shared_object_shares_nothing", "histGuard_accepts_shared", "C17_full_fails_mi",
        "read_is_overlay_fails_mi",
        "refine_step", "Inv_step", "refine_run", "read_is_overlay_all",
        "c17_histories_from", "c17_histories_partial", "c17_results_partial",
        "histGuard_rejects_witnesses", "witnesses_trip_own_guard",
    )] + ["Flatland.C17.Frames.Proofs." + t for t in (
        # the frame MECHANISM of properties.py (lean/Flatland/C17Frames.lean) against model A
        "pull_frames", "pull_state", "read_cutF", "pwalk_sim", "Sim_mat", "Sim_pull", "Sim_init",
        "classRead_refines", "lazy_is_unobservable_reads",
        "pull_inv", "baseFrame_inv", "writeRef_inv", "writeBase_inv",
        "baseFrame_alias_breaks", "aliasInitial_fails",
        # k1: the full step / history refinement (Proofs/C17FramesWrite, -Inst, -Step, -Hist)
        "Ref_init", "Ref_pull", "writeBase_eq", "baseVal_sim", "Sim_setBase", "writeBase_refines",
        "clear_refines", "tWrite_refines", "classWrite_refines", "classOp_refines",
        "iread_cutF", "iWrite_refines", "instOp_refines", "instRead_refines", "instWrite_refines",
        "Ref_extend", "Ref_addClass", "Ref_usingProps", "Ref_usingShared", "Ref_addInst",
        "frames_step_refines", "frames_run_refines", "frames_run_refines_init",
        "refGuard_of_histGuard", "getitem_visible", "frames_histories_partial", "frames_results_partial",
        "step_read_state", "run_insert_reads", "lazy_is_unobservable", "frameHist_guard",
        # p1: guard invariance under inserted reads (no method call touches what refGuard looks at)
        "sharedInit_store", "store_pull", "store_op", "read_step_store", "store_fstep",
        "refGuard_insert_reads_from", "refGuard_insert_reads", "lazy_is_unobservable_two_guards",
    )]
    extra_proof_modules = ["Proofs.C17Frames", "Proofs.C17FramesWrite", "Proofs.C17FramesInst",
                           "Proofs.C17FramesStep", "Proofs.C17FramesHist"]
    level_text = "proof (partial: sentence 1 over histories is refuted in full and proved for all histories outside the three open findings)"
    level_note = ("PROVED for every store/history of the model: non-interference (no_upward_leak, step_untouched, "
                  "no_upward_leak_history), reading = overlay of the frames of the chain (read_is_overlay_*, read_is_overlay_all), "
                  "dict semantics of every method through class AND instance views — state change (dict_semantics_*), "
                  "order-free results (dict_result_*), iterating reads (iter_result_*) —, downward visibility, detachment.  "
                  "REFUTED: C17_Full (every history reads as the layered store of the property text) — three negation "
                  "witnesses = KF-C17-a/b/c.  PROVED in guarded form: c17_histories_partial (= C17_Partial: C17_Full under the "
                  "decidable guard histGuard, evaluated command by command in the state the command runs in: CmdOK (an MRO "
                  "tail lists no class twice), NoSharing (KF-C17-b), not badClear (KF-C17-a), miGuard (KF-C17-c: the class a "
                  "class X(b1, b2, …) statement creates resolves properties coherently along its chain)) — after every such "
                  "history every view, existing or not, reads exactly as the layered reference after the same history; by the "
                  "one-step refinement refine_step: abs (step σ c) = Spec.step (abs σ) c under the invariant Inv (WF, NoShared, "
                  "AllCoherent; Inv_step), lifted by refine_run.  c17_results_partial: after every guarded history the next "
                  "method call through any class / attached-instance view returns what a dict holding the reference mapping "
                  "returns.  histGuard_rejects_witnesses / witnesses_trip_own_guard: each of the three negation witnesses is "
                  "rejected by its own guard component only.  The run-time check stepAgrees of Run/C17.lean is now redundant "
                  "with refine_step (kept as a cross-check of the compiled model).  "
                  "FRAME MECHANISM (C17Frames.lean: Properties.map filled lazily — _frames as a generator pulled by its "
                  "consumer, _base_frame, initial_set as a cell, slots vs Properties objects): PROVED — the read path refines "
                  "model A: classRead_refines (every read-only method through a class view, computed over exactly the frames "
                  "its consumer pulls, returns model A's result, and the simulation relation Sim to the SAME model-A state "
                  "survives the materialisation it may perform; pull_frames, pull_state, read_cutF, pwalk_sim, Sim_mat), "
                  "lazy_is_unobservable_reads (any sequence of such reads in any order), Sim_init; invariants NoAlias / "
                  "InitialImmutable kept by read path, _base_frame and the frame mutation (pull_inv, baseFrame_inv, "
                  "writeRef_inv, writeBase_inv); the aliasing counter-model (seeded C17-base-frame-alias-initial) breaks the "
                  "invariant and the correspondence on a concrete history (baseFrame_alias_breaks, aliasInitial_fails).  "
                  "PROVED (k1) — the FULL step and history refinement of the mechanism model, relation Ref = Sim + Inv (model A) "
                  "+ FInv (no aliasing, map mentions only existing classes/objects, slots ↦ objects in range): classWrite_refines "
                  "(every write method through a class view: _base_frame materialising a copy of initial_set / {} in closed "
                  "form writeBase_eq, Sim_setBase, clear_refines for the order _base_frame → keys() → tombstones), "
                  "classOp_refines, instOp_refines = instRead_refines + instWrite_refines (attached instances: local first, "
                  "the class lookup pulled only as far as needed — iread_cutF —, writes into local incl. the clear() quirk "
                  "KF-C17-a common to both models; detached: plain dict), the creating commands (Ref_addClass, Ref_usingProps, "
                  "Ref_usingShared: a new SLOT for the SAME object = model A's fresh descriptor as long as the case's init "
                  "annotation is the object's initial_set cell, Ref_addInst), frames_step_refines (one command: same result, "
                  "Ref again; hypotheses CmdOK, miGuard, sharedInit — NOT badClear), frames_run_refines(_init) over histories "
                  "under refGuard; corollaries lazy_is_unobservable (read-only calls through any view inserted anywhere change "
                  "no other result, both final mechanism states refine the same model-A state), frames_histories_partial / "
                  "frames_results_partial (under histGuard + sharedHist every view[k] / every method result of the MECHANISM "
                  "model equals the layered reference: composition with c17_histories_partial / c17_results_partial); "
                  "non-vacuity: frameHist (18 commands: owner frame materialised by a write, a sibling handed the same "
                  "Properties object, instance reads before/after, with_properties, detached instance), quirkHist, markedHist.  "
                  "Since round p1 lazy_is_unobservable takes the guard of the history WITHOUT the inserted reads only "
                  "(read_step_store: a read step leaves classes / ndesc / objs / initial unchanged; refGuard_insert_reads); MI classes mixing descriptors are outside (miGuard), as for model "
                  "A.  The runner still executes the mechanism model next to model A on every case (spec_agrees) "
                  "and its materialised-frame set after every command is compared with the keys of the real Properties.map")
    technique = "Lean 4 model + invariants + refinement to a layered-store specification; differential testing against /repo"
    trusted_base = [
        "Python's class machinery (type(), __mro__, attribute lookup of data descriptors, instance __dict__) is the "
        "modelled boundary: the model takes the MRO of a class as given and resolves `cls.properties` to the first "
        "class of the MRO that has a Properties object in its __dict__",
        "WeakKeyDictionary: the harness keeps every class alive, so no frame is dropped; `setdefault(cls, initial_set)` "
        "is modelled as 'the frame of an owning class IS the initial_set dict' in model A; the mechanism model "
        "(C17Frames.lean) has the map, its lazy filling and the copy of initial_set explicitly",
        "a detached instance's mapping is a CPython dict (modelled with dict semantics, not proved against C)",
    ]
    assumptions = [
        "mechanism model: the set of classes that have a frame in Properties.map is read from the real objects (internal "
        "state; descriptor found in the class __dict__s along the MRO, `cls in descriptor.map`) ONLY for the comparison of "
        "the materialisation order; the oracle stays on public behaviour.  With root='named' class 0 stands for Element "
        "(the owner) in the models and is left out of that comparison",
        "keys are str, values None/int/str (no key/value whose == or hash is user-defined; the Deleted symbol is never stored by the caller)",
        "`Cls.properties = x` (rebinding the class attribute by hand) is not an operation of the property",
        "a Properties object handed to several classes (using_shared) is modelled as one descriptor per class with the "
        "same initial mapping; this differs from the code only where a multiple-inheritance class mixes such classes "
        "(the MRO walk compares descriptor identity): histories containing both using_shared and mi are checked by the "
        "oracle (whose reference keeps the identity) and not by the Lean model",
        "a mapping assigned to an instance (T(properties=d), el.properties = d) is stored BY REFERENCE: two instances "
        "given the same dict object alias each other (documented behaviour of a wholesale assignment); model and harness "
        "always pass a fresh dict, so this aliasing is neither generated nor modelled",
        "a view object held by the caller is dropped when its instance is wholesale-assigned (it belongs to the replaced mapping)",
    ]
    rule = ("histories of <= 40 commands over a hierarchy of depth 3-5 built with named/using/validated_by/class "
            "statements/with_properties/using(properties=…), 1-3 extra siblings, 2-10 instances (pairs of instances of "
            "one class), then random interleavings of all 6 mutating and 11 reading methods through class and instance "
            "views, further derivations, instantiations (plain and properties=… override) and wholesale assignments; keys "
            "in 3 of 4 histories the caller also HOLDS view objects (fetched once, before most classes were first written "
            "through) and 15-50% of the later commands and all snapshots go through the held objects; keys from an alphabet of 1-10 (so collisions and re-use of deleted keys are the norm); after every command every "
            "view is read with items() and compared with the Lean model (order included) and with the reference overlay "
            "(plus get/in/[]/==/!=/bool/copy/keys/values coherence); after every command (before the observer reads) "
            "the set of classes with a materialised frame in Properties.map is compared with the mechanism model's; non-trivial = at least 3 mutating ops of 2 kinds "
            "through 2 views and a tombstone somewhere; distinct = distinct canonical case JSON")
    exhaustive_note = ("every history of length <= 2 (quick) / <= 3 (thorough) over 6 mutating ops x 6 views "
                       "(R <- A <- B, sibling A2, two instances of B), one key")
    quick_n = 6000
    thorough_n = 60000
    case_timeout = 20

    def corpus(self):
        base = {"rtype": "String", "root": "using", "init": [["k", 1]]}
        pre = [{"t": "subclass", "p": 0, "via": "named"}, {"t": "new", "c": 1}, {"t": "new", "c": 1}]
        out = []
        # fixed ee86233: instance pop of an inherited key used to tombstone the class frame
        out.append(dict(base, cmds=pre + [{"t": "op", "view": ["i", 0], "op": "pop", "k": "k", "dflt": []}]))
        # fixed f6834ef: setdefault through a subclass view overrode an inherited value …
        out.append(dict(base, cmds=pre + [{"t": "op", "view": ["c", 1], "op": "setdefault", "k": "k", "dflt": ["D"]}]))
        # … and on a deleted key both lookups returned the tombstone
        out.append(dict(base, cmds=pre + [{"t": "op", "view": ["c", 1], "op": "delitem", "k": "k"},
                                          {"t": "op", "view": ["c", 1], "op": "setdefault", "k": "k", "dflt": ["D"]},
                                          {"t": "op", "view": ["i", 0], "op": "delitem", "k": "k"},
                                          {"t": "op", "view": ["i", 0], "op": "setdefault", "k": "k", "dflt": []},
                                          {"t": "op", "view": ["i", 1], "op": "delitem", "k": "k"},
                                          {"t": "op", "view": ["i", 1], "op": "pop", "k": "k", "dflt": []}]))
        # KF-C17-a witness: instance clear() forgets the instance's own deletion of a key the class lacks
        out.append({"rtype": "String", "root": "using", "init": [], "cmds": [
            {"t": "new", "c": 0},
            {"t": "op", "view": ["i", 0], "op": "setitem", "k": "a", "v": 1},
            {"t": "op", "view": ["i", 0], "op": "delitem", "k": "a"},
            {"t": "op", "view": ["i", 0], "op": "clear"},
            {"t": "op", "view": ["c", 0], "op": "setitem", "k": "a", "v": 2}]})
        # fixed 936c1b4 (former KF-C17-b): one Properties object given to two classes shares nothing; the second
        # class starts from the object's initial mapping, not from what the first class wrote or deleted since
        out.append({"rtype": "String", "root": "using", "init": [["s", 1]], "cmds": [
            {"t": "op", "view": ["c", 0], "op": "setitem", "k": "w", "v": 9},
            {"t": "op", "view": ["c", 0], "op": "delitem", "k": "s"},
            {"t": "using_shared", "p": 0, "owner": 0, "init": [["s", 1]]},
            {"t": "op", "view": ["c", 1], "op": "setitem", "k": "t", "v": 2},
            {"t": "using_shared", "p": 1, "owner": 1, "init": [["s", 1]]}]})
        # KF-C17-c witness: class X(A, B) where B's line restarts with using(properties=…) and A's does not
        out.append({"rtype": "String", "root": "using", "init": [], "cmds": [
            {"t": "subclass", "p": 0, "via": "named"},
            {"t": "using_props", "p": 0, "init": [], "wrap": False},
            {"t": "op", "view": ["c", 1], "op": "setitem", "k": "b", "v": 1},
            {"t": "mi", "bases": [1, 2], "mro": [1, 2, 0]}]})
        # fix 6f9ffeb: with_properties takes the documented iterable of pairs / a mapping / no positional argument
        out.append({"rtype": "String", "root": "using", "init": [["k", 1]], "cmds": [
            {"t": "with_props", "p": 0, "pairs": [["a", 1], ["b", 2]], "split": 2, "form": "list"},
            {"t": "with_props", "p": 1, "pairs": [["a", 3], ["c", 4]], "split": 1, "form": "mapping"},
            {"t": "with_props", "p": 2, "pairs": [["d", 5]], "split": 0, "form": "none"},
            {"t": "with_props", "p": 0, "pairs": [["e", 6], ["e", 7], ["f", 8]], "split": 3, "form": "iter"}]})
        # seeded mutation C17 base-frame-alias-initial: the owner's frame is created by a WRITE (nothing read it
        # before), then the same Properties object is handed to a second class, which is read only at the end
        out.append({"rtype": "String", "root": "using", "init": [["s", 1]], "lazy": True, "cmds": [
            {"t": "op", "view": ["c", 0], "op": "setitem", "k": "w", "v": 9},
            {"t": "op", "view": ["c", 0], "op": "delitem", "k": "s"},
            {"t": "using_shared", "p": 0, "owner": 0, "init": [["s", 1]]},
            {"t": "new", "c": 1},
            {"t": "using_props", "p": 0, "init": [["q", 2]], "wrap": True},
            {"t": "op", "view": ["c", 2], "op": "clear"},
            {"t": "using_shared", "p": 2, "owner": 2, "init": [["q", 2]]}]})
        # seeded mutation C17 view-frame-chain-cache: a held view object of the lowest class (and of an instance)
        # is read, then an intermediate class that was never written gets its first write / deletion
        out.append({"rtype": "String", "root": "using", "init": [["k", 1]], "cmds": [
            {"t": "subclass", "p": 0, "via": "named"}, {"t": "subclass", "p": 1, "via": "class_stmt"},
            {"t": "new", "c": 2},
            {"t": "op", "view": ["c", 2], "op": "items", "held": True},
            {"t": "op", "view": ["i", 0], "op": "items", "held": True},
            {"t": "op", "view": ["c", 1], "op": "setitem", "k": "m", "v": 2},
            {"t": "op", "view": ["c", 2], "op": "getitem", "k": "m", "held": True},
            {"t": "op", "view": ["c", 1], "op": "delitem", "k": "k"},
            {"t": "op", "view": ["i", 0], "op": "contains", "k": "k", "held": True}]})
        return out

    def exhaustive(self, tier):
        alpha = _exh_alphabet()
        base = {"rtype": "String", "root": "using", "init": [["k", 0]]}
        depth = 3 if tier == "thorough" else 2
        for n in range(1, depth + 1):
            for combo in itertools.product(alpha, repeat=n):
                yield dict(base, cmds=_EXH_PREFIX + [dict(c) for c in combo])
        # the same histories with every view fetched once beforehand and held: all later snapshots read through
        # the held objects (length <= 2 in both tiers)
        hold_all = [{"t": "op", "view": v, "op": "items", "held": True} for v in _EXH_VIEWS]
        for n in range(1, 3):
            for combo in itertools.product(alpha, repeat=n):
                yield dict(base, cmds=_EXH_PREFIX + hold_all + [dict(c) for c in combo])

    def generate(self, rng, n, tier):
        for i in range(n):
            c = self._gen_one(rng, tier)
            # "lazy" histories: nothing is read but what the commands read, plus one snapshot at the end, so that
            # class frames are first touched by whatever the history does first (a write, a deletion, a read
            # through a subclass) instead of by the observer
            if rng.random() < (0.5 if any(x["t"] == "using_shared" for x in c["cmds"]) else 0.25):
                c["lazy"] = True
            yield c

    def _gen_one(self, rng, tier):
        r = rng.random()
        if r < 0.06:
            return gen_case(rng, tier, shared=0.5)          # one Properties object given to several classes
        elif r < 0.10:
            return gen_case(rng, tier, shared=0.5, mi=0.6)  # … also below multiple-inheritance classes
        elif r < 0.2:
            return gen_case(rng, tier, mi=0.6)
        elif r < 0.3:
            return gen_case(rng, tier, max_cmds=14)
        return gen_case(rng, tier)

    def run_impl(self, case):
        if case.get("lazy"):
            # nothing is read except what the commands themselves read, and one snapshot at the very end: the
            # eager snapshot after every command materialises every class frame through the READ path, which
            # hides what happens when a frame is first created by a WRITE (seeded C17-base-frame-alias-initial)
            real = Real(case)
            results = []
            mats = []
            for cmd in case["cmds"]:
                res = real.do(cmd)
                results.append(_canon_result(res))
                mats.append(real.materialised())
                if cmd["t"] != "op" and res[0] == "err":
                    return {"_lazy": True, "results": results, "mats": mats, "final": None}
            return {"_lazy": True, "results": results, "mats": mats, "final": real.snapshot()}
        real = Real(case)
        snap = real.snapshot()
        start = snap
        steps = []
        for cmd in case["cmds"]:
            res = real.do(cmd)
            mat = real.materialised()        # after the command, BEFORE the observer reads every view
            if cmd["t"] != "op" and res[0] == "err":
                steps.append({"r": _canon_result(res), "d": [], "m": mat})
                break                    # the store the later commands refer to was not built
            new = real.snapshot()
            old = {tuple(v): items for v, items in snap}
            delta = [[v, items] for v, items in new if tuple(v) not in old or old[tuple(v)] != items]
            steps.append({"r": _canon_result(res), "d": delta, "m": mat})
            snap = new
        return {"start": start, "steps": steps}

    def compare(self, impl_obs, model_obs):
        if not impl_obs.get("_lazy"):
            return Property.compare(self, impl_obs, model_obs)
        if isinstance(model_obs, dict) and "driver_error" in model_obs:
            return "driver_error: %s" % model_obs["driver_error"]
        # the model reports the start snapshot and per-step deltas; fold them into results + the final snapshot
        from harness.core import canon
        steps = model_obs.get("steps", [])
        results = [s_["r"] for s_ in steps]
        if canon(results) != canon(impl_obs["results"]):
            return "lazy results: impl=%s model=%s" % (canon(impl_obs["results"])[:300], canon(results)[:300])
        # materialisation order: after every command, the classes that have a frame in `Properties.map`
        mats = [s_.get("m") for s_ in steps][:len(impl_obs["mats"])]
        if canon(mats) != canon(impl_obs["mats"]):
            at = [i for i, (a, b) in enumerate(zip(impl_obs["mats"], mats)) if a != b]
            return "lazy materialised frames differ at steps %s: impl=%s model=%s" % (
                at[:5], canon(impl_obs["mats"])[:300], canon(mats)[:300])
        if impl_obs["final"] is not None:
            cur = {}
            order = []
            for v, items in model_obs.get("start", []):
                cur[tuple(v)] = items
                order.append(tuple(v))
            for s_ in steps:
                for v, items in s_["d"]:
                    if tuple(v) not in cur:
                        order.append(tuple(v))
                    cur[tuple(v)] = items
            final = {tuple(v): items for v, items in impl_obs["final"]}
            if set(final) != set(cur):
                return "lazy final: views differ impl=%s model=%s" % (sorted(final), sorted(cur))
            for v in final:
                if canon(final[v]) != canon(cur[v]):
                    return "lazy final view %r: impl=%s model=%s" % (v, canon(final[v])[:300], canon(cur[v])[:300])
        if model_obs.get("spec_agrees") is False:
            return "model A and spec B disagree inside Lean (spec_agrees=false)"
        return None

    def oracle(self, case):
        return check_case(case)

    def classify(self, case, failure):
        return classify_failure(case, failure)

    def has_model(self, case):
        # The model gives every class that is handed a Properties object a descriptor of its own (equivalent
        # since 936c1b4, where the object's mapping is copied per class) — except that the MRO walk of a
        # multiple-inheritance class still compares descriptor IDENTITY; histories that contain both are
        # checked by the oracle (whose reference keeps the identity) only.
        ts = {c["t"] for c in case["cmds"]}
        return not ("using_shared" in ts and "mi" in ts)

    def nontrivial(self, case, obs):
        ops = [c for c in case["cmds"] if c["t"] == "op" and c["op"] in WRITE_OPS]
        if len(ops) < 3 or len({c["op"] for c in ops}) < 2 or len({tuple(c["view"]) for c in ops}) < 2:
            return False
        return any(c["op"] in ("delitem", "pop", "clear") for c in ops)

    def tags(self, case, obs):
        cmds = case["cmds"]
        t = ["cmds=%d" % (len(cmds) // 10 * 10), "root=%s" % case["root"]]
        g = hist_guard(case)
        t.append("histGuard=%s" % ("holds" if g is None else "fails:" + g))
        t.append("observer=%s" % ("lazy" if case.get("lazy") else "eager"))
        ncls = 1 + sum(1 for c in cmds if c["t"] in CLASS_CMDS)
        ninst = sum(1 for c in cmds if c["t"] in INST_CMDS)
        t += ["classes=%d" % ncls, "instances=%d" % ninst]
        # materialisation of class frames as observed on the real objects (compared with the mechanism model)
        mats = obs.get("mats") if obs.get("_lazy") else [s.get("m", []) for s in obs.get("steps", [])]
        prev = []
        for cmd, m in zip(cmds, mats or []):
            new = [x for x in m if x not in prev]
            if new and cmd["t"] == "op":
                kind = "write" if cmd["op"] in WRITE_OPS else "read"
                for x in new:
                    t.append("frame-materialised-by=%s%s" % (kind, "" if cmd["view"] == ["c", x] else "-through-other-view"))
            if cmd["t"] == "op" and cmd["op"] in READ_OPS and cmd["op"] != "popitem" and not new \
                    and len(m) < ncls:
                t.append("read-materialised-nothing")
            prev = m
        for c in cmds:
            if c["t"] == "op":
                t.append("op=%s@%s" % (c["op"], c["view"][0]))
                if c.get("held"):
                    t.append("held-view@%s" % c["view"][0])
            else:
                t.append("cmd=%s" % c["t"])
        for s in obs.get("steps", []):
            r = s["r"]
            if isinstance(r, dict) and "err" in r:
                t.append("err=%s" % r["err"])
        changed = [len(s["d"]) for s in obs.get("steps", [])]
        if changed:
            t.append("max-views-changed=%d" % max(changed))
        return sorted(set(t))

    def shrink_candidates(self, case):
        for c in self._shrink_candidates(case):
            if _shared_inits_consistent(c):
                yield c

    def _shrink_candidates(self, case):
        cmds = case["cmds"]
        # drop one op / leaf structural command (only commands nothing later refers to)
        for i in range(len(cmds) - 1, -1, -1):
            c = _drop_cmd(case, i)
            if c is not None:
                yield c
        for i, cmd in enumerate(cmds):
            if cmd.get("held"):
                c = copy.deepcopy(case)
                del c["cmds"][i]["held"]
                yield c
        if case["init"]:
            for i in range(len(case["init"])):
                c = copy.deepcopy(case)
                del c["init"][i]
                yield c
        for i, cmd in enumerate(cmds):
            for key in ("pairs", "other", "init", "m"):
                if cmd.get(key):
                    for j in range(len(cmd[key])):
                        c = copy.deepcopy(case)
                        del c["cmds"][i][key][j]
                        if key == "pairs" and "split" in c["cmds"][i]:
                            c["cmds"][i]["split"] = min(c["cmds"][i]["split"], len(c["cmds"][i][key]))
                        yield c
        if case["rtype"] != "String":
            yield dict(copy.deepcopy(case), rtype="String")
        if case.get("lazy"):
            c = copy.deepcopy(case)
            del c["lazy"]
            yield c


def _shared_inits_consistent(case):
    """a using_shared command names the initial mapping of the Properties object held by its owner: a shrunk
    case must not break that"""
    inits = [[list(p) for p in case["init"]]]
    for cmd in case["cmds"]:
        t = cmd["t"]
        if t == "using_props":
            inits.append([list(p) for p in cmd["init"]])
        elif t == "new_with_compound":
            inits.append([list(p) for p in cmd["m"]])
        elif t == "using_shared":
            if cmd["owner"] >= len(inits) or inits[cmd["owner"]] is None or \
                    [list(p) for p in cmd["init"]] != inits[cmd["owner"]]:
                return False
            inits.append([list(p) for p in cmd["init"]])
        elif t in CLASS_CMDS:
            inits.append(None)
    return True


def hist_guard(case):
    """`histGuard` of Proofs/C17.lean, recomputed on the reference that follows the code (defects on): None if
    every command passes `cmdGuard`, else which component fails first — "badClear" (an instance clear() while the
    instance holds a key its class does not show, KF-C17-a) or "mi" (a class statement whose chain mixes
    Properties objects, KF-C17-c)"""
    r = Ref(case, KNOWN_DEFECTS)
    for cmd in case["cmds"]:
        if cmd["t"] == "op" and cmd["op"] == "clear" and cmd["view"][0] == "i":
            inst = r.insts[cmd["view"][1]]
            if "detached" not in inst:
                shown = r.class_visible(inst["cls"])
                if any(k not in shown for k in inst["layer"]):
                    return "badClear"
        r.do(cmd)
        if cmd["t"] == "mi":
            c = len(r.classes) - 1
            if any(r.resolve(x) != r.resolve(c) for x in r.cut(c)):
                return "mi"
    return None


def _owner_class(ref, view):
    """the class whose own descriptor a view resolves to (the fresh start of its chain)"""
    kind, n = view
    c = n if kind == "c" else ref.insts[n]["cls"]
    return ref.chain(c)[-1]


def _drop_cmd(case, i):
    """the case without command i, renumbering later references; None if something refers to it"""
    cmds = case["cmds"]
    cmd = cmds[i]
    new = copy.deepcopy(case)
    if cmd["t"] == "op" or cmd["t"] == "assign":
        del new["cmds"][i]
        return new
    if cmd["t"] in INST_CMDS:
        iid = sum(1 for c in cmds[:i] if c["t"] in INST_CMDS)
        out = []
        for j, c in enumerate(new["cmds"]):
            if j == i:
                continue
            if c["t"] == "op" and c["view"][0] == "i":
                if c["view"][1] == iid:
                    return None
                if c["view"][1] > iid:
                    c["view"] = ["i", c["view"][1] - 1]
            if c["t"] == "assign":
                if c["i"] == iid:
                    return None
                if c["i"] > iid:
                    c["i"] -= 1
            out.append(c)
        new["cmds"] = out
        return new
    # class-creating command
    cid = 1 + sum(1 for c in cmds[:i] if c["t"] in CLASS_CMDS)

    def fix(n):
        if n == cid:
            raise KeyError
        return n - 1 if n > cid else n
    out = []
    try:
        for j, c in enumerate(new["cmds"]):
            if j == i:
                continue
            if c["t"] == "op" and c["view"][0] == "c":
                c["view"] = ["c", fix(c["view"][1])]
            for key in ("p", "c", "owner"):
                if key in c and c["t"] != "op":
                    c[key] = fix(c[key])
            if c["t"] == "mi":
                c["bases"] = [fix(b) for b in c["bases"]]
                c["mro"] = [fix(b) for b in c["mro"]]
            out.append(c)
    except KeyError:
        return None
    new["cmds"] = out
    return new


PROP = C17()
