"""C12 — a rendered form, submitted unchanged, posts the element's own flat pairs."""
import copy
import html
import re

from harness.core import Property, CaseTimeout
from harness.props import markup_common as mc
from harness.props.markup_common import S, B, I

VOIDS = ["area", "base", "br", "col", "embed", "hr", "img", "input", "link", "meta", "param", "source", "track", "wbr"]
NAMES = ["a", "b", "c", "x_y", "_", "a_", "_b", "0", "1", "é", "n m", 'q"<', "f", "name", "a__b", "İ", "l", "d", "-", "x.y:z"]
TEXTS = ["", "x", "hello", "a b", " padded ", "1", "0", "on", "q r", 'say "hi" <b>&amp;', "éK", "\n\tx", "p", "A-b_c:d.e", "%s",
         " x ", "v1", "a  b", "\nx", "N/A", "-- none --"]
CHECK_TYPES_MIXED = ["CHECKBOX", "Radio", "Checkbox", "RADIO"]
SECRET_MIXED = ["Password", "FILE"]
TEXTLIKE = ["text", "hidden", "submit", "", "email", "TEXT", "search", "tel"]
SECRET = ["password", "file", "image"]
ID_INVALID = re.compile(r"[^A-Za-z0-9_:.\-]")


# ------------------------------------------------------------------ trees (case description)

SAFE_NAMES = ["a", "b", "c", "é", "n m", 'q"<', "f", "name", "İ", "l", "d", "-", "x.y:z", "a1"]


def _rand_leaf(rng, name, form_mode=False):
    r = rng.random()
    if r < 0.6:
        return {"t": "leaf", "name": name, "py": "str", "u": rng.choice(TEXTS) if rng.random() < 0.8 else mc.hostile(rng, 6)}
    if r < 0.72:
        return {"t": "leaf", "name": name, "py": "int", "u": rng.choice(["0", "12", "-3", "zz", ""])}
    if r < 0.86:
        tru = rng.choice(["1", "1", "yes", "T"])
        return {"t": "bool", "name": name, "true": tru, "u": rng.choice([tru, ""] if form_mode else [tru, "", "zzz"])}
    return _rand_array(rng, name)


JOINED_MEMBERS = ["a", "b", "x", "hello", "q r", "1", "on", "p", 'q"<', "é"]


def _rand_array(rng, name, flavour=None):
    """Array of String; flavours: plain Array, MultiValue (scalar-like u = first member), JoinedString (an Array
    subclass that is ONE flattenable leaf whose text is the members joined by ',')"""
    flavour = flavour or rng.choice(["array", "array", "array", "multi", "joined"])
    if flavour == "joined":
        ms = [rng.choice(JOINED_MEMBERS) for _ in range(rng.randint(0, 3))]
        return {"t": "array", "flavour": "joined", "name": name, "strip": True, "members": ms}
    if rng.random() < 0.3:
        # a TYPED member schema (Integer / Float): members that adapted (their text is the serialised native) next to
        # members that did not (value None, the raw text kept) -- the usual redisplay of a form with bad input
        member = rng.choice(["int", "int", "float"])
        return {"t": "array", "flavour": flavour, "name": name, "strip": False, "member": member,
                "members": _typed_members(rng, member)}
    strip = rng.random() < 0.5
    ms = []
    for _ in range(rng.randint(0, 3)):
        m = rng.choice(TEXTS)
        ms.append(m.strip() if strip else m)
    return {"t": "array", "flavour": flavour, "name": name, "strip": strip, "members": ms}


TYPED_BAD = ["abc", "zz", "", " ", "1.5x", "7x", "N/A", "--", "x y", "é", "1,5", "0x"]
TYPED_INTS = [7, 12, -3, 0, 100, 5]
TYPED_FLOATS = [7.0, -0.5, 0.0, 12.25, 3.0]


def typed_norm(member, lit):
    """REFERENCE (not the library): the text a typed member schema keeps for an input text -- surrounding whitespace
    dropped, read with Python's int() / float(), written with '%i' / '%f' (docs: Integer / Float `format`); an input
    that cannot be read is kept as it is (the element's value is then None)"""
    try:
        n = int(lit.strip()) if member == "int" else float(lit.strip())
    except ValueError:
        return lit
    return ("%i" if member == "int" else "%f") % n


def _typed_members(rng, member):
    ms = []
    for _ in range(rng.randint(0, 4)):
        if rng.random() < 0.45:
            ms.append(rng.choice(TYPED_BAD))
        else:
            ms.append(typed_norm(member, str(rng.choice(TYPED_INTS if member == "int" else TYPED_FLOATS))))
    if ms and rng.random() < 0.6 and all(_typed_adapts(member, m) for m in ms):
        ms[rng.randrange(len(ms))] = rng.choice(TYPED_BAD)       # mostly at least one member that did not adapt
    return ms


def _typed_adapts(member, lit):
    try:
        int(lit.strip()) if member == "int" else float(lit.strip())
        return True
    except ValueError:
        return False


def _typed_literals(rng, node):
    """literal sets for a control group bound to a typed Array: (a) the members' texts, (b) other literals that cannot be
    read either, (c) '' and whitespace, (d) readable literals equal / unequal to a member BY VALUE but spelled differently
    ('07' / ' 7' / '+7' / '7.0' vs 7), readable non-members"""
    member = node["member"]
    lits = list(dict.fromkeys(node["members"]))
    lits += rng.sample(TYPED_BAD, 2) + ["", rng.choice([" ", "  ", "\t"])]
    for m in node["members"]:
        if _typed_adapts(member, m) and rng.random() < 0.7:
            n = int(m) if member == "int" else float(m)
            lits.append(rng.choice(["0%s" % m if not m.startswith("-") else "-0%s" % m[1:], " %s" % m, "%s " % m,
                                    "+%s" % m if not m.startswith("-") else m, ("%s" % n), ("%g" % n), "%i" % int(n)]))
    lits += [rng.choice(["9", "09", "9.0", "9.000000", "-1"])]
    lits = list(dict.fromkeys(lits))
    rng.shuffle(lits)
    return lits[:8]


def shown_of(node):
    """`.u` of an Array-like element bound as a whole (an input of the model)"""
    fl = node.get("flavour", "array")
    if fl == "joined":
        return ",".join(node["members"])
    if fl == "multi":
        return (node["members"][0] or "") if node["members"] else ""
    return mc.array_u(node["members"])


def _rand_tree(rng, depth, name, form_mode=False):
    pool = SAFE_NAMES if form_mode else NAMES
    if depth <= 0 or rng.random() < 0.35:
        return _rand_leaf(rng, name, form_mode)
    if rng.random() < 0.55:
        names = rng.sample(pool, rng.randint(1, 3))
        return {"t": "dict", "name": name, "fields": [_rand_tree(rng, depth - 1, n, form_mode) for n in names]}
    member_name = rng.choice([None, None, rng.choice(pool)])
    template = _rand_tree(rng, depth - 1, member_name, form_mode)
    members = [_revalue(rng, template, form_mode) for _ in range(rng.randint(0, 3))]
    return {"t": "list", "name": name, "members": members, "template": template}


def _revalue(rng, t, form_mode=False):
    """same shape, fresh leaf values (List members share one member schema)"""
    t = copy.deepcopy(t)

    def go(n):
        if n["t"] == "leaf":
            if n.get("py") == "str":
                n["u"] = rng.choice(TEXTS) if rng.random() < 0.8 else mc.hostile(rng, 6)
            else:
                n["u"] = rng.choice(["0", "12", "-3", "zz", ""])
        elif n["t"] == "bool":
            n["u"] = rng.choice([n["true"], ""] if form_mode else [n["true"], "", "zzz"])
        elif n["t"] == "array":
            if n.get("member", "str") != "str":
                n["members"] = _typed_members(rng, n["member"])
            else:
                n["members"] = _rand_array(rng, None, n.get("flavour", "array"))["members"] if n.get("flavour") == "joined" else [
                    (m.strip() if n["strip"] else m) for m in [rng.choice(TEXTS) for _ in range(rng.randint(0, 3))]]
        elif n["t"] == "dict":
            for f in n["fields"]:
                go(f)
        else:
            n["members"] = [_revalue(rng, n["template"], form_mode) for _ in range(rng.randint(0, 2))]
    go(t)
    return t


def leaves(t, sel=()):
    """(selector, node) of every bindable leaf: scalars, booleans, arrays (as a whole)"""
    if t["t"] in ("leaf", "bool", "array"):
        yield list(sel), t
    elif t["t"] == "dict":
        for i, f in enumerate(t["fields"]):
            yield from leaves(f, sel + (i,))
    else:
        for i, m in enumerate(t["members"]):
            yield from leaves(m, sel + (i,))


def strip_templates(t):
    """keep the member template of every list (the member schema is built from it), normalised the same way"""
    t = dict(t)
    if "template" in t:
        t["template"] = strip_templates(t["template"])
    if t["t"] == "dict":
        t["fields"] = [strip_templates(f) for f in t["fields"]]
    elif t["t"] == "list":
        t["members"] = [strip_templates(m) for m in t["members"]]
    return t


# ------------------------------------------------------------------ real elements

def schema_of(t, template=None):
    import flatland as fl
    k = t["t"]
    if k == "leaf":
        cls = fl.Integer if t.get("py") == "int" else fl.String.using(strip=False)
    elif k == "bool":
        cls = fl.Boolean.using(true=t["true"])
    elif k == "array":
        flavour = t.get("flavour", "array")
        if flavour == "joined":
            cls = fl.JoinedString
        else:
            member = {"int": fl.Integer, "float": fl.Float}.get(t.get("member", "str")) or fl.String.using(strip=t["strip"])
            cls = (fl.MultiValue if flavour == "multi" else fl.Array).of(member)
    elif k == "dict":
        cls = fl.Dict.of(*[schema_of(f) for f in t["fields"]])
    else:
        member = t.get("template") or (t["members"][0] if t["members"] else {"t": "leaf", "name": None, "py": "str", "u": ""})
        cls = fl.List.of(schema_of(member))
    return cls.named(t["name"])


def value_of(t):
    k = t["t"]
    if k in ("leaf", "bool"):
        return t["u"]
    if k == "array":
        return list(t["members"])
    if k == "dict":
        return {f["name"]: value_of(f) for f in t["fields"]}
    return [value_of(m) for m in t["members"]]


def navigate(root, t, sel):
    el, node = root, t
    for i in sel:
        if node["t"] == "dict":
            node = node["fields"][i]
            el = el[node["name"]]
        elif node["t"] == "list":
            node = node["members"][i]
            el = el[i]
        elif node["t"] == "array":
            el = el[i]
            node = {"t": "leaf", "name": None, "u": node["members"][i] or "", "member_of": node.get("flavour", "array")}
        else:
            raise IndexError("selector descends below a leaf")
    return el, node


def build(case):
    tree = case["tree"]
    root = schema_of(tree)()
    root.set(value_of(tree))
    return root


def array_shown(tree, renders):
    """display text of the Array a render binds as a whole (never posted; the model takes it as given)"""
    return ""


# ------------------------------------------------------------------ browser rule (Python, independent of Lean)

_ASCII_WS = " \t\n\x0c\r"


def collapse_ws(s):
    """WHATWG 'strip and collapse ASCII whitespace' (what an <option> without value= posts from its text)"""
    out = []
    pending = False
    for c in s:
        if c in _ASCII_WS:
            pending = bool(out)
        else:
            if pending:
                out.append(" ")
            pending = False
            out.append(c)
    return "".join(out)


def ascii_lower(s):
    """ASCII case-insensitivity of HTML enumerated attributes (NOT str.lower(): U+212A KELVIN SIGN stays)"""
    return "".join(chr(ord(c) + 32) if "A" <= c <= "Z" else c for c in s)


INPUT_NEVER_POSTS = ("reset", "button", "file", "image")     # their value= is never what a browser posts
BUTTON_NEVER_POSTS = ("reset", "button")


def is_submitter(el):
    """posts its pair only when it is the control activated to submit the form: <button> (type submit, the default)
    and <input type=submit>"""
    a = {}
    for k, v in el["attrs"]:
        a.setdefault(k, v if v is not None else "")
    if el["tag"] == "button":
        return ascii_lower(a.get("type", "submit")) not in BUTTON_NEVER_POSTS
    return el["tag"] == "input" and ascii_lower(a.get("type", "text")) == "submit"


def posted_of(el, select_name=None):
    """the successful-control rule.  For a submitter: what it posts WHEN IT IS THE ACTIVATED ONE (a submission has at
    most one; see the form-level clauses)."""
    a = {}
    for k, v in el["attrs"]:
        a.setdefault(k, v if v is not None else "")
    tag = el["tag"]
    if tag == "option":
        if select_name and "selected" in a:
            return [select_name, a["value"] if "value" in a else collapse_ws(el["text"])]
        return None
    name = a.get("name")
    if not name:
        return None
    if tag == "input":
        ty = ascii_lower(a.get("type", "text"))
        if ty in ("checkbox", "radio"):
            return [name, a.get("value", "on")] if "checked" in a else None
        if ty in INPUT_NEVER_POSTS:
            return None
        return [name, a.get("value", "")]
    if tag == "textarea":
        # the HTML parser drops one newline right after the start tag (html.parser does not)
        text = el["text"]
        return [name, text[1:] if text.startswith("\n") else text]
    if tag == "button":
        if ascii_lower(a.get("type", "submit")) in BUTTON_NEVER_POSTS:
            return None
        return [name, a.get("value", "")]
    return None


# ------------------------------------------------------------------ pre-history: generator calls BEFORE the renderings
# A case may carry "pre": a list of generator calls made (each caught) on the SAME generator before the first rendering:
#   {"op": "begin" | "set", "settings": [[k, v], ...]}      gen.begin(**kw) / gen.set(**kw)
#   {"op": "update", "pos": None | [[k, v], ...], "settings": [[k, v], ...]}     gen.update({pos}, **kw)
#   {"op": "setitem", "key": k, "value": v}                 gen[k] = v
#   {"op": "end"}                                           gen.end()
#   {"op": "tag", "sel": ..., "tag": ..., "kwargs": ..., "how": ..., "handle": ..., "badbind": bool}    a tag call meant to raise
# The case stores NO expectation: which calls are rejected is decided by the reference below (oracle side), and,
# separately, by the Lean model of Context / Generator (Flatland.C19.step in Run/C12.lean).

PRE_KNOWN = {"auto_name", "auto_value", "auto_domid", "auto_for", "auto_tabindex", "auto_filter", "tabindex", "domid_format",
             "ordered_attributes", "markup_wrapper", "filters"}            # docs/source/markup.rst: the settings
PRE_YES = {"1", "true", "t", "on", "yes"}
PRE_NO = {"0", "false", "nil", "off", "no"}
PRE_DEFAULT = {"auto_name": True, "auto_value": True, "auto_domid": False, "auto_for": False}
PRE_UNKNOWN = ["no_such", "auto_nmae", "auto_vlaue", "domid_fromat", "autoname", "Auto_name", "auto_name ", "name", "markup", "",
               "auto", "tab_index", "ordered"]
PRE_OFF = [B(False), B(False), S("off"), S("no"), S("0"), S("False"), S("NIL")]
PRE_ON = [B(True), S("on"), S("yes"), S("auto"), mc.MAYBE, S("whatever")]


def pre_settings_of(op):
    if op["op"] == "setitem":
        return [[op["key"], op["value"]]]
    return list(op.get("pos") or []) + list(op.get("settings") or [])


class SettingsRef:
    """The generator settings in force, kept by the ORACLE (the idea of harness/props/c19.py run_reference, restated):
    a stack of levels, innermost first; a call naming an unknown option is rejected as a whole (KeyError; TypeError
    from set()), set() also rejects an option value that is neither a bool, Maybe nor text (AttributeError), an end()
    without an open begin() is a RuntimeError -- and a rejected call changes NOTHING.  Never reads the library."""

    def __init__(self, settings):
        self.levels = [dict((k, v) for k, v in settings)]

    def expect(self, op):
        """-> (exception class name or None, kind of rejection or None); applies the call when it is accepted"""
        kind = op["op"]
        if kind == "end":
            if len(self.levels) == 1:
                return "RuntimeError", "end:unbalanced"
            self.levels.pop(0)
            return None, None
        if kind == "tag":
            if op.get("how", "call") != "call" and op["tag"] in VOIDS:
                return "ValueError", "tag:void-open"
            if op.get("badbind"):
                return "AttributeError", "tag:badbind"
            return "AttributeError", "tag:nontext-attr"
        pairs = pre_settings_of(op)
        keys = [k for k, _ in pairs]
        bad = [i for i, k in enumerate(keys) if k not in PRE_KNOWN]
        if kind == "set":
            # in call order: the first offending pair decides the exception
            for i, (k, v) in enumerate(pairs):
                if k not in PRE_KNOWN:
                    return "TypeError", "unknown:set:%s" % _position(i, len(pairs))
                if k.startswith("auto_") and v["t"] not in ("b", "s", "m", "maybe"):
                    return "AttributeError", "toggle:set:%s" % _position(i, len(pairs))
        elif bad:
            i = bad[0]
            if kind == "update" and op.get("pos") is not None:
                part = "pos" if i < len(op["pos"]) else "kw"
                where = "%s-part:%s" % (part, _position(i, len(pairs)))
            else:
                where = _position(i, len(pairs))
            return "KeyError", "unknown:%s:%s" % (kind, where)
        if kind == "begin":
            self.levels.insert(0, {})
        for k, v in pairs:
            self.levels[0][k] = v
        return None, None

    def lookup(self, key):
        for lv in self.levels:
            if key in lv:
                return lv[key]
        return None

    def live(self, key):
        """is the option on for a control that does not say otherwise?  (on / off / auto = the documented default)"""
        v = self.lookup(key)
        if v is None:
            return PRE_DEFAULT[key]
        if v["t"] == "b":
            return bool(v["v"])
        if v["t"] in ("s", "m"):
            low = v["v"].lower()
            if low in PRE_YES:
                return True
            if low in PRE_NO:
                return False
        return PRE_DEFAULT[key]


def _position(i, n):
    if n == 1:
        return "only"
    return "first" if i == 0 else ("last" if i == n - 1 else "middle")


def reference_of(case):
    """replay the pre-history on the reference: (ref, [(expected error, rejection kind)] per call, number accepted)"""
    ref = SettingsRef(case["settings"])
    outcome = [ref.expect(op) for op in case.get("pre") or []]
    return ref, outcome, sum(1 for e, _ in outcome if e is None)


def apply_pre(gen, pool, root, case, op):
    """one pre-history call on the real generator, caught: exception class name or None"""
    try:
        kind = op["op"]
        if kind == "begin":
            gen.begin(**mc.kwargs_of(op["settings"]))
        elif kind == "end":
            gen.end()
        elif kind == "set":
            gen.set(**mc.kwargs_of(op["settings"]))
        elif kind == "setitem":
            gen[op["key"]] = mc.to_py(op["value"])
        elif kind == "update":
            if op.get("pos") is not None:
                gen.update(mc.kwargs_of(op["pos"]), **mc.kwargs_of(op["settings"]))
            else:
                gen.update(**mc.kwargs_of(op["settings"]))
        elif kind == "tag":
            if op.get("badbind"):
                el = "not an element"
            else:
                el = navigate(root, case["tree"], op["sel"])[0] if op.get("sel") is not None else None
            pool.render(dict(op, via="prop" if op["tag"] in mc.PROP_TAGS else "tag"), el, mc.kwargs_of(op["kwargs"]))
        else:
            raise ValueError(kind)
    except AssertionError:
        raise
    except CaseTimeout:
        raise
    except Exception as e:  # noqa
        return type(e).__name__
    return None


PRE_NEUTRAL = [("auto_domid", [B(True), S("on"), B(False), S("auto")]), ("auto_for", [B(True), S("on"), B(False)]),
               ("domid_format", [S("id_%s"), S("%s"), S("f_%s")]), ("ordered_attributes", [B(True), B(False)]),
               ("auto_filter", [B(False), S("off")])]


def _pre_valid_pairs(rng, n, harmful):
    """n valid (known key, value) pairs with distinct keys.  harmful: mostly the ones that would switch off what C12 is
    about if they were applied (auto_name / auto_value off, another domid_format)"""
    out, used = [], set()
    for _ in range(n):
        if rng.random() < (0.75 if harmful else 0.25):
            k = rng.choice(["auto_name", "auto_value"])
            v = rng.choice(PRE_OFF) if harmful or rng.random() < 0.5 else rng.choice(PRE_ON)
        else:
            k, vs = rng.choice(PRE_NEUTRAL)
            v = rng.choice(vs)
        if k in used:
            continue
        used.add(k)
        out.append([k, v])
    return out


def _pre_rejected_settings(rng):
    """a settings call with an unknown option among valid ones (every position; update: positional mapping and keywords
    mixed), or set() with an option value it rejects"""
    kind = rng.choice(["update", "update", "update", "begin", "set", "setitem"])
    if kind == "setitem":
        return {"op": "setitem", "key": rng.choice(PRE_UNKNOWN), "value": rng.choice(PRE_OFF)}
    valid = _pre_valid_pairs(rng, rng.choice([0, 1, 1, 2, 2, 3]), True)
    if kind == "set" and rng.random() < 0.4:
        # an option value set() cannot read (parse_trool of an int): rejected before anything is applied
        bad = [rng.choice(["auto_name", "auto_value", "auto_domid", "auto_for"]), I(rng.choice([0, 1, 7]))]
        valid = [p for p in valid if p[0] != bad[0]]
    else:
        bad = [rng.choice(PRE_UNKNOWN), rng.choice(PRE_OFF + [S("x%s"), I(1)])]
    at = rng.randint(0, len(valid))
    pairs = valid[:at] + [bad] + valid[at:]
    if kind == "update" and rng.random() < 0.5:
        cut = rng.randint(0, len(pairs))
        return {"op": "update", "pos": pairs[:cut], "settings": pairs[cut:]}
    if kind == "update":
        return {"op": "update", "pos": None, "settings": pairs}
    return {"op": kind, "settings": pairs}


def _pre_accepted_settings(rng, depth):
    kind = rng.choice(["begin", "begin", "set", "update", "setitem"] + (["end", "end"] if depth else []))
    if kind == "end":
        return {"op": "end"}
    pairs = _pre_valid_pairs(rng, rng.choice([0, 1, 1, 2]), False)
    if kind == "setitem":
        k, v = (pairs or [["auto_domid", B(True)]])[0]
        return {"op": "setitem", "key": k, "value": v}
    if kind == "update":
        if rng.random() < 0.5:
            return {"op": "update", "pos": None, "settings": pairs}
        cut = rng.randint(0, len(pairs))
        return {"op": "update", "pos": pairs[:cut], "settings": pairs[cut:]}
    return {"op": kind, "settings": pairs}


def _pre_failing_tag(rng, case):
    """a tag call that raises midway: a non-text attribute value (the transforms have run, the attributes are being
    written: AttributeError), a bind that is not an element, open() of a void element -- on a fresh Tag, on the Tag
    object a later rendering holds, or through open() (which leaves the Tag on the generator's open-tag stack)"""
    lv = list(leaves(case["tree"]))
    held = [r for r in case["renders"] if r.get("handle") is not None and r["tag"] in NONVOID]
    r = rng.random()
    scalars = [sel for sel, node in lv if node["t"] == "leaf"] or [None]
    if r < 0.15:
        sel = rng.choice(scalars)
        return {"op": "tag", "sel": sel, "tag": "input", "kwargs": [["type", S("text")]], "how": rng.choice(["open", "openclose"]),
                "handle": None, "badbind": False}
    if held and rng.random() < 0.6:
        h = rng.choice(held)
        tag, handle = h["tag"], h["handle"]
    else:
        tag, handle = rng.choice(["textarea", "textarea", "button", "select", "input", "input", "label", "option"]), None
    how = "call" if tag == "input" else rng.choice(["call", "open", "open", "openclose"])
    if r < 0.35:
        # (auto_name forced on: the first transform asks the bind for its flattened name)
        return {"op": "tag", "sel": None, "tag": tag, "kwargs": [["auto_name", S("on")]] + ([["type", S("text")]] if tag == "input" else []),
                "how": how, "handle": handle, "badbind": True}
    kw = [[rng.choice(["rows", "cols", "disabled", "size", "data-x"]), B(True)]]
    if tag == "input":
        kw.insert(rng.randint(0, 1), ["type", S(rng.choice(["text", "hidden"]))])
    return {"op": "tag", "sel": rng.choice(scalars), "tag": tag, "kwargs": kw, "how": how, "handle": handle, "badbind": False}


def _rand_pre(rng, case):
    n = rng.choice([1, 1, 2, 2, 3, 4, 5])
    ops, depth = [], 0
    for _ in range(n):
        r = rng.random()
        if r < 0.50:
            ops.append(_pre_rejected_settings(rng))
        elif r < 0.58:
            ops.append({"op": "end"})              # rejected when nothing is open (the reference decides)
            depth = max(0, depth - 1)
        elif r < 0.78:
            ops.append(_pre_failing_tag(rng, case))
        else:
            op = _pre_accepted_settings(rng, depth)
            depth += {"begin": 1, "end": -1}.get(op["op"], 0)
            ops.append(op)
    return ops


def render_all(case, pre_errs=None):
    """run the pre-history (every call caught) and then every render of the case on ONE real generator; returns
    (root, list of per-render dicts); the exception class of every pre-history call is appended to pre_errs"""
    from flatland.out.markup import Generator, Tag
    root = build(case)
    gen = Generator(case["markup"], **mc.kwargs_of(case["settings"]))
    pool = mc.TagPool(gen)
    for op in case.get("pre") or []:
        err = apply_pre(gen, pool, root, case, op)
        if pre_errs is not None:
            pre_errs.append(err)
    results = []
    names = []
    for r in case["renders"]:
        el = None
        if r["sel"] is not None:
            el, node = navigate(root, case["tree"], r["sel"])
            if node["t"] in ("leaf", "bool"):
                assert el.u == node["u"], "harness: leaf text differs from the case (%r vs %r)" % (el.u, node["u"])
            else:
                assert el.u == r.get("arr_shown"), "harness: array display text differs from the case"
        kwargs = mc.kwargs_of(r["kwargs"])
        res = {"el": el, "err": None, "out": None, "parsed": None, "posted": None}
        try:
            out, _ = pool.render(dict(r, via="prop" if r["tag"] in mc.PROP_TAGS else "tag"), el, kwargs)
            res["out"] = out
        except AssertionError:
            raise
        except CaseTimeout:
            raise
        except Exception as e:  # noqa
            res["err"] = type(e).__name__
            names.append(None)
            results.append(res)
            continue
        parsed = mc.single_element(mc.parse_events(res["out"]), VOIDS)
        res["parsed"] = parsed
        name_attr = None
        if parsed is not None:
            a = {}
            for k, v in parsed["attrs"]:
                a.setdefault(k, v if v is not None else "")
            name_attr = a.get("name")
            sel_name = None
            if r.get("within") is not None and r["within"] < len(names):
                sel_name = names[r["within"]]
            res["posted"] = posted_of(parsed, sel_name)
            res["submitter"] = is_submitter(parsed)
            res["id"] = a.get("id")
            res["for"] = a.get("for")
        names.append(name_attr)
        results.append(res)
    return root, results


# ------------------------------------------------------------------ generation of renders

def _decoys(rng, u):
    """literals that must NOT match u although they are close: other case, other Unicode normal form, padding"""
    import unicodedata
    out = [rng.choice(TEXTS), rng.choice(TEXTS)]
    if u:
        out += [x for x in (u.swapcase(), u.upper(), u.lower(), unicodedata.normalize("NFD", u), u + " ", " " + u)
                if x != u and rng.random() < 0.5]
    return out


def _control_for(rng, node, form_mode=False):
    """renders (tag, kwargs, role, extra) for one bound leaf"""
    out = []
    k = node["t"]
    r = rng.random()
    if k == "array" and node.get("flavour") == "joined":
        # ONE flattenable leaf (an Array subclass): its flat pair is (name, members joined by ',')
        if form_mode or r < 0.4:
            return [("input", [["type", S(rng.choice(["text", "hidden"]))]], "value", {})]
        lits = list(dict.fromkeys([shown_of(node)] + list(node["members"]) + [rng.choice(TEXTS)]))
        if r < 0.75:
            ty = rng.choice(["checkbox", "radio"])
            return [("input", [["type", S(ty)], ["value", S(l)]], "check", {"lit": l}) for l in lits]
        return [("select", [], "select", {})] + [("option", [["value", S(l)]], "option", {"lit": l}) for l in lits]
    if k == "array":
        if form_mode:
            lits = [(m if m is not None else "") for m in node["members"]]     # one checkbox per member occurrence
        elif node.get("member", "str") != "str":
            lits = _typed_literals(rng, node)
        else:
            lits = list(dict.fromkeys((m if m is not None else "") for m in node["members"]))
            lits.append(rng.choice(TEXTS))
            for m in node["members"]:
                if m and m.swapcase() not in node["members"] and rng.random() < 0.4:
                    lits.append(m.swapcase())          # a literal differing from a member only in case
        if rng.random() < 0.3:
            # <select multiple> bound to the Array, one option per literal
            out.append(("select", [["multiple", S("multiple")]], "select", {}))
            if not form_mode and rng.random() < 0.5:
                # the usual placeholder: explicit empty value, non-empty body
                out.append(("option", [["value", S("")], ["contents", S(rng.choice(["-- none --", "N/A", "L"]))]], "option", {"lit": ""}))
            for lit in lits:
                kw = [["value", S(lit)]]
                if not form_mode and rng.random() < 0.4:
                    kw.append(["contents", S(html.escape(rng.choice([lit, "label", "L", ""]), quote=False))])
                out.append(("option", kw, "option", {"lit": lit}))
            return out
        ty = "checkbox" if form_mode or rng.random() < 0.7 else "radio"
        if not form_mode and rng.random() < 0.08:
            ty = rng.choice(CHECK_TYPES_MIXED)
        for lit in lits:
            out.append(("input", [["type", S(ty)], ["value", S(lit)]], "check", {"lit": lit}))
        return out
    if k == "bool" and (form_mode or r < 0.5):
        if form_mode or rng.random() < 0.6:
            return [("input", [["type", S("checkbox")]], "check", {"lit": None})]
        lit = rng.choice([node["true"], "other", ""])
        return [("input", [["type", S("checkbox")], ["value", S(lit)]], "check", {"lit": lit})]
    if r < 0.30:
        ty = rng.choice(TEXTLIKE)
        kw = [["type", S(ty)]] if ty or rng.random() < 0.5 else []
        return [("input", kw, "value", {})]
    if r < 0.40 and not (form_mode and node["u"].startswith("\n")):
        # (form mode: a text starting with a newline is KF-C12-f, witnessed by the single-control cases)
        return [("textarea", [], "value", {})]
    if r < 0.50:
        if not form_mode and rng.random() < 0.3:
            # an author type on the button: submit in any case / an unknown keyword (= submit) posts when pressed,
            # reset / button never post
            return [("button", [["type", S(rng.choice(["submit", "Submit", "reset", "RESET", "button", "menu", ""]))]], "value", {})]
        return [("button", [], "value", {})]
    if r < 0.65:
        # a radio group: the literal equal to u plus decoys
        lits = list(dict.fromkeys([node["u"]] + _decoys(rng, node["u"])))
        rng.shuffle(lits)
        ty = "radio" if form_mode or rng.random() < 0.9 else rng.choice(CHECK_TYPES_MIXED)
        return [("input", [["type", S(ty)], ["value", S(l)]], "check", {"lit": l}) for l in lits]
    if r < 0.80:
        # select + options (value= or contents=)
        lits = list(dict.fromkeys([node["u"]] + _decoys(rng, node["u"])))
        rng.shuffle(lits)
        res = [("select", [], "select", {})]
        if not form_mode and rng.random() < 0.4:
            # the usual placeholder / "none" choice: explicit empty value, non-empty body (sometimes the element's text)
            body = rng.choice([node["u"] or "-- none --", "-- none --", "N/A"])
            res.append(("option", [["value", S("")], ["contents", S(html.escape(body, quote=False))]], "option", {"lit": ""}))
        for l in lits:
            if form_mode or rng.random() < 0.45:
                res.append(("option", [["value", S(l)]], "option", {"lit": l}))
            elif rng.random() < 0.3:
                # value= and a body that says something else (or the element's text)
                body = rng.choice([node["u"], "label", l, ""])
                res.append(("option", [["value", S(l)], ["contents", S(html.escape(body, quote=False))]], "option", {"lit": l}))
            else:
                # the option's text: author markup, written the way an author writes text (escaped)
                pad = rng.choice(["", " ", "\n "])
                res.append(("option", [["contents", S(pad + html.escape(l, quote=False) + pad)]], "option",
                            {"lit": (pad + l + pad).strip(), "from_contents": True}))
        return res
    if form_mode:
        return [("input", [["type", S("text")]], "value", {})]
    if r < 0.84:
        # a radio / checkbox without any value attribute (outside "their literal value matches": correspondence only)
        return [("input", [["type", S(rng.choice(["radio", "checkbox"]))]], "check", {"lit": None})]
    if r < 0.88:
        # a control whose name is overridden by the author: only the label pairing is checked
        return [("input", [["type", S("text")], ["name", S(rng.choice(["other", "x y", ""]))]], "named", {})]
    if r < 0.93:
        return [("input", [["type", S(rng.choice(SECRET + SECRET_MIXED + ["reset", "button", "Reset"]))]] + ([["auto_value", rng.choice([B(True), S("on")])]] if rng.random() < 0.4 else []),
                 "value", {})]
    return [("input", [["type", S("checkbox")], ["value", S(node["u"] if rng.random() < 0.5 else rng.choice(TEXTS))]], "check", None)]


def _mk_renders(rng, tree, form_mode):
    renders = []
    lv = list(leaves(tree))
    if not lv:
        return renders
    chosen = lv if form_mode else [rng.choice(lv) for _ in range(rng.choice([1, 1, 2, 3]))]
    for sel, node in chosen:
        if node["t"] == "array" and not form_mode and node["members"] and rng.random() < 0.3:
            i = rng.randrange(len(node["members"]))
            sel = sel + [i]
            node = {"t": "leaf", "name": None, "u": node["members"][i] or ""}
        group = _control_for(rng, node, form_mode)
        select_index = None
        for tag, kw, role, extra in group:
            if extra is None:
                extra = {"lit": kw[-1][1]["v"]}
            kw = [list(x) for x in kw]
            # state the author already put on the tag and the transform must OVERRIDE: a stale checked= / selected=
            # (the control must come out unchecked when the literal does not match), a stale value= under a forced auto_value
            if role == "check" and rng.random() < 0.25:
                kw.insert(rng.randint(0, len(kw)), ["checked", S(rng.choice(["checked", "checked", ""]))])
            elif role == "option" and rng.random() < 0.25:
                kw.insert(rng.randint(0, len(kw)), ["selected", S(rng.choice(["selected", "selected", ""]))])
            elif role == "value" and tag in ("input", "button") and not form_mode and rng.random() < 0.1 \
                    and not any(k in ("value", "auto_value") for k, _ in kw):
                kw.insert(rng.randint(0, len(kw)), ["value", S(rng.choice(["stale", "", "0"]))])
                kw.append(["auto_value", rng.choice([B(True), S("on")])])
            entry = {"sel": sel, "tag": tag, "kwargs": kw, "role": role, "within": None, "form": form_mode}
            entry.update(extra)
            if role == "select":
                select_index = len(renders)
            if role == "option":
                entry["within"] = select_index
            renders.append(entry)
            # a label paired with the control (same bind, same literal value)
            if role in ("value", "check", "named") and not form_mode and rng.random() < 0.5:
                lkw = []
                if role == "check" and entry.get("lit") is not None:
                    lkw.append(["value", S(entry["lit"])])
                elif role == "check" and node["t"] == "bool" and str(dict((k, v.get("v")) for k, v in kw).get("type")).lower() == "checkbox":
                    # the label is given the value the control renders (bind.true)
                    lkw.append(["value", S(node["true"])])
                renders.append({"sel": sel, "tag": "label", "kwargs": lkw, "role": "label", "within": None, "form": False,
                                "pair": len(renders) - 1})
    return renders


NONVOID = ("textarea", "button", "select", "option", "label")


def _hold_tags(rng, renders):
    """render through HELD Tag objects: one object per tag name for the whole case (ta = gen.textarea; ta(a); ta(b); ...),
    called or used as open() + .contents + close().  A Tag must not carry anything from one rendering to the next."""
    ids = {}
    for r in renders:
        if rng.random() < 0.85:
            r["handle"] = ids.setdefault(r["tag"], len(ids))
            if r["tag"] in NONVOID and rng.random() < 0.5:
                r["how"] = "openclose"
    return renders


def _held_sweep_case(rng):
    """a list of text fields, filled and empty ones mixed, every member rendered as a textarea (or button) through ONE
    held Tag object: the order filled-then-empty is where a body left over from the previous rendering would show"""
    n = rng.randint(2, 6)
    us = [rng.choice(["", "", rng.choice(TEXTS), mc.hostile(rng, 5)]) for _ in range(n)]
    if all(us) or not any(us):
        us[rng.randrange(n)] = "" if all(us) else "filled"
    member = rng.choice([None, "note"])
    leaf = lambda u: {"t": "leaf", "name": member, "py": "str", "u": u}
    tree = {"t": "dict", "name": rng.choice(["post", None]), "fields": [
        {"t": "list", "name": "notes", "members": [leaf(u) for u in us], "template": leaf("")}]}
    tag = rng.choice(["textarea", "textarea", "textarea", "button"])
    form_mode = rng.random() < 0.5 and not any(u.startswith("\n") for u in us)
    renders = []
    for i in range(n):
        r = {"sel": [0, i], "tag": tag, "kwargs": [], "role": "value", "within": None, "form": form_mode, "handle": 0,
             "how": rng.choice(["call", "openclose"])}
        if tag == "textarea" and rng.random() < 0.15:
            # an explicit body on one of them (author markup): the next one must not inherit it either
            r["kwargs"] = [["contents", S("explicit body")]]
            r["role"] = "named"
        renders.append(r)
    return {"markup": rng.choice(["xml", "xhtml", "html"]), "settings": [], "tree": tree, "renders": renders,
            "form_mode": form_mode and all(r["role"] == "value" for r in renders)}


def _rand_case(rng):
    if rng.random() < 0.06:
        return _held_sweep_case(rng)
    form_mode = rng.random() < 0.35
    root_name = rng.choice([None, "f", "form", rng.choice(SAFE_NAMES)] if form_mode else [None, "", "f", "form", rng.choice(NAMES)])
    tree = _rand_tree(rng, rng.choice([0, 1, 2, 2, 3]), root_name, form_mode)
    if form_mode and rng.random() < 0.85:
        # whole forms: mostly at least three bindable leaves
        for _ in range(8):
            if len(list(leaves(tree))) >= 3:
                break
            tree = _rand_tree(rng, rng.choice([2, 2, 3]), root_name, form_mode)
    if tree["t"] in ("leaf", "bool", "array") and (form_mode or rng.random() < 0.7):
        tree = {"t": "dict", "name": root_name, "fields": [dict(tree, name=rng.choice(SAFE_NAMES if form_mode else NAMES))]}
    settings = []
    if not form_mode:
        if rng.random() < 0.6:
            settings.append(["auto_domid", B(True)])
            settings.append(["auto_for", B(True)])
        if rng.random() < 0.2:
            settings.append(["domid_format", S(rng.choice(["%s", "id_%s", "f_%s_x"]))])
        if rng.random() < 0.1:
            settings.append(["ordered_attributes", B(False)])
        if rng.random() < 0.15:
            # a counter that runs across all renderings of the case (one generator)
            settings.append(["auto_tabindex", B(True)])
            settings.append(["tabindex", I(rng.choice([1, 5, 100]))])
    renders = _mk_renders(rng, tree, form_mode)
    if rng.random() < 0.3:
        renders = _hold_tags(rng, renders)
    return {"markup": rng.choice(["xml", "xhtml", "html"]), "settings": settings, "tree": strip_templates(tree),
            "renders": renders, "form_mode": form_mode}


def _fix_arr_shown(case):
    """the model takes the display text of a whole-Array bind as given: compute it the way Sequence.u does"""
    for r in case["renders"]:
        r["arr_shown"] = ""
        if r["sel"] is None:
            continue
        node = case["tree"]
        ok = True
        for i in r["sel"]:
            if node["t"] == "dict":
                node = node["fields"][i]
            elif node["t"] == "list":
                node = node["members"][i]
            else:
                ok = False
                break
        if ok and node["t"] == "array":
            r["arr_shown"] = shown_of(node)
            lit = dict((k, v) for k, v in r["kwargs"]).get("value")
            if node.get("member", "str") != "str" and lit is not None and lit.get("t") in ("s", "m"):
                # typed member schema: `literal in bind` asks for the literal AS THE MEMBER SCHEMA KEEPS IT.  That reading
                # (int()/float() + '%i'/'%f') is not modelled in Lean: the case hands it to the runner, computed by the
                # reference typed_norm (not by the library)
                r["norm"] = typed_norm(node["member"], lit["v"])
    return case



# ------------------------------------------------------------------ END TO END (lean/Proofs/EndToEnd.lean): posted pairs -> from_flat

def _e2e_has_joined(t):
    if t["t"] == "array":
        return t.get("flavour") == "joined"
    kids = t.get("fields", []) + (t.get("members", []) if t["t"] == "list" else []) + ([t["template"]] if t.get("template") else [])
    return any(_e2e_has_joined(k) for k in kids)


def _e2e_has_seq(t):
    return t["t"] in ("list", "array") or any(_e2e_has_seq(k) for k in t.get("fields", []))


def _e2e_schema(t, kinds):
    """the tree description as a schema of the flat model (Flatland/Flat.lean), the same way schema_of builds the real one;
    kinds: list of real scalar classes, a leaf's k is its index"""
    import flatland as fl

    def kind(key, cls):
        for i, (k, _) in enumerate(kinds):
            if k == key:
                return i
        kinds.append((key, cls))
        return len(kinds) - 1
    k = t["t"]
    if k == "leaf":
        if t.get("py") == "int":
            return {"t": "leaf", "name": t["name"], "k": kind(("int",), fl.Integer)}
        return {"t": "leaf", "name": t["name"], "k": kind(("str", False), fl.String.using(strip=False))}
    if k == "bool":
        return {"t": "leaf", "name": t["name"], "k": kind(("bool", t["true"]), fl.Boolean.using(true=t["true"]))}
    if k == "array":
        if t.get("member", "str") != "str":
            member = {"t": "leaf", "name": None, "k": kind((t["member"],), {"int": fl.Integer, "float": fl.Float}[t["member"]])}
        else:
            member = {"t": "leaf", "name": None, "k": kind(("str", bool(t["strip"])), fl.String.using(strip=t["strip"]))}
        return {"t": "array", "name": t["name"], "prune": bool(fl.Array.prune_empty), "member": member}
    if k == "dict":
        return {"t": "dict", "name": t["name"], "mode": "dense", "fields": [_e2e_schema(f, kinds) for f in t["fields"]]}
    member = t.get("template") or (t["members"][0] if t["members"] else {"t": "leaf", "name": None, "py": "str", "u": ""})
    return {"t": "list", "name": t["name"], "prune": bool(fl.List.prune_empty), "max": int(fl.List.maximum_set_flat_members),
            "member": _e2e_schema(member, kinds)}


def _e2e_texts(t, acc):
    if t["t"] in ("leaf", "bool"):
        acc.append(t["u"])
        if t["t"] == "bool":
            acc.append(t["true"])
    elif t["t"] == "array":
        acc.extend((m if m is not None else "") for m in t["members"])
    for kid in t.get("fields", []) + (t.get("members", []) if t["t"] == "list" else []):
        _e2e_texts(kid, acc)


def _e2e_posted(case, results):
    """what a browser submits: every successful form control in document order; ONE activated submitter, the first"""
    out, seen_sub = [], False
    for r, res in zip(case["renders"], results):
        if res["err"] or res["parsed"] is None:
            continue
        sub = bool(res.get("submitter"))
        if res["posted"] is not None and r.get("form") and (not sub or not seen_sub):
            out.append(tuple(res["posted"]))
        seen_sub = seen_sub or sub
    return out


def _e2e_model(case, root, posted):
    """schema / state / scalar tables of the flat model for a form-mode case, read off the REAL element and the real scalar
    classes in isolation; None outside the composed model (a JoinedString needs C18's member tables)"""
    import sys
    from harness import flatlib
    if not case.get("form_mode") or _e2e_has_joined(case["tree"]):
        return None
    kinds = []
    sj = _e2e_schema(case["tree"], kinds)
    texts = [""]
    _e2e_texts(case["tree"], texts)
    texts.extend(v for _, v in posted)
    texts.extend(v for _, v in root.flatten())
    norm = []
    for k, (_, cls) in enumerate(kinds):
        for tx in dict.fromkeys(texts):
            el = cls()
            el.set(tx)
            norm.append([k, tx, el.u])
    env = {"norm": norm, "compose": [], "jm": [], "nd": flatlib.nd_table(), "maxdigits": sys.get_int_max_str_digits()}
    return {"schema": sj, "env": env, "elem": flatlib.extract(root, sj)}


def _e2e_hyps(case, m):
    """Python transcription of the non-widget hypotheses of end_to_end_partial (Flatland/Spec/EndToEnd.lean `hyps` without
    formOk / oneSubmitter, which form_ok reads off the renders); compared with the Lean runner's evaluation key by key"""
    from harness import flatlib
    sj, ej, env = m["schema"], m["elem"], m["env"]
    norm = dict(((k, t), u) for k, t, u in env["norm"])
    tree = case["tree"]

    def names(s):
        return [x["name"] for x in flatlib.walk_schema(s) if x["name"] is not None]

    def wf(s):
        if s["t"] == "dict":
            ns = [f["name"] for f in s["fields"]]
            return all(n is not None for n in ns) and len(set(ns)) == len(ns) and all(wf(f) for f in s["fields"])
        return wf(s["member"]) if s["t"] in ("list", "array") else True

    def ok(s, e):
        if s["t"] == "leaf":
            return "leaf" in e and norm.get((s["k"], e["leaf"])) == e["leaf"]
        if s["t"] == "array":
            return "array" in e and all(ok(s["member"], x) for x in e["array"])
        if s["t"] == "list":
            return "list" in e and len(e["list"]) <= s["max"] and all(ok(s["member"], x) for x in e["list"])
        fields = dict((f["name"], f) for f in s["fields"])
        keys = [k for k, _ in e["dict"]]
        return len(set(keys)) == len(keys) and all(k in fields and ok(fields[k], x) for k, x in e["dict"])

    def bools(t):
        if t["t"] == "bool":
            yield t
        for kid in t.get("fields", []) + (t.get("members", []) if t["t"] == "list" else []):
            yield from bools(kid)

    def arrays_single(s, e):
        """no key twice, read on the state: an Array / MultiValue contributes one pair per member that survives its prune"""
        if s["t"] == "array":
            return len([x for x in e["array"] if not (s["prune"] and x["leaf"] == "")]) <= 1
        if s["t"] == "list":
            return all(arrays_single(s["member"], x) for x in e["list"])
        if s["t"] == "dict":
            fields = dict((f["name"], f) for f in s["fields"])
            return all(arrays_single(fields[k], x) for k, x in e["dict"])
        return True

    def drop_safe(s):
        if s["t"] == "leaf":
            return norm.get((s["k"], "")) == ""
        if s["t"] == "dict":
            return s["mode"] == "dense" and all(drop_safe(f) for f in s["fields"])
        return s["t"] == "list" and s["prune"]

    canonical = all(b["u"] in (b["true"], "") for b in bools(tree))
    unchecked = [b for b in bools(tree) if b["u"] != b["true"]]
    c01 = wf(sj) and ok(sj, ej) and env["nd"][:1] == [48] and all(n != "" and "_" not in n for n in names(sj))
    hn = arrays_single(sj, ej)
    ds = (not unchecked) or drop_safe(sj)
    return {"linked": True, "c01_hyps": bool(c01), "hnodup": bool(hn), "drop_safe": bool(ds),
            "hyps_flat": bool(canonical and c01 and hn and ds)}


class _E2EModel(dict):
    """the model input of the END TO END observation; the attribute `hyps_arrays` (not serialised, not compared with the Lean
    runner, which evaluates `hyps` only) carries the Python evaluation of `hypsA`, read by `tags`"""


def _e2e_hyps_arrays(case, root, posted, base):
    """Python transcription of the non-widget hypotheses of end_to_end_arrays_partial (Flatland/Spec/EndToEnd.lean `hypsA`:
    C01's hypotheses, NO unchecked Boolean box, keySameB = the pairs of every key come in the same order in flatten() and in
    what the form posts; no narrowB / hnodupB / dropSafe), on the REAL flatten() and the real posted pairs"""
    def bools(t):
        if t["t"] == "bool":
            yield t
        for kid in t.get("fields", []) + (t.get("members", []) if t["t"] == "list" else []):
            yield from bools(kid)

    def by_key(ps):
        d = {}
        for k, v in ps:
            d.setdefault(k, []).append(v)
        return d
    flat, post = by_key(root.flatten()), by_key(posted)
    key_same = all(vs == post.get(k, []) for k, vs in flat.items())
    no_unchecked = all(b["u"] == b["true"] for b in bools(case["tree"]))
    return {"c01_hyps": bool(base["c01_hyps"]), "no_unchecked": bool(no_unchecked), "key_same": bool(key_same),
            "hyps_arrays": bool(base["c01_hyps"] and no_unchecked and key_same)}


def _e2e_obs(case, root, results):
    from harness import flatlib
    if any(res["err"] or res["parsed"] is None for res in results):
        return None, None
    posted = _e2e_posted(case, results)
    m = _e2e_model(case, root, posted)
    if m is None:
        return None, None
    rebuilt = type(root).from_flat(posted)
    obs = {"posted": [[k, v] for k, v in posted], "rebuilt": flatlib.extract(rebuilt, m["schema"])}
    obs.update(_e2e_hyps(case, m))
    m = _E2EModel(m)
    m.hyps_arrays = _e2e_hyps_arrays(case, root, posted, obs)
    return obs, m


class C12(Property):
    id = "C12"
    title = "a rendered form, submitted unchanged, posts the element's own flat pairs"
    proof_module = "Proofs.C12Rejected"
    theorems = [
        "Flatland.C12.Proofs.flatName_spec",
        "Flatland.C12.Proofs.flatName_child",
        "Flatland.C12.Proofs.flatName_skip_none",
        "Flatland.C12.Proofs.posts_flat_pair_input",
        "Flatland.C12.Proofs.posts_flat_pair_button",
        "Flatland.C12.Proofs.posts_flat_pair_textarea",
        "Flatland.C12.Proofs.checked_iff",
        "Flatland.C12.Proofs.checked_iff_array",
        "Flatland.C12.Proofs.checked_iff_boolean",
        "Flatland.C12.Proofs.selected_iff",
        "Flatland.C12.Proofs.transform_frame",
        "Flatland.C12.Proofs.label_raw_eq_control_raw",
        "Flatland.C12.Proofs.label_targets",
        "Flatland.C12.Proofs.submitted_orderPairs",
        "Flatland.C12.Proofs.fresh_enabled",
        "Flatland.C12.Proofs.fresh_input_posts",
        "Flatland.C12.Proofs.C12_full_fails",
        # whole form (Flatland/C12/Form.lean, Proofs/C12Form.lean)
        "Flatland.C12.Proofs.select_carries_name",
        "Flatland.C12.Proofs.scalar_posts",
        "Flatland.C12.Proofs.array_posts",
        "Flatland.C12.Proofs.form_controls_post",
        "Flatland.C12.Proofs.form_controls_post_generator",
        "Flatland.C12.Proofs.seenOf_submitter",
        "Flatland.C12.Proofs.seenVia_submitter",
        "Flatland.C12.Proofs.countP_renderForm",
        "Flatland.C12.Proofs.form_subCount",
        "Flatland.C12.Proofs.browserSubmit_of_none",
        "Flatland.C12.Proofs.browserSubmit_of_one",
        "Flatland.C12.Proofs.submit_of_post",
        "Flatland.C12.Proofs.form_unpressed_at",
        "Flatland.C12.Proofs.form_unpressed",
        "Flatland.C12.Proofs.exForm_unpressed",
        "Flatland.C12.Proofs.exTwoSubmitters_unpressed",
        "Flatland.C12.Proofs.form_roundtrip",
        "Flatland.C12.Proofs.form_roundtrip_total",
        "Flatland.C12.Proofs.form_roundtrip_fresh",
        "Flatland.C12.Proofs.flatName_eq_joinSep",
        "Flatland.C12.Proofs.formPairs_flatten",
        "Flatland.C12.Proofs.form_posts_flatten",
        "Flatland.C12.Proofs.posted_keys_are_paths",
        "Flatland.C12.Proofs.form_roundtrip_generator",
        "Flatland.C12.Proofs.form_roundtrip_generator_total",
        "Flatland.C12.Proofs.form_roundtrip_fresh_generator",
        "Flatland.C12.Proofs.prepareTag_of_renders",
        "Flatland.C12.Proofs.natRepr_eq_slotName",
        "Flatland.C12.Proofs.renderForm_binds",
        "Flatland.C12.Proofs.exForm_ok",
        "Flatland.C12.Proofs.exForm_posts",
        "Flatland.C12.Proofs.exForm_posts_generator",
        # after a rejected generator call (Proofs/C12Rejected.lean)
        "Flatland.C12.Proofs.failed_settings_call_keeps_generator",
        "Flatland.C12.Proofs.rejected_call_raises",
        "Flatland.C12.Proofs.rejected_call_preserves_rendering",
        "Flatland.C12.Proofs.failed_call_preserves_rendering",
        "Flatland.C12.Proofs.rejected_prehistory_keeps_generator",
        "Flatland.C12.Proofs.rejected_prehistory_form_roundtrip",
        "Flatland.C12.Proofs.exRejected_rejected",
        "Flatland.C12.Proofs.exForm_posts_after_rejected",
        # END TO END, C12 o C02 o C01 (Proofs/EndToEnd*.lean, h14)
        "Flatland.EndToEnd.Proofs.drop_setFlat",
        "Flatland.EndToEnd.Proofs.fromFlat_formPairs",
        "Flatland.EndToEnd.Proofs.end_to_end_at",
        "Flatland.EndToEnd.Proofs.end_to_end_partial",
        "Flatland.EndToEnd.Proofs.end_to_end_total",
        "Flatland.EndToEnd.Proofs.end_to_end_generator",
        "Flatland.EndToEnd.Proofs.end_to_end_exact",
        "Flatland.EndToEnd.Proofs.end_to_end_full_fails",
        "Flatland.EndToEnd.Proofs.exT_hyps",
        "Flatland.EndToEnd.Proofs.exT_end_to_end",
        "Flatland.EndToEnd.Proofs.exNonPruning_differs",
        "Flatland.EndToEnd.Proofs.exCustom_differs",
        # END TO END without hnodupB (k2): the bridge narrowB => HNodup (Proofs/Lemmas/EndToEndHNodup.lean)
        "Flatland.Flat.Proofs.hnodup_perm",
        "Flatland.Flat.Proofs.hnodup_reach",
        "Flatland.Flat.Proofs.hnodup_flatten",
        "Flatland.Flat.Proofs.hnodup_flatten_perm",
        "Flatland.Flat.Proofs.hnodupB_complete",
        "Flatland.EndToEnd.Proofs.fromFlat_formPairs_narrow",
        "Flatland.EndToEnd.Proofs.hypsN_hnodup",
        "Flatland.EndToEnd.Proofs.hypsN_hyps",
        "Flatland.EndToEnd.Proofs.end_to_end_narrow_at",
        "Flatland.EndToEnd.Proofs.end_to_end_narrow_partial",
        "Flatland.EndToEnd.Proofs.end_to_end_narrow_total",
        "Flatland.EndToEnd.Proofs.end_to_end_narrow_generator",
        "Flatland.EndToEnd.Proofs.exT_hypsN",
        "Flatland.EndToEnd.Proofs.exT_end_to_end_narrow",
        "Flatland.EndToEnd.Proofs.exN_hypsN",
        "Flatland.EndToEnd.Proofs.exN_end_to_end",
        "Flatland.EndToEnd.Proofs.exArr2_only_narrow_fails",
        "Flatland.EndToEnd.Proofs.exArr2_still_rebuilds",
        "Flatland.EndToEnd.Proofs.exPrunedArr_hyps",
        "Flatland.EndToEnd.Proofs.fromFlat_formPairs_stable",
        "Flatland.EndToEnd.Proofs.exArr2_via_stable",
        # END TO END with Arrays / MultiValues of any size (n1): both conditions of order_free_stable proved of canonical output
        "Flatland.Flat.Proofs.hnodupA_flatten",
        "Flatland.Flat.Proofs.krel_filterMap",
        "Flatland.Flat.Proofs.krel_possibles",
        "Flatland.Flat.Proofs.krel_eq_of_const_key",
        "Flatland.Flat.Proofs.asame_congr_reach",
        "Flatland.Flat.Proofs.asame_flatten",
        "Flatland.Flat.Proofs.order_free_canonical",
        "Flatland.Flat.Proofs.keySameB_sound",
        "Flatland.EndToEnd.Proofs.fromFlat_formPairs_arrays",
        "Flatland.EndToEnd.Proofs.end_to_end_arrays_at",
        "Flatland.EndToEnd.Proofs.end_to_end_arrays_partial",
        "Flatland.EndToEnd.Proofs.end_to_end_arrays_total",
        "Flatland.EndToEnd.Proofs.end_to_end_arrays_generator",
        "Flatland.EndToEnd.Proofs.dropSafe_array_false",
        "Flatland.EndToEnd.Proofs.dropSafeL_array_false",
        "Flatland.EndToEnd.Proofs.embed_formLike",
        "Flatland.EndToEnd.Proofs.linked_formLike",
        "Flatland.EndToEnd.Proofs.compound_not_linked",
        "Flatland.EndToEnd.Proofs.exA_hypsA",
        "Flatland.EndToEnd.Proofs.exA_only_arrays_applies",
        "Flatland.EndToEnd.Proofs.exA_end_to_end",
        "Flatland.EndToEnd.Proofs.exAB_outside",
        "Flatland.EndToEnd.Proofs.exDate_not_linked",
        "Flatland.EndToEnd.Proofs.exDateDict_not_linked",
    ]
    extra_proof_modules = ["Proofs.EndToEndExamples", "Proofs.EndToEndArraysExamples"]
    generated_obligations = []
    level_text = "proof"
    level_note = ("partial.  PROVED (model of the transforms + browser rule): text-like input / button / textarea carry (flat name, u) "
                  "[textarea: minus one leading LF, KF-C12-f]; checkbox/radio with a literal (scalar, Boolean, Array-of-String binds), "
                  "Boolean checkbox without literal, <option value=lit> selected iff match (any bind kind) and what it posts inside a "
                  "named select; the <select> itself carries the flat name (select_carries_name); label for = control id for <input> "
                  "controls.  WHOLE FORM (theorem + oracle): form_roundtrip / form_roundtrip_total / form_roundtrip_generator(_total) "
                  "(the last two through prepareTag, the way the runner makes the calls) -- for every element tree "
                  "(Dict / List / scalar / Boolean / Array or MultiValue of strings / JoinedString) and every control group form "
                  "mode renders per leaf (text-like input | textarea | button | radio group | select+options; Boolean checkbox; "
                  "one checkbox or one option of a <select multiple> per Array member; author attributes such as a stale "
                  "checked=/selected= allowed), the pairs a browser submits are exactly, in document order, (name, u) per scalar, "
                  "(name, true) per Boolean whose text is its true value and nothing otherwise, one pair per Array member; "
                  "formPairs_flatten: these plus the pairs of the unchecked boxes are a permutation of flatten() of the flat model "
                  "(C01/C07's function) for the same tree, names = separator-join of the path (flatName_eq_joinSep, "
                  "posted_keys_are_paths).  BROWSER RULE: successful controls only -- <input type=reset|button|file|image> and "
                  "<button type=reset|button> never post; a <button> / <input type=submit> posts only when it is THE activated "
                  "submitter: `browserSubmit act` (act = which submitter was pressed, none = Enter / form.submit()).  The "
                  "form_roundtrip* theorems are about browserSubmit (some 0) and take `oneSubmitter` (at most one submitter "
                  "among the rendered leaves, the one that is pressed; the hypothesis is used: the submitters a browser counts in "
                  "the rendered form = submitters of the tree, form_subCount, because no transform touches `type`); "
                  "form_unpressed: for ANY number of buttons, submitted without pressing one, the browser posts the pairs minus "
                  "those of the leaves rendered as submitters -- an element rendered only as a button that is not pressed is not "
                  "posted.  A form with 2+ submitters and one pressed is outside the theorems (oracle clause "
                  "form-pairs-one-submitter on the real code: the first is pressed, exactly the others' leaves are missing).  "
                  "form_controls_post: the older statement (every control taken as successful / pressed) is kept as a lemma.  "
                  "HYPOTHESES, exactly: (1) formOk -- every leaf has a "
                  "non-empty flat name; a scalar is rendered as a text-like <input> (type absent or not radio / checkbox / "
                  "password / file / image / reset / button under str.lower AND under ASCII lower-casing, which excludes KELVIN "
                  "SIGN spellings: KF-C12-a), a <textarea> whose text does not start with LF (KF-C12-f), a <button> without an "
                  "author type, a radio/checkbox group whose type reads the same under str.lower and ASCII lower-casing and "
                  "whose literals are distinct and contain the text, or a <select> whose <option value=> literals (KF-C12-b/e: "
                  "no body-only options) are distinct and contain the text; a JoinedString only as a text-like input (KF-C12-d); "
                  "Array / MultiValue members already equal their stripped form when the member schema strips; every author "
                  "attribute set (extraOk) has distinct names, none of name / value / type / contents / auto_*, none ending in "
                  "an underscore; (2) oneSubmitter; (3) the generator context is Live (auto_name and auto_value on), Quiet "
                  "(auto_domid / auto_for / auto_tabindex / auto_filter off) with ordered attribute output (OrderedSet), tables "
                  "TablesOK (discharged for Tables.current); (4) boolsCanonical (every Boolean's text is its true value or '') "
                  "only for the statement that the unposted pairs of flatten() have value ''.  The harness re-states (1)+(2)+(4) "
                  "on the case (form_ok) and tags every form-mode case formOk / formOk=false:<reason>.  "
                  "TYPED ARRAYS (oracle + correspondence): Array / MultiValue of Integer / Float whose members adapted (text = "
                  "serialised native) or did NOT (value None, raw text kept), bound as a whole to checkbox / radio groups and "
                  "<select multiple> options.  Oracle, by TEXT (statement: 'their literal value matches ... one member of a "
                  "bound Array'; docs/source/markup.rst: 'value= will be compared against the .u of each of the container's "
                  "children'): on when the literal is the text of a member; off when neither the literal nor the text the member "
                  "schema keeps for it is a member's text (unreadable non-members such as 'xyz', '' and whitespace, readable "
                  "non-members); a literal that only MEANS a member ('07' for the text '7') is not asserted (assumptions).  "
                  "Lean: `literal in bind` for a typed member schema is NOT modelled -- the case hands the runner the literal as "
                  "the member schema keeps it (`norm`, from the harness reference typed_norm = Python int()/float() + "
                  "'%i'/'%f', not from the library) and Run/C12.lean `typedBind` presents the read-only transform model with a "
                  "member list that answers `contains literal` accordingly; so the HARNESS decides the reading, the model the "
                  "rest (checked / selected, name, posted pair).  The whole-form theorems carry member texts only: in form mode "
                  "the literals are the members' own texts (norm = literal), and they apply unchanged.  "
                  "AFTER A REJECTED CALL (failure / recovery paths): a case may make generator calls, each caught, on the "
                  "same generator before the first rendering.  THEOREMS (Proofs/C12Rejected.lean, on the C19 model of "
                  "Context / Generator that the runner uses for those calls): failed_settings_call_keeps_generator -- ANY begin / "
                  "end / set / []= / update that raises leaves the generator as it was; rejected_call_preserves_rendering -- "
                  "a call with an unknown option in any position (or an unbalanced end()) followed by a rendering through any "
                  "Tag method = the rendering without it (from C19's *_unknown_rejected); rejected_prehistory_form_roundtrip -- "
                  "the whole-form round trip holds on the generator after any pre-history of rejected calls.  ORACLE: keeps its "
                  "own settings stack (SettingsRef, nothing read from the library), decides which calls are rejected, checks each "
                  "call's outcome (pre-history-outcome) and then states the property's own clauses exactly as if the rejected "
                  "calls had not been made; when an ACCEPTED call switched auto_name / auto_value off per the reference the "
                  "per-control and form clauses are not asked (tag pre-live=False).  FAILED TAG CALLS in the pre-history (non-text "
                  "attribute value, a bind that is not an element, open() of a void element; on a fresh Tag, on the Tag object a "
                  "later rendering holds, through open() which leaves the Tag on the generator's open-tag stack): "
                  "correspondence + oracle only -- the model renders statelessly in the Tag object (Gen.renderHow).  "
                  "ORACLE/CORRESPONDENCE ONLY: label for = id for textarea/button controls; that "
                  "from_flat of the posted pairs rebuilds the element (C01's function on the real code)")
    technique = ("symbolic evaluation of the transform pipeline under Enabled/Disabled contexts + frame lemmas; browser "
                 "successful-control rule as a function; order-independence of the rule under attribute sorting")
    trusted_base = [
        "the browser's successful-control rule is written twice (Lean `submitted` / `isSubmitter`, Python `posted_of` / "
        "`is_submitter`, both ASCII-case-insensitive on type) and compared on every render; for a submitter it says what the "
        "control posts WHEN ACTIVATED, which control is activated is a hypothesis (oneSubmitter) / an oracle choice (the first)",
        "form_ok (the tag) is a Python restatement of Lean formOk / oneSubmitter / boolsCanonical, not computed by the driver",
        "the whole-form theorem speaks about the flat model's flatten (Flatland/Flat.lean, the subject of C01/C07); on the real "
        "code the oracle states the same clause directly (form-pairs, form-flatten) and closes the loop through from_flat",
        "the form theorems make every tag call on one generator (form_roundtrip_generator: through prepareTag, as the runner "
        "does); the runner threads the generator from call to call, and prepareTag_of_renders shows each call of a form "
        "hands back the context it was given (default settings: no tabindex counter)",
    ]
    assumptions = [
        "markup_wrapper is always the default Markup class: Generator.begin/end/set call self['markup_wrapper']('') AFTER the mutation, so with a non-callable wrapper a 'rejected' settings call leaves its effect behind; the models have no such call, and failed_settings_call_keeps_generator / rejected_call_preserves_rendering are statements about generators whose wrapper is callable",
        "one whole-Array bind per case at most (its repr-style display text is an input of the model)",
        "Array members are String elements; List members share one member schema",
        "the browser is html.parser + the successful-control rule + two HTML-parser/WHATWG details (one LF dropped after "
        "<textarea>; option text stripped and collapsed on ASCII whitespace).  NOT modelled: CR/CRLF -> LF normalisation of the "
        "input stream, newline stripping in text inputs, CRLF normalisation on submission, NUL -> U+FFFD: element texts "
        "containing CR/LF/NUL in text-like inputs are 'posted unchanged' relative to that",
        "typed Arrays: whether a literal that is not the text of any member but READS as the same native as one ('07', ' 7', "
        "'+7', '7.0' against the Integer / Float member whose text is '7' / '7.000000') counts as 'matching' is not "
        "determined by the statement: the docs say the literal is compared with each child's .u (-> no match), the code "
        "wraps the literal in a member element and compares value and text (-> match; the browser then posts (name, '07'), "
        "which is not one of the element's flat pairs but adapts to the same element).  Neither reading is asserted by the "
        "oracle (tag typed-lit=*:respelled-member(open)); the correspondence pins what the code does.  The same latitude was "
        "already given to Array.of(String(strip=True)) (' p' matches the member 'p').  Member kinds Integer and Float only "
        "(no Decimal / Date); no 'nan' / 'inf' members (a Float member 'nan' is not equal to itself by value)",
        "pre-history: calls come BEFORE the first rendering only (not between renderings); update() takes one positional "
        "mapping and keywords, modelled as the concatenated pair list (`source = list(to_pairs(m)); source.extend(kw.items())`); "
        "a bind that is not an element is a str and the call forces auto_name='on', so that the first transform raises "
        "(the model takes that AttributeError as given: `PreOp.badBind`); a non-text attribute value is `True`; option values "
        "stored by accepted calls are bools / Maybe / text (an int is only offered to set(), which rejects it)",
        "leaf kinds: String, Integer, Boolean, Array of String, MultiValue of String, JoinedString (DateYYYYMMDD, Enum, SparseDict "
        "of C01's trees are not generated here: their leaves are scalars of the kinds above as far as the transforms can tell)",
    ]
    rule = ("element trees (Dict/List/Array/String/Integer/Boolean, depth <= 3, names containing the separator, quotes, spaces, "
            "non-ASCII, digit-only names, anonymous members), every bindable leaf; control kinds: text-like inputs, textarea, "
            "button, checkbox (with/without literal, Boolean/Array binds), radio groups, select/option (value= or contents=), "
            "password/file/image/reset/button types, labels paired with a control; decoy literals differing from the text only in "
            "case / Unicode normal form / padding; form mode (35%, mostly >= 3 leaves, 0 / 1 / 2+ submitters) renders one "
            "control (group) per leaf and feeds the posted pairs to from_flat.  TYPED ARRAYS (30% of the plain / MultiValue arrays): member schema "
            "Integer or Float, 0-4 members, 45% of them unreadable texts ('abc', '', ' ', '1.5x', 'N/A' ...; mostly at least "
            "one), the others canonical ('7', '-0.500000'); outside form mode up to 8 literals per group: the members' texts, two "
            "other unreadable texts, '', whitespace, respellings of readable members ('07', ' 7', '+7', '7.0', '7'), a readable "
            "non-member ('9', '09', '9.0'); tags typed-array=<kind>:<flavour>, typed-members=<all-adapted|mixed|all-unadapted|none>, "
            "typed-lit=<control>:<class>:<on|off>.  PRE-HISTORY (40% of the cases, 1-5 calls on the same "
            "generator before the first rendering, each caught): 50% a settings call with an unknown option among 0-3 valid ones "
            "(update x3 / begin / set / []=; unknown key first / middle / last / only; update with a positional mapping and "
            "keywords, the unknown key in either part; the valid pairs mostly switch auto_name / auto_value off -- what would "
            "break the form if applied) or set() with an int option value; 8% end(); 20% a failing tag call (non-text attribute "
            "value / non-element bind / open() of a void element; call / open / open+close; fresh Tag or the Tag a later "
            "rendering holds); 22% an accepted begin / end / set / update / []=.  Tags: pre=<n>, pre-rejected=<n>, "
            "pre-rej=<kind>:<call>:<position>, pre-tag=<tag>:<how>:<fresh|held>, pre-ok=<call>, pre-live, pre-then-form.  non-trivial = some control posts a pair or is deliberately unchecked; distinct = distinct "
            "canonical case JSON")
    quick_n = 40000
    case_timeout = 60      # the machine is shared: a stalled worker must not look like a hang of the library
    thorough_n = 300000

    # ------------------------------------------------------------------ cases
    def corpus(self):
        tree = {"t": "dict", "name": "f", "fields": [
            {"t": "leaf", "name": "a", "py": "str", "u": "hello"},
            {"t": "list", "name": "l", "members": [
                {"t": "dict", "name": None, "fields": [{"t": "leaf", "name": "x", "py": "str", "u": "1"},
                                                     {"t": "bool", "name": "b", "true": "1", "u": "1"}]},
                {"t": "dict", "name": None, "fields": [{"t": "leaf", "name": "x", "py": "str", "u": "2"},
                                                     {"t": "bool", "name": "b", "true": "1", "u": ""}]}]},
            {"t": "array", "name": "arr", "strip": True, "members": ["p", "q r"]}]}
        on = [["auto_domid", B(True)], ["auto_for", B(True)]]

        def rd(sel, tag, kw, role, **extra):
            d = {"sel": sel, "tag": tag, "kwargs": kw, "role": role, "within": None, "form": False}
            d.update(extra)
            return d
        cases = [
            # planned drill: nested leaf must post the flattened name, not the local one
            {"markup": "xhtml", "settings": [], "tree": tree, "form_mode": False,
             "renders": [rd([1, 1, 0], "input", [["type", S("text")]], "value")]},
            # label / checkbox id pairing with a value needing sanitising
            {"markup": "xhtml", "settings": on, "tree": tree, "form_mode": False,
             "renders": [rd([2], "input", [["type", S("checkbox")], ["value", S("q r")]], "check", lit="q r"),
                         rd([2], "label", [["value", S("q r")]], "label", pair=0)]},
            # Boolean checkbox without literal value
            {"markup": "html", "settings": on, "tree": tree, "form_mode": False,
             "renders": [rd([1, 0, 1], "input", [["type", S("checkbox")]], "check", lit=None),
                         rd([1, 0, 1], "label", [["value", S("1")]], "label", pair=0)]},
            # open KF-C12-a: a password input does not echo the value
            {"markup": "xhtml", "settings": [], "tree": tree, "form_mode": False,
             "renders": [rd([0], "input", [["type", S("password")]], "value")]},
        ]
        # open KF-C12-b: option text given as (escaped) contents
        cases.append({"markup": "xhtml", "settings": [], "form_mode": False,
                      "tree": {"t": "dict", "name": "f", "fields": [{"t": "leaf", "name": "a", "py": "str", "u": "a & b"}]},
                      "renders": [rd([0], "select", [], "select"),
                                  rd([0], "option", [["contents", S("a &amp; b")]], "option", within=0, lit="a & b", from_contents=True)]})
        def one(u, renders, settings=(), extra_fields=()):
            return {"markup": "xhtml", "settings": list(settings), "form_mode": False,
                    "tree": {"t": "dict", "name": "f", "fields": [{"t": "leaf", "name": "a", "py": "str", "u": u}] + list(extra_fields)},
                    "renders": renders}
        # seeded mutation C12-option-empty-value-falsy: the placeholder option (explicit value="", non-empty body)
        cases.append(one("", [rd([0], "select", [], "select"),
                              rd([0], "option", [["value", S("")], ["contents", S("-- none --")]], "option", within=0, lit=""),
                              rd([0], "option", [["value", S("x")], ["contents", S("X")]], "option", within=0, lit="x")]))
        cases.append(one("N/A", [rd([0], "select", [], "select"),
                                 rd([0], "option", [["value", S("")], ["contents", S("N/A")]], "option", within=0, lit=""),
                                 rd([0], "option", [["value", S("N/A")], ["contents", S("n/a")]], "option", within=0, lit="N/A")]))
        cases.append(one("x", [rd([1], "select", [["multiple", S("multiple")]], "select"),
                               rd([1], "option", [["value", S("")], ["contents", S("none")]], "option", within=0, lit=""),
                               rd([1], "option", [["value", S("L")], ["contents", S("large")]], "option", within=0, lit="L")],
                         extra_fields=[{"t": "array", "flavour": "array", "name": "sizes", "strip": False, "members": ["", "L"]}]))
        # fixed: property=C12 feded98 — type keywords are matched case-insensitively (was KF-C12-c)
        cases.append(one("hello", [rd([0], "input", [["type", S("CHECKBOX")], ["value", S("hello")]], "check", lit="hello"),
                                   rd([0], "label", [["value", S("hello")]], "label", pair=0)],
                         settings=[["auto_domid", B(True)], ["auto_for", B(True)]]))
        # open KF-C12-d: JoinedString matched by member, not by its text
        cases.append(one("x", [rd([1], "input", [["type", S("checkbox")], ["value", S("a,b")]], "check", lit="a,b"),
                               rd([1], "input", [["type", S("checkbox")], ["value", S("a")]], "check", lit="a")],
                         extra_fields=[{"t": "array", "flavour": "joined", "name": "j", "strip": True, "members": ["a", "b"]}]))
        # open KF-C12-e: option text with inner double blank / NBSP padding
        cases.append(one("a  b", [rd([0], "select", [], "select"),
                                  rd([0], "option", [["contents", S("a  b")]], "option", within=0, lit="a b", from_contents=True)]))
        # open KF-C12-f: textarea text starting with a newline
        cases.append(one("\nx", [rd([0], "textarea", [], "value")]))
        # seeded mutation C12-boolean-checkbox-stale-checked: a pre-existing checked= / selected= must be removed when the
        # element does not match (Boolean without value=, scalar with value=, Array, option)
        boolf = {"t": "bool", "name": "b", "true": "1", "u": ""}
        boolx = {"t": "bool", "name": "c", "true": "1", "u": "zzz"}
        arr = {"t": "array", "flavour": "array", "name": "arr", "strip": False, "members": ["p"]}
        cases.append(one("x", [rd([1], "input", [["type", S("checkbox")], ["checked", S("checked")]], "check", lit=None),
                               rd([2], "input", [["checked", S("checked")], ["type", S("checkbox")]], "check", lit=None),
                               rd([0], "input", [["type", S("radio")], ["value", S("y")], ["checked", S("checked")]], "check", lit="y"),
                               rd([3], "input", [["type", S("checkbox")], ["value", S("q")], ["checked", S("")]], "check", lit="q"),
                               rd([0], "select", [], "select"),
                               rd([0], "option", [["value", S("y")], ["selected", S("selected")]], "option", within=4, lit="y"),
                               rd([0], "input", [["type", S("text")], ["value", S("stale")], ["auto_value", B(True)]], "value")],
                         extra_fields=[boolf, boolx, arr]))
        # seeded mutation C12-tag-contents-leak-on-reuse: ONE held Tag object renders a filled, then an empty member
        held = {"markup": "xhtml", "settings": [], "form_mode": True,
                "tree": {"t": "dict", "name": "post", "fields": [{"t": "list", "name": "notes", "members": [
                    {"t": "leaf", "name": "note", "py": "str", "u": "first note"}, {"t": "leaf", "name": "note", "py": "str", "u": ""},
                    {"t": "leaf", "name": "note", "py": "str", "u": "third"}, {"t": "leaf", "name": "note", "py": "str", "u": ""}],
                    "template": {"t": "leaf", "name": "note", "py": "str", "u": ""}}]},
                "renders": [dict(rd([0, i], "textarea", [], "value", handle=0, how=h), form=True)
                            for i, h in enumerate(["call", "call", "openclose", "openclose"])]}
        cases.append(held)
        # MultiValue: members are flat pairs of their own
        cases.append(one("x", [rd([1], "input", [["type", S("checkbox")], ["value", S("q")]], "check", lit="q"),
                               rd([1], "input", [["type", S("text")]], "value")],
                         extra_fields=[{"t": "array", "flavour": "multi", "name": "m", "strip": True, "members": ["p", "q"]}]))
        # the non-vacuity form of the whole-form theorem (Proofs/C12FormExamples.lean `exForm`): every leaf kind and
        # every control group of form mode, stale checked= / selected= on some of them.  Lean proves that a browser
        # posts f_a, f_b, f_l_0_x, f_l_0_b, f_l_1_x, f_arr (2x), f_m (2x), f_s, f_k, f_j for it (`exForm_posts_generator`)
        yes = lambda u: {"t": "bool", "name": "b", "true": "yes", "u": u}
        row = lambda x, b: {"t": "dict", "name": None, "fields": [{"t": "leaf", "name": "x", "py": "str", "u": x}, yes(b)]}
        ex_tree = {"t": "dict", "name": "f", "fields": [
            {"t": "leaf", "name": "a", "py": "str", "u": "hello"},
            {"t": "bool", "name": "b", "true": "1", "u": "1"},
            {"t": "bool", "name": "c", "true": "1", "u": ""},
            {"t": "list", "name": "l", "members": [row("1 & <2>", "yes"), row("2", "")], "template": row("", "")},
            {"t": "array", "flavour": "array", "name": "arr", "strip": True, "members": ["p", "q r"]},
            {"t": "array", "flavour": "array", "name": "m", "strip": False, "members": [" p", " p"]},
            {"t": "leaf", "name": "s", "py": "str", "u": "v1"},
            {"t": "leaf", "name": "k", "py": "str", "u": "go"},
            {"t": "array", "flavour": "joined", "name": "j", "strip": True, "members": ["a", "b"]}]}
        stale = ["checked", S("checked")]
        box = lambda sel, *extra: rd(sel, "input", [["type", S("checkbox")]] + list(extra), "check", lit=None)
        chk = lambda sel, ty, lit, *extra: rd(sel, "input", [["type", S(ty)], ["value", S(lit)]] + list(extra), "check", lit=lit)
        opt = lambda sel, within, lit, *extra: rd(sel, "option", [["value", S(lit)]] + list(extra), "option", within=within, lit=lit)
        ex_renders = [
            rd([0], "input", [["type", S("text")]], "value"),
            box([1], stale), box([2], stale),
            rd([3, 0, 0], "textarea", [], "value"), box([3, 0, 1]),
            chk([3, 1, 0], "radio", "9", stale), chk([3, 1, 0], "radio", "2"), chk([3, 1, 0], "radio", "x", stale),
            box([3, 1, 1]),
            chk([4], "checkbox", "p"), chk([4], "checkbox", "q r", stale),
            rd([5], "select", [["multiple", S("multiple")]], "select"), opt([5], 11, " p"), opt([5], 11, " p"),
            rd([6], "select", [], "select"), opt([6], 14, "v1"), opt([6], 14, "v2", ["selected", S("selected")]),
            rd([7], "button", [], "value"),
            rd([8], "input", [["type", S("hidden")]], "value")]
        cases.append({"markup": "xhtml", "settings": [], "form_mode": True, "tree": ex_tree,
                      "renders": [dict(r, form=True) for r in ex_renders]})
        # ---- renderings that FOLLOW a rejected generator call (seeded mutation C12-context-update-kwargs-after-precheck:
        # update() applied the keyword pairs in front of the unknown one before raising)
        # the Lean example `exRejected` (Proofs/C12Rejected.lean) in front of the example form: `exForm_posts_after_rejected`
        ex_pre = [{"op": "update", "pos": None, "settings": [["auto_name", B(False)], ["no_such", I(1)]]},
                  {"op": "begin", "settings": [["no_such", I(1)], ["auto_value", B(False)]]},
                  {"op": "set", "settings": [["auto_value", S("off")], ["auto_nmae", B(True)]]},
                  {"op": "setitem", "key": "no_such", "value": B(False)},
                  {"op": "end"}]
        cases.append({"markup": "xhtml", "settings": [], "form_mode": True, "tree": ex_tree, "pre": ex_pre,
                      "renders": [dict(r, form=True) for r in ex_renders]})
        # the mutation's demo: text input, textarea, three checkboxes bound to an Array, after two rejected update()s
        demo_tree = {"t": "dict", "name": "user", "fields": [
            {"t": "leaf", "name": "email", "py": "str", "u": "a&b@example.com"},
            {"t": "leaf", "name": "bio", "py": "str", "u": "x < y"},
            {"t": "array", "flavour": "array", "name": "roles", "strip": True, "members": ["1", "3"]}]}
        demo_renders = [rd([0], "input", [["type", S("text")]], "value"), rd([1], "textarea", [], "value"),
                        chk([2], "checkbox", "1"), chk([2], "checkbox", "3")]
        cases.append({"markup": "html", "settings": [], "form_mode": True, "tree": demo_tree,
                      "pre": [{"op": "update", "pos": None, "settings": [["auto_value", B(False)], ["auto_nmae", B(True)]]},
                              {"op": "update", "pos": None, "settings": [["auto_name", B(False)], ["domid_fromat", S("x%s")]]},
                              {"op": "begin", "settings": [["auto_name", B(False)], ["auto_vlaue", B(False)]]}],
                      "renders": [dict(r, form=True) for r in demo_renders]})
        # minimised replays of the drill: the valid pair in the positional mapping / in the keywords, the unknown key after it
        cases.append(dict(one("a b", [rd([0], "input", [["type", S("search")]], "value")]),
                          pre=[{"op": "update", "pos": None, "settings": [["auto_name", S("NIL")], ["name", S("False")]]}]))
        cases.append(dict(one("", [rd([0], "textarea", [], "value")]),
                          pre=[{"op": "update", "pos": [["auto_name", S("False")]], "settings": [["domid_fromat", B(False)]]}]))
        cases.append(dict(one("x", [rd([0], "input", [["type", S("radio")], ["value", S("x")]], "check", lit="x")]),
                          pre=[{"op": "update", "pos": [["auto_domid", B(True)]],
                                "settings": [["auto_for", B(True)], ["auto_value", S("off")], ["", B(True)], ["auto_name", B(True)]]}]))
        # seeded mutation C12-element-eq-drops-text (Element.__eq__ without its text conjunct): an Array of Integer reloaded
        # from a submission with a member that did not adapt ('abc': value None, text kept) next to one that did ('7'); one
        # checkbox / radio / option per literal: members' texts, other unreadable literals, '' and whitespace, readable
        # non-members, and '07' (MEANS the member 7, is not its text: left open, see assumptions)
        nums = {"t": "array", "flavour": "array", "member": "int", "name": "nums", "strip": False, "members": ["abc", "7"]}
        lits = ["7", "abc", "xyz", "", " ", "9", "07", "7x"]
        for ty in ("checkbox", "radio"):
            cases.append(one("x", [chk([1], ty, l) for l in lits] + [chk([1], ty, "zz", stale)], extra_fields=[nums]))
        cases.append(one("x", [rd([1], "select", [["multiple", S("multiple")]], "select")] +
                         [opt([1], 0, l, ["contents", S("x")]) for l in lits], extra_fields=[nums]))
        allbad = {"t": "array", "flavour": "multi", "member": "float", "name": "amounts", "strip": False, "members": ["one", "", "two"]}
        cases.append(one("x", [chk([1], "checkbox", l) for l in ["one", "three", "two", "", "0", "0.000000", "nan x"]],
                         extra_fields=[allbad]))
        # the same Array as a whole form: one checkbox per member, the unadapted text is posted back as it is
        cases.append({"markup": "html", "settings": [], "form_mode": True,
                      "tree": {"t": "dict", "name": "f", "fields": [nums]},
                      "renders": [dict(chk([0], "checkbox", l), form=True) for l in ["abc", "7"]]})
        # set() rejecting an option value after a valid pair; unbalanced end(); accepted begin(auto_name off) ... end()
        cases.append(dict(one("x", [rd([0], "button", [], "value")]),
                          pre=[{"op": "set", "settings": [["auto_value", B(False)], ["auto_name", I(7)]]}, {"op": "end"},
                               {"op": "begin", "settings": [["auto_name", B(False)]]}, {"op": "end"}, {"op": "end"}]))
        # seeded mutation C11-tag-open-keeps-stale-contents: open() raises midway (non-text attribute value) AFTER the
        # transforms stored the body; the Tag stays on the generator's open-tag stack; the next (empty) field renders through it
        notes = {"t": "dict", "name": "post", "fields": [{"t": "leaf", "name": "notes", "py": "str", "u": "</textarea> & <b>"},
                                                        {"t": "leaf", "name": "bio", "py": "str", "u": ""}]}
        for how, handle in (("open", None), ("call", 0), ("openclose", 0)):
            cases.append({"markup": "xhtml", "settings": [], "form_mode": False, "tree": notes,
                          "pre": [{"op": "tag", "sel": [0], "tag": "textarea", "kwargs": [["rows", B(True)]], "how": how,
                                   "handle": handle, "badbind": False},
                                  {"op": "tag", "sel": None, "tag": "textarea", "kwargs": [["auto_name", S("on")]], "how": how,
                                   "handle": handle, "badbind": True},
                                  {"op": "tag", "sel": [0], "tag": "input", "kwargs": [], "how": "open", "handle": None, "badbind": False}],
                          "renders": [dict(rd([1], "textarea", [], "value"), handle=handle),
                                      dict(rd([1], "textarea", [], "value"), handle=handle, how="openclose"),
                                      rd([0], "textarea", [], "value")]})
        return [_fix_arr_shown(c) for c in cases]

    def generate(self, rng, n, tier):
        for _ in range(n):
            case = _rand_case(rng)
            if rng.random() < 0.4:
                case["pre"] = _rand_pre(rng, case)
            yield _fix_arr_shown(case)

    # ------------------------------------------------------------------ real implementation
    def run_impl(self, case):
        pre_errs = []
        try:
            root, results = render_all(case, pre_errs)
        except AssertionError:
            raise
        obs = {"init_err": None, "pre": [{"err": e} for e in pre_errs], "renders": []}
        for r, res in zip(case["renders"], results):
            el = res["el"]
            bind = None
            if el is not None:
                bind = {"name": mc.safe(el.flattened_name()), "u": mc.safe(el.u)}
            if res["err"]:
                obs["renders"].append({"bind": bind, "err": res["err"], "out": None, "posted": None})
                continue
            posted = res["posted"]
            obs["renders"].append({"bind": bind, "err": None, "out": mc.safe(res["out"]),
                                   "posted": [mc.safe(posted[0]), mc.safe(posted[1])] if posted else None,
                                   "submitter": bool(res.get("submitter")),
                                   "id": mc.safe(res.get("id")), "for": mc.safe(res.get("for"))})
        obs["e2e"], obs["_e2e_model"] = _e2e_obs(case, root, results) if case.get("form_mode") else (None, None)
        return obs

    def model_input(self, case, obs):
        # END TO END: the flat-model schema / state / scalar tables read off the real element (h14)
        m = (obs or {}).get("_e2e_model")
        return dict(case, e2e=m) if m is not None else case

    # ------------------------------------------------------------------ oracle
    def oracle(self, case):
        fails = []
        pre_errs = []
        root, results = render_all(case, pre_errs)
        # the settings in force when the renderings start, by the oracle's own reference: a rejected call changes nothing,
        # so everything below is stated exactly as if the rejected calls had not been made
        ref, outcome, _ = reference_of(case)
        for i, ((want, _), got) in enumerate(zip(outcome, pre_errs)):
            if want != got:
                fails.append({"clause": "pre-history-outcome", "op": i, "expected": want, "observed": got})
        live = ref.live("auto_name") and ref.live("auto_value")
        posted_pairs = []
        submitters = []
        for i, (r, res) in enumerate(zip(case["renders"], results)):
            el = res["el"]
            if res["err"]:
                fails.append({"clause": "renders", "render": i, "expected": "markup", "observed": res["err"]})
                continue
            if res["parsed"] is None:
                fails.append({"clause": "renders", "render": i, "expected": "one element", "observed": res["out"]})
                continue
            name = el.flattened_name() if el is not None else ""
            role = r["role"]
            posted = res["posted"]
            if res.get("submitter"):
                submitters.append(i)
            if posted is not None and r.get("form") and (not res.get("submitter") or submitters[0] == i):
                # a submission has ONE activated submitter: here the first one of the form; the others post nothing
                posted_pairs.append(tuple(posted))
            if not name:
                continue          # the property speaks about non-empty flat names
            if not live and role in ("value", "check", "option"):
                continue          # an ACCEPTED call switched auto_name / auto_value off (per the reference): not C12's controls
            if role == "value" and r["tag"] == "input" and ascii_lower(str(self._type_of(r) or "text")) in INPUT_NEVER_POSTS:
                # reset / button / file / image inputs never post their value: outside "text-like inputs and buttons"
                continue
            if role == "value" and r["tag"] == "button" and ascii_lower(str(self._type_of(r) or "submit")) in BUTTON_NEVER_POSTS:
                continue          # <button type=reset|button> is not a submit button: it never posts
            if role == "value":
                want = [name, el.u]
                if posted != want:
                    fails.append({"clause": "posts-flat-pair", "render": i, "expected": want, "observed": posted,
                                  "markup": res["out"], "type": dict((k, v.get("v")) for k, v in r["kwargs"]).get("type"),
                                  "name": name, "u": el.u})
            elif role in ("check", "option"):
                lit = r.get("lit")
                import flatland
                is_checkbox = str(dict((k, v.get("v")) for k, v in r["kwargs"]).get("type")).lower() == "checkbox"
                if lit is None and isinstance(el, flatland.Boolean) and is_checkbox:
                    lit = el.true          # documented: the missing value= is added from Boolean.true
                kwd = dict((k, v) for k, v in r["kwargs"])
                if role == "option" and "value" not in kwd:
                    # the literal value of an option without value= is what a browser reads from its text
                    lit = collapse_ws(res["parsed"]["text"])
                if lit is None:
                    continue       # a checkbox/radio without any value: outside "their literal value matches"
                if isinstance(el, flatland.JoinedString):
                    # an Array subclass, but ONE flattenable leaf: its text is the joined string
                    want_on = (lit == el.u)
                elif isinstance(el, flatland.Array) and self._bind_node(case, r).get("member", "str") != "str":
                    # typed members (Integer / Float).  The statement is about TEXT ("their literal value matches ... one
                    # member of a bound Array"; docs: "value= will be compared against the .u of each of the container's
                    # children"): checked / selected when the literal IS the text of a member; NOT when neither the
                    # literal nor the text the member schema keeps for it (typed_norm: '07' -> '7') is a member's text.
                    # A literal that only MEANS a member ('07', ' 7', '+7' for the text '7') is left open: see assumptions
                    texts = [m.u for m in el]
                    if lit in texts:
                        want_on = True
                    elif typed_norm(self._bind_node(case, r)["member"], lit) in texts:
                        continue
                    else:
                        want_on = False
                elif isinstance(el, flatland.Array):
                    strip = el.member_schema.strip
                    want_on = any(m.value == (lit.strip() if strip else lit) for m in el)
                else:
                    want_on = (lit == el.u)
                if role == "option":
                    select_name = None
                    if r.get("within") is not None:
                        sp = results[r["within"]]["parsed"]
                        if sp is not None:
                            select_name = dict((k, v) for k, v in sp["attrs"]).get("name")
                    want = [name, lit] if want_on else None
                    if select_name != name:
                        fails.append({"clause": "select-name", "render": i, "expected": name, "observed": select_name})
                else:
                    want = [name, lit] if want_on else None
                if posted != want:
                    fails.append({"clause": "checked-iff-matches", "render": i, "expected": want, "observed": posted,
                                  "markup": res["out"], "name": name, "lit": lit, "u": el.u})
            elif role == "label":
                if ref.live("auto_domid") != ref.live("auto_for") or not live:
                    # an ACCEPTED call left ids on and for= off (or the reverse), or switched auto_value off (the id of a
                    # check control ends in its value), per the reference: no pairing asked
                    continue
                ctl = results[r["pair"]]
                if ctl["parsed"] is None:
                    continue
                if res.get("for") != ctl.get("id"):
                    fails.append({"clause": "label-targets-control", "render": i, "expected": ctl.get("id"), "observed": res.get("for"),
                                  "markup": [ctl["out"], res["out"]], "pair": r["pair"]})
        if not live:
            return fails
        if case.get("form_mode") and len(submitters) > 1:
            # more than one submitter: only the activated one (the first) posts.  The property then holds for every
            # element except those rendered ONLY as a submitter that was not pressed: exactly their pairs are missing
            import flatland
            own = []
            silent = set(case["renders"][i]["sel"] and tuple(case["renders"][i]["sel"]) for i in submitters[1:])
            for sel, node in leaves(case["tree"]):
                if tuple(sel) in silent:
                    continue
                el, _ = navigate(root, case["tree"], sel)
                if isinstance(el, flatland.Boolean):
                    if el.u == el.true:
                        own.append([el.flattened_name(), el.u])
                elif isinstance(el, flatland.Array) and not isinstance(el, flatland.JoinedString):
                    own.extend([m.flattened_name(), m.u] for m in el)
                else:
                    own.append([el.flattened_name(), el.u])
            if not any(res["err"] or res["parsed"] is None for res in results) and [list(p) for p in posted_pairs] != own:
                fails.append({"clause": "form-pairs-one-submitter", "expected": own, "observed": [list(p) for p in posted_pairs]})
            return fails
        if case.get("form_mode") and not any(res["err"] or res["parsed"] is None for res in results):
            # the whole-form theorem (Proofs/C12Form.lean form_roundtrip), stated on the real elements: in document order
            # (name, u) per scalar / JoinedString, (name, true) per Boolean showing its true text and nothing otherwise,
            # one pair per Array member; with the pairs of the unchecked boxes that is flatten() as a multiset
            import flatland
            own, unchecked = [], []
            for sel, node in leaves(case["tree"]):
                el, _ = navigate(root, case["tree"], sel)
                if isinstance(el, flatland.Boolean):
                    (own if el.u == el.true else unchecked).append([el.flattened_name(), el.u])
                elif isinstance(el, flatland.Array) and not isinstance(el, flatland.JoinedString):
                    own.extend([m.flattened_name(), m.u] for m in el)
                else:
                    own.append([el.flattened_name(), el.u])
            got_pairs = [list(p) for p in posted_pairs]
            if got_pairs != own:
                fails.append({"clause": "form-pairs", "expected": own, "observed": got_pairs})
            flat = sorted([k, v] for k, v in root.flatten())
            if sorted(own + unchecked) != flat:
                fails.append({"clause": "form-flatten", "expected": flat, "observed": sorted(own + unchecked)})
        if case.get("form_mode"):
            # closing the loop with C01: what the browser posts rebuilds the element's own flat pairs
            # (relative to from_flat(flatten()), so that C01's pruning findings do not leak into this check)
            want = type(root).from_flat(root.flatten()).flatten()
            got = type(root).from_flat(posted_pairs).flatten()
            if got != want:
                fails.append({"clause": "form-roundtrip", "expected": [list(p) for p in want], "observed": [list(p) for p in got],
                              "posted": [list(p) for p in posted_pairs]})
            fails.extend(self._oracle_e2e(case, root, results))
        return fails

    def _oracle_e2e(self, case, root, results):
        """END TO END on the real code (h14): the posted pairs, read back with from_flat, rebuild the element TREE that
        from_flat(flatten()) rebuilds (the documented pruning); with nothing prunable, the element's own tree"""
        from harness import flatlib
        e2e, m = _e2e_obs(case, root, results)
        if e2e is None:
            return []
        cls = type(root)
        posted = _e2e_posted(case, results)
        flat = root.flatten()
        via_flat = cls.from_flat(flat)
        want = flatlib.extract(via_flat, m["schema"])
        out = []
        if via_flat.flatten() == flat and flatlib.extract(root, m["schema"]) != want and e2e["c01_hyps"]:
            return out      # C01's business: the tree changes although the flat output does not
        if e2e["rebuilt"] != want or cls.from_flat(posted).flatten() != via_flat.flatten():
            out.append({"clause": "posted-from-flat-rebuilds", "expected": want, "observed": e2e["rebuilt"],
                        "posted": [list(p) for p in posted], "flatten": [list(p) for p in flat]})
        elif via_flat.flatten() == flat and e2e["rebuilt"] != flatlib.extract(root, m["schema"]):
            out.append({"clause": "posted-from-flat-rebuilds", "expected": flatlib.extract(root, m["schema"]),
                        "observed": e2e["rebuilt"], "posted": [list(p) for p in posted], "detail": "nothing prunable"})
        elif not _e2e_has_seq(case["tree"]) and cls.from_flat(posted).flatten() != flat:
            # decided from the tree description, not from what the library makes of it: without List / Array /
            # MultiValue there is nothing the documentation allows to be pruned -- the flat output comes back as it is
            # (an unchecked box comes back as the pair (key, '') it was)
            out.append({"clause": "posted-from-flat-rebuilds", "expected": [list(p) for p in flat],
                        "observed": [list(p) for p in cls.from_flat(posted).flatten()], "posted": [list(p) for p in posted],
                        "detail": "no sequence in the tree: original.flatten()"})
        return out

    def classify(self, case, failure):
        for fn in (self._classify_a, self._classify_option_text, self._classify_d, self._classify_f):
            fid = fn(case, failure)
            if fid:
                return fid
        return None

    def _classify_option_text(self, case, failure):
        """KF-C12-b / KF-C12-e: an <option> whose value comes from contents= is matched using `contents.strip()` (the
        markup, Python whitespace), not the text a browser reads from it (references decoded, ASCII whitespace stripped
        and collapsed).  Class: option render without value=; the two readings differ; the option is selected exactly
        when `contents.strip() == u`; and if selected, what is posted is exactly (flat name, the browser's reading).
        b: the readings differ because of a character reference; e: only because of whitespace."""
        if failure.get("clause") != "checked-iff-matches" or not isinstance(failure.get("render"), int):
            return None
        r = case["renders"][failure["render"]]
        kw = dict((k, v) for k, v in r["kwargs"])
        if r["tag"] != "option" or "value" in kw or "contents" not in kw or kw["contents"]["t"] not in ("s", "m"):
            return None
        code_reading = kw["contents"]["v"].strip()
        browser_reading = collapse_ws(html.unescape(kw["contents"]["v"]))
        if code_reading == browser_reading:
            return None
        u, name = failure.get("u"), failure.get("name")
        if u is None or name is None or failure.get("lit") != browser_reading:
            return None
        predicted = [name, browser_reading] if code_reading == u else None
        if failure.get("observed") != predicted:
            return None
        if failure.get("expected") != ([name, browser_reading] if browser_reading == u else None):
            return None
        return "KF-C12-b" if html.unescape(code_reading) != code_reading else "KF-C12-e"

    @staticmethod
    def _type_of(r):
        t = dict((k, v) for k, v in r["kwargs"]).get("type")
        return t.get("v") if t and t.get("t") in ("s", "m") else None

    def _bind_node(self, case, r):
        node = case["tree"]
        for i in r["sel"] or []:
            if node["t"] == "dict":
                node = node["fields"][i]
            elif node["t"] == "list":
                node = node["members"][i]
            elif node["t"] == "array":
                return {"t": "leaf", "u": node["members"][i] or ""}
        return node

    def _classify_d(self, case, failure):
        """KF-C12-d: a JoinedString is an Array subclass, so check controls and options bound to it are matched
        against its MEMBERS, not against its text (its one flat pair).  Class: check/option render bound to a
        JoinedString; posted is (flat name, literal) exactly when the stripped literal is one of the members."""
        i = failure.get("render")
        if failure.get("clause") != "checked-iff-matches" or not isinstance(i, int):
            return None
        r = case["renders"][i]
        node = self._bind_node(case, r)
        if node.get("t") != "array" or node.get("flavour") != "joined" or r["role"] not in ("check", "option"):
            return None
        lit, name = failure.get("lit"), failure.get("name")
        if lit is None or name is None:
            return None
        predicted = [name, lit] if lit.strip() in node["members"] else None
        return "KF-C12-d" if failure.get("observed") == predicted else None

    def _classify_f(self, case, failure):
        """KF-C12-f: a <textarea> whose text starts with a newline loses that newline in a browser (the HTML parser
        drops one LF after the start tag; the generator does not emit a protective one).  Class: textarea value
        render, u starts with LF, posted == (flat name, u without the first LF)."""
        i = failure.get("render")
        if failure.get("clause") != "posts-flat-pair" or not isinstance(i, int):
            return None
        r = case["renders"][i]
        u, name = failure.get("u"), failure.get("name")
        if r["tag"] != "textarea" or not isinstance(u, str) or not u.startswith("\n"):
            return None
        return "KF-C12-f" if failure.get("observed") == [name, u[1:]] else None

    def _bind_u(self, case, r):
        node = case["tree"]
        for i in r["sel"] or []:
            if node["t"] == "dict":
                node = node["fields"][i]
            elif node["t"] == "list":
                node = node["members"][i]
            elif node["t"] == "array":
                return node["members"][i] or ""
        return node.get("u")

    def _classify_a(self, case, failure):
        """KF-C12-a: an <input type=password> without a tag-level auto_value 'on' does not carry the element's text
        (documented: 'No value is added unless forced').  file / image inputs are outside the property: a browser never
        posts their value attribute."""
        if failure.get("clause") != "posts-flat-pair" or not isinstance(failure.get("render"), int):
            return None
        r = case["renders"][failure["render"]]
        kw = dict((k, v) for k, v in r["kwargs"])
        ty = kw.get("type", {}).get("v")
        if r["tag"] != "input" or not isinstance(ty, str) or ty.lower() != "password":
            return None
        av = kw.get("auto_value")
        forced = av is not None and (av.get("v") is True or (isinstance(av.get("v"), str) and av["v"].lower() in ("1", "true", "t", "on", "yes")))
        if forced:
            return None
        exp, obs = failure.get("expected"), failure.get("observed")
        if obs is not None and exp is not None and obs[0] == exp[0] and obs[1] == "":
            return "KF-C12-a"
        return None

    # ------------------------------------------------------------------ coverage
    RESERVED = ("name", "value", "type", "contents", "auto_name", "auto_value", "auto_domid", "auto_for", "auto_tabindex", "auto_filter")

    @staticmethod
    def _kw_lower(t):
        return t.lower()

    def form_ok(self, case, obs):
        """the hypotheses of the whole-form theorem (Lean: formOk && oneSubmitter, on Generator() = Live/Quiet/OrderedSet,
        boolsCanonical), re-stated on the case: (True, None) or (False, first reason)"""
        if not case.get("form_mode"):
            return False, "not-form-mode"
        if case["settings"]:
            return False, "settings (theorem: Generator())"
        if reference_of(case)[2]:
            # (rejected calls and failed tag calls are covered: rejected_prehistory_form_roundtrip)
            return False, "pre-history with an accepted call"
        groups = {}
        for i, r in enumerate(case["renders"]):
            if r.get("sel") is None or not r.get("form"):
                return False, "unbound/extra render"
            groups.setdefault(tuple(r["sel"]), []).append(i)
        nsub = 0
        for sel, node in leaves(case["tree"]):
            idx = groups.get(tuple(sel))
            if not idx:
                if node["t"] == "array" and node.get("flavour", "array") != "joined" and not node["members"]:
                    continue        # an Array without members as checkboxes: no control, no pair
                return False, "leaf without control"
            o = obs["renders"][idx[0]]
            if not (o.get("bind") or {}).get("name"):
                return False, "empty flat name"
            rs = [case["renders"][i] for i in idx]
            fixed = {"input": ("type", "value"), "option": ("value",), "select": ("multiple",)}
            for r in rs:
                extra = [k for k, _ in r["kwargs"] if k not in fixed.get(r["tag"], ())]
                if len(set(extra)) != len(extra) or any(k in self.RESERVED or k.rstrip("_") != k for k in extra):
                    return False, "extraOk"
            kind = node["t"]
            flav = node.get("flavour", "array")
            first = rs[0]
            ty = self._type_of(first) if first["tag"] == "input" else None

            def text_like(t):
                if t is None:
                    return True
                k, a = t.lower(), ascii_lower(t)
                return k not in ("radio", "checkbox", "password", "file", "image") and a not in ("checkbox", "radio") + INPUT_NEVER_POSTS

            def offers_once(lits, u):
                return len(set(lits)) == len(lits) and u in lits
            if kind == "array" and flav == "joined":
                if not (len(rs) == 1 and first["tag"] == "input" and first["role"] == "value" and text_like(ty)):
                    return False, "joined: not a text-like input"
                nsub += ty is not None and ascii_lower(ty) == "submit"
            elif kind == "array":
                if node["strip"] and any((m or "") != (m or "").strip() for m in node["members"]):
                    return False, "array members not stripped"
                if first["tag"] == "select":
                    lits = [dict((k, v) for k, v in r["kwargs"]).get("value", {}).get("v") for r in rs[1:]]
                else:
                    lits = [r.get("lit") for r in rs]
                    if any(r["tag"] != "input" or (self._type_of(r) or "") != "checkbox" for r in rs):
                        return False, "array: not checkboxes"
                if lits != [(m or "") for m in node["members"]]:
                    return False, "array: literals are not the members"
            elif kind == "bool":
                if not (len(rs) == 1 and first["tag"] == "input" and (ty or "") == "checkbox" and first.get("lit") is None):
                    return False, "bool: not a checkbox without value"
                if node["u"] not in (node["true"], ""):
                    return False, "boolsCanonical"
            else:
                u = node["u"]
                if first["tag"] == "input" and first["role"] == "value":
                    if not text_like(ty):
                        return False, "input type not text-like"
                    nsub += ty is not None and ascii_lower(ty) == "submit"
                elif first["tag"] == "textarea":
                    if u.startswith("\n") or any(k == "contents" for k, _ in first["kwargs"]):
                        return False, "textarea: leading LF / explicit contents"
                elif first["tag"] == "button":
                    nsub += 1
                elif first["tag"] == "select":
                    opts = rs[1:]
                    if any("value" not in dict((k, v) for k, v in r["kwargs"]) or any(k == "contents" for k, _ in r["kwargs"]) for r in opts):
                        return False, "option without value= / with body"
                    if not offers_once([r.get("lit") for r in opts], u):
                        return False, "select does not offer u exactly once"
                elif first["tag"] == "input" and first["role"] == "check":
                    tys = set(self._type_of(r) for r in rs)
                    t0 = next(iter(tys))
                    if len(tys) != 1 or t0 is None or t0.lower() not in ("radio", "checkbox") or ascii_lower(t0) != t0.lower():
                        return False, "check group type"
                    if not offers_once([r.get("lit") for r in rs], u):
                        return False, "radio group does not offer u exactly once"
                else:
                    return False, "other control"
        if nsub > 1:
            return False, "more than one submitter"
        return True, None

    def nontrivial(self, case, obs):
        return any(r.get("posted") for r in obs["renders"]) or any(r["role"] in ("check", "option") for r in case["renders"])

    def tags(self, case, obs):
        t = ["renders=%d" % min(len(case["renders"]), 12), "form=%s" % bool(case.get("form_mode"))]
        pre = case.get("pre") or []
        t.append("pre=%d" % len(pre))
        if pre:
            ref, outcome, accepted = reference_of(case)
            t.append("pre-rejected=%d" % (len(pre) - accepted))
            t.append("pre-accepted=%d" % accepted)
            for op, (e, kind) in zip(pre, outcome):
                if kind:
                    t.append("pre-rej=%s" % kind)
                    if op["op"] == "tag":
                        t.append("pre-tag=%s:%s:%s" % (op["tag"], op.get("how", "call"), "held" if op.get("handle") is not None else "fresh"))
                    elif any(k in ("auto_name", "auto_value") and v.get("v") in (False, "off", "no", "0", "False", "NIL")
                             for k, v in pre_settings_of(op)):
                        t.append("pre-rej-would-switch-off")
                else:
                    t.append("pre-ok=%s" % op["op"])
            t.append("pre-live=%s" % bool(ref.live("auto_name") and ref.live("auto_value")))
            t.append("pre-then-form=%s" % bool(case.get("form_mode")))
        depth = 0

        def d(n, k=0):
            nonlocal depth
            depth = max(depth, k)
            for c in n.get("fields", []) + (n.get("members", []) if n["t"] == "list" else []):
                d(c, k + 1)
        d(case["tree"])
        t.append("depth=%d" % depth)
        if case.get("form_mode"):
            try:
                ok, why = self.form_ok(case, obs)
            except Exception as e:  # noqa
                ok, why = False, "form_ok crashed: %s" % type(e).__name__
            t.append("formOk" if ok else "formOk=false:%s" % why)
            t.append("form-leaves=%d" % min(len(list(leaves(case["tree"]))), 8))
            e2e = obs.get("e2e")
            if e2e is None:
                t.append("e2e=outside-model")
            else:
                # end_to_end_partial (`hyps`) OR end_to_end_arrays_partial (`hypsA`: Arrays of any size, no unchecked box)
                ha = getattr(obs.get("_e2e_model"), "hyps_arrays", None) or {}
                arr = bool(ha.get("hyps_arrays"))
                t.append("e2e-theorem-applies" if (ok and (e2e["hyps_flat"] or arr)) else "e2e-theorem-applies=false:%s" % (
                    "formOk" if not ok else "c01" if not e2e["c01_hyps"]
                    else "keySame" if (ha and ha.get("no_unchecked") and not ha.get("key_same"))
                    else "array+unchecked-box" if not e2e["hnodup"]
                    else "dropSafe" if not e2e["drop_safe"] else "boolsCanonical"))
                if ok and arr and not e2e["hyps_flat"]:
                    t.append("e2e-arrays-theorem-only")
                if ok and ha and ha.get("c01_hyps") and ha.get("no_unchecked") and not ha.get("key_same"):
                    t.append("e2e-keySame=false")
            nsub = sum(1 for r, o in zip(case["renders"], obs["renders"])
                       if r["tag"] == "button" or (r["tag"] == "input" and ascii_lower(str(self._type_of(r) or "")) == "submit"))
            t.append("form-submitters=%s" % (nsub if nsub < 2 else "2+"))
        for r, o in zip(case["renders"], obs["renders"]):
            kw = dict((k, v) for k, v in r["kwargs"])
            ty = kw.get("type", {}).get("v", "") if r["tag"] == "input" else ""
            node = self._bind_node(case, r) if r.get("sel") is not None else {}
            if node.get("t") == "array" and node.get("member", "str") != "str":
                ms = node["members"]
                bad = [m for m in ms if not _typed_adapts(node["member"], m)]
                t.append("typed-array=%s:%s" % (node["member"], node.get("flavour", "array")))
                t.append("typed-members=%s" % ("none" if not ms else "all-adapted" if not bad else "all-unadapted" if len(bad) == len(ms) else "mixed"))
                lit = kw.get("value", {}).get("v") if r["role"] in ("check", "option") else None
                if isinstance(lit, str):
                    ctl = "option" if r["tag"] == "option" else str(ty).lower()
                    if lit in ms:
                        cls = "member-text"
                    elif lit.strip() == "":
                        cls = "empty-or-whitespace"
                    elif not _typed_adapts(node["member"], lit):
                        cls = "unreadable-non-member"
                    elif typed_norm(node["member"], lit) in ms:
                        cls = "respelled-member(open)"
                    else:
                        cls = "readable-non-member" + ("-respelled" if typed_norm(node["member"], lit) != lit else "")
                    t.append("typed-lit=%s:%s:%s" % (ctl, cls, "on" if o.get("posted") else "off"))
            t.append("ctl=%s%s" % (r["tag"], ":" + str(ty).lower() if r["tag"] == "input" else ""))
            t.append("role=%s" % r["role"])
            t.append("posted" if o.get("posted") else "not-posted")
            if o.get("bind") and "_" in (o["bind"]["name"] or ""):
                t.append("nested-name")
            if o.get("err"):
                t.append("err=%s" % o["err"])
        return sorted(set(t))

    # ------------------------------------------------------------------ shrinking
    def shrink_candidates(self, case):
        rs = case["renders"]
        pre = case.get("pre") or []
        for i in range(len(pre)):
            c = copy.deepcopy(case)
            del c["pre"][i]
            yield c
        for i, op in enumerate(pre):
            # fewer pairs in a settings call (the reference re-decides whether it is still rejected)
            for part in ("pos", "settings"):
                for j in range(len(op.get(part) or [])):
                    c = copy.deepcopy(case)
                    del c["pre"][i][part][j]
                    yield c
        for i in range(len(rs)):
            # keep indexes of pairs / selects valid
            if any(r.get("pair") == i or r.get("within") == i for r in rs):
                continue
            c = copy.deepcopy(case)
            del c["renders"][i]
            # a form without one of its controls no longer posts the whole element: keep the per-control clauses only
            c["form_mode"] = False
            for r in c["renders"]:
                r["form"] = False
                for key in ("pair", "within"):
                    if r.get(key) is not None and r[key] > i:
                        r[key] -= 1
            yield c
        for i in range(len(case["settings"])):
            c = copy.deepcopy(case)
            del c["settings"][i]
            yield c
        if case.get("form_mode"):
            c = copy.deepcopy(case)
            c["form_mode"] = False
            for r in c["renders"]:
                r["form"] = False
            yield c
        for i, r in enumerate(rs):
            if r.get("handle") is not None or r.get("how", "call") != "call":
                c = copy.deepcopy(case)
                c["renders"][i].pop("handle", None)
                c["renders"][i].pop("how", None)
                yield c
        if case["markup"] != "xhtml":
            c = copy.deepcopy(case)
            c["markup"] = "xhtml"
            yield c


# END TO END (h14): C12 o C02 o C01, see NOTES-h14.md
C12.level_note += (
    "  END TO END (Proofs/EndToEnd.lean): end_to_end_partial / _total / _generator -- for a form tree t that renders the state e of "
    "schema s (embed t = resolve s e) under the decidable hypotheses Flatland.EndToEnd.hyps (formOk, oneSubmitter, boolsCanonical; "
    "wfS, rootOK, okSB, envOKB, namesSafe; hnodupB = C02's hereditary no-key-twice on the element's own pairs; dropSafe when a box "
    "is unchecked), from_flat of what the browser posts is prS e (C01's documented pruning); EndToEnd_Full is refuted "
    "(end_to_end_full_fails: unchecked Boolean in a SparseDict).  Tie: the real posted pairs go through the real from_flat and the "
    "rebuilt tree is compared with the model's fromFlat of the model's posted pairs; the hypotheses are evaluated on both sides "
    "and compared; where they hold the runner checks rebuilt = prS e (spec_agrees).  Oracle clause posted-from-flat-rebuilds.  "
    "SCOPE of every end_to_end_* theorem: NOT 'every schema' -- a FormTree can only be linked to schemas built from String-like "
    "scalars, Booleans, Arrays / MultiValues of such scalars, JoinedStrings, Dicts / SparseDicts and Lists; there is no FormTree "
    "constructor for a Compound (DateYYYYMMDD) rendered as its parts' inputs, and a Compound holding a member is linked to no form "
    "(linked_formLike, compound_not_linked, exDate_not_linked); Arrays / MultiValues with two or more members: "
    "end_to_end_arrays_partial (hypsA = no narrowB / hnodupB; hnodupA_flatten and asame_flatten PROVE both conditions of C02's "
    "order_free_stable of canonical flatten output, order_free_canonical) for forms WITHOUT an unchecked Boolean box (dropSafe is "
    "false of every Array: dropSafe_array_false, exAB_outside -- an Array next to an unchecked box is oracle + correspondence only) "
    "and under the executable hypothesis keySameB (same-key pairs in the same order in flatten() and in the form; measured on every "
    "form case, tag e2e-keySame=false never seen; not proved); JoinedStrings: oracle only.")
C12.rule += ("  Form-mode cases without a JoinedString also carry the END TO END observation (tag e2e-theorem-applies: "
             "about 69 % of form-mode cases meet every hypothesis of end_to_end_partial).")

PROP = C12()
