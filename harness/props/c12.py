"""C12 — a rendered form, submitted unchanged, posts the element's own flat pairs."""
import copy
import html
import re

from harness.core import Property
from harness.props import markup_common as mc
from harness.props.markup_common import S, B, I

VOIDS = ["area", "base", "br", "col", "embed", "hr", "img", "input", "link", "meta", "param", "source", "track", "wbr"]
NAMES = ["a", "b", "c", "x_y", "_", "a_", "_b", "0", "1", "é", "n m", 'q"<', "f", "name", "a__b", "İ", "l", "d", "-", "x.y:z"]
TEXTS = ["", "x", "hello", "a b", " padded ", "1", "0", "on", "q r", 'say "hi" <b>&amp;', "éK", "\n\tx", "p", "A-b_c:d.e", "%s",
         " x ", "v1"]
TEXTLIKE = ["text", "hidden", "submit", "", "email", "TEXT", "search", "tel"]
SECRET = ["password", "file", "image"]
ID_INVALID = re.compile(r"[^A-Za-z0-9_:.\-]")


# ------------------------------------------------------------------ trees (case description)

SAFE_NAMES = ["a", "b", "c", "é", "n m", 'q"<', "f", "name", "İ", "l", "d", "-", "x.y:z", "a1"]


def _rand_leaf(rng, name, form_mode=False):
    r = rng.random()
    if r < 0.6:
        return {"t": "leaf", "name": name, "py": "str", "u": rng.choice(TEXTS) if rng.random() < 0.8 else mc.hostile(rng, 6)}
    if r < 0.72:
        return {"t": "leaf", "name": name, "py": "int", "u": rng.choice(["0", "12", "-3", "zz", ""])}
    if r < 0.86:
        tru = rng.choice(["1", "1", "yes", "T"])
        return {"t": "bool", "name": name, "true": tru, "u": rng.choice([tru, ""] if form_mode else [tru, "", "zzz"])}
    strip = rng.random() < 0.5
    ms = []
    for _ in range(rng.randint(0, 3)):
        m = rng.choice(TEXTS)
        ms.append(m.strip() if strip else m)
    return {"t": "array", "name": name, "strip": strip, "members": ms}


def _rand_tree(rng, depth, name, form_mode=False):
    pool = SAFE_NAMES if form_mode else NAMES
    if depth <= 0 or rng.random() < 0.35:
        return _rand_leaf(rng, name, form_mode)
    if rng.random() < 0.55:
        names = rng.sample(pool, rng.randint(1, 3))
        return {"t": "dict", "name": name, "fields": [_rand_tree(rng, depth - 1, n, form_mode) for n in names]}
    member_name = rng.choice([None, None, rng.choice(pool)])
    template = _rand_tree(rng, depth - 1, member_name, form_mode)
    members = [_revalue(rng, template, form_mode) for _ in range(rng.randint(0, 3))]
    return {"t": "list", "name": name, "members": members, "template": template}


def _revalue(rng, t, form_mode=False):
    """same shape, fresh leaf values (List members share one member schema)"""
    t = copy.deepcopy(t)

    def go(n):
        if n["t"] == "leaf":
            if n.get("py") == "str":
                n["u"] = rng.choice(TEXTS) if rng.random() < 0.8 else mc.hostile(rng, 6)
            else:
                n["u"] = rng.choice(["0", "12", "-3", "zz", ""])
        elif n["t"] == "bool":
            n["u"] = rng.choice([n["true"], ""] if form_mode else [n["true"], "", "zzz"])
        elif n["t"] == "array":
            ms = [rng.choice(TEXTS) for _ in range(rng.randint(0, 3))]
            n["members"] = [m.strip() if n["strip"] else m for m in ms]
        elif n["t"] == "dict":
            for f in n["fields"]:
                go(f)
        else:
            n["members"] = [_revalue(rng, n["template"], form_mode) for _ in range(rng.randint(0, 2))]
    go(t)
    return t


def leaves(t, sel=()):
    """(selector, node) of every bindable leaf: scalars, booleans, arrays (as a whole)"""
    if t["t"] in ("leaf", "bool", "array"):
        yield list(sel), t
    elif t["t"] == "dict":
        for i, f in enumerate(t["fields"]):
            yield from leaves(f, sel + (i,))
    else:
        for i, m in enumerate(t["members"]):
            yield from leaves(m, sel + (i,))


def strip_templates(t):
    """keep the member template of every list (the member schema is built from it), normalised the same way"""
    t = dict(t)
    if "template" in t:
        t["template"] = strip_templates(t["template"])
    if t["t"] == "dict":
        t["fields"] = [strip_templates(f) for f in t["fields"]]
    elif t["t"] == "list":
        t["members"] = [strip_templates(m) for m in t["members"]]
    return t


# ------------------------------------------------------------------ real elements

def schema_of(t, template=None):
    import flatland as fl
    k = t["t"]
    if k == "leaf":
        cls = fl.Integer if t.get("py") == "int" else fl.String.using(strip=False)
    elif k == "bool":
        cls = fl.Boolean.using(true=t["true"])
    elif k == "array":
        cls = fl.Array.of(fl.String.using(strip=t["strip"]))
    elif k == "dict":
        cls = fl.Dict.of(*[schema_of(f) for f in t["fields"]])
    else:
        member = t.get("template") or (t["members"][0] if t["members"] else {"t": "leaf", "name": None, "py": "str", "u": ""})
        cls = fl.List.of(schema_of(member))
    return cls.named(t["name"])


def value_of(t):
    k = t["t"]
    if k in ("leaf", "bool"):
        return t["u"]
    if k == "array":
        return list(t["members"])
    if k == "dict":
        return {f["name"]: value_of(f) for f in t["fields"]}
    return [value_of(m) for m in t["members"]]


def navigate(root, t, sel):
    el, node = root, t
    for i in sel:
        if node["t"] == "dict":
            node = node["fields"][i]
            el = el[node["name"]]
        elif node["t"] == "list":
            node = node["members"][i]
            el = el[i]
        elif node["t"] == "array":
            el = el[i]
            node = {"t": "leaf", "name": None, "u": node["members"][i] or ""}
        else:
            raise IndexError("selector descends below a leaf")
    return el, node


def build(case):
    tree = case["tree"]
    root = schema_of(tree)()
    root.set(value_of(tree))
    return root


def array_shown(tree, renders):
    """display text of the Array a render binds as a whole (never posted; the model takes it as given)"""
    return ""


# ------------------------------------------------------------------ browser rule (Python, independent of Lean)

def posted_of(el, select_name=None):
    a = {}
    for k, v in el["attrs"]:
        a.setdefault(k, v if v is not None else "")
    tag = el["tag"]
    if tag == "option":
        if select_name and "selected" in a:
            return [select_name, a["value"] if "value" in a else el["text"].strip()]
        return None
    name = a.get("name")
    if not name:
        return None
    if tag == "input":
        ty = a.get("type", "text").lower()
        if ty in ("checkbox", "radio"):
            return [name, a.get("value", "on")] if "checked" in a else None
        return [name, a.get("value", "")]
    if tag == "textarea":
        return [name, el["text"]]
    if tag == "button":
        return [name, a.get("value", "")]
    return None


def render_all(case):
    """run every render of the case on the real generator; returns (root, list of per-render dicts)"""
    from flatland.out.markup import Generator, Tag
    root = build(case)
    gen = Generator(case["markup"], **mc.kwargs_of(case["settings"]))
    results = []
    names = []
    for r in case["renders"]:
        el = None
        if r["sel"] is not None:
            el, node = navigate(root, case["tree"], r["sel"])
            if node["t"] in ("leaf", "bool"):
                assert el.u == node["u"], "harness: leaf text differs from the case (%r vs %r)" % (el.u, node["u"])
            else:
                assert el.u == r.get("arr_shown"), "harness: array display text differs from the case"
        kwargs = mc.kwargs_of(r["kwargs"])
        res = {"el": el, "err": None, "out": None, "parsed": None, "posted": None}
        try:
            out = getattr(gen, r["tag"])(el, **kwargs) if r["tag"] in ("form", "input", "textarea", "button", "select", "option", "label") \
                else gen.tag(r["tag"], el, **kwargs)
            if isinstance(out, Tag):
                out = out()
            res["out"] = str(out)
        except AssertionError:
            raise
        except Exception as e:  # noqa
            res["err"] = type(e).__name__
            names.append(None)
            results.append(res)
            continue
        parsed = mc.single_element(mc.parse_events(res["out"]), VOIDS)
        res["parsed"] = parsed
        name_attr = None
        if parsed is not None:
            a = {}
            for k, v in parsed["attrs"]:
                a.setdefault(k, v if v is not None else "")
            name_attr = a.get("name")
            sel_name = None
            if r.get("within") is not None and r["within"] < len(names):
                sel_name = names[r["within"]]
            res["posted"] = posted_of(parsed, sel_name)
            res["id"] = a.get("id")
            res["for"] = a.get("for")
        names.append(name_attr)
        results.append(res)
    return root, results


# ------------------------------------------------------------------ generation of renders

def _control_for(rng, node, form_mode=False):
    """renders (tag, kwargs, role, extra) for one bound leaf"""
    out = []
    k = node["t"]
    r = rng.random()
    if k == "array":
        if form_mode:
            lits = [(m if m is not None else "") for m in node["members"]]     # one checkbox per member occurrence
        else:
            lits = list(dict.fromkeys((m if m is not None else "") for m in node["members"]))
            lits.append(rng.choice(TEXTS))
        if rng.random() < 0.3:
            # <select multiple> bound to the Array, one option per literal
            out.append(("select", [["multiple", S("multiple")]], "select", {}))
            for lit in lits:
                out.append(("option", [["value", S(lit)]], "option", {"lit": lit}))
            return out
        ty = "checkbox" if form_mode or rng.random() < 0.7 else "radio"
        for lit in lits:
            out.append(("input", [["type", S(ty)], ["value", S(lit)]], "check", {"lit": lit}))
        return out
    if k == "bool" and (form_mode or r < 0.5):
        if form_mode or rng.random() < 0.6:
            return [("input", [["type", S("checkbox")]], "check", {"lit": None})]
        lit = rng.choice([node["true"], "other", ""])
        return [("input", [["type", S("checkbox")], ["value", S(lit)]], "check", {"lit": lit})]
    if r < 0.30:
        ty = rng.choice(TEXTLIKE)
        kw = [["type", S(ty)]] if ty or rng.random() < 0.5 else []
        return [("input", kw, "value", {})]
    if r < 0.40:
        return [("textarea", [], "value", {})]
    if r < 0.50:
        return [("button", [], "value", {})]
    if r < 0.65:
        # a radio group: the literal equal to u plus decoys
        lits = list(dict.fromkeys([node["u"], rng.choice(TEXTS), rng.choice(TEXTS)]))
        rng.shuffle(lits)
        return [("input", [["type", S("radio")], ["value", S(l)]], "check", {"lit": l}) for l in lits]
    if r < 0.80:
        # select + options (value= or contents=)
        lits = list(dict.fromkeys([node["u"], rng.choice(TEXTS), rng.choice(TEXTS)]))
        rng.shuffle(lits)
        res = [("select", [], "select", {})]
        for l in lits:
            if form_mode or rng.random() < 0.6:
                res.append(("option", [["value", S(l)]], "option", {"lit": l}))
            else:
                # the option's text: author markup, written the way an author writes text (escaped)
                pad = rng.choice(["", " ", "\n "])
                res.append(("option", [["contents", S(pad + html.escape(l, quote=False) + pad)]], "option",
                            {"lit": (pad + l + pad).strip(), "from_contents": True}))
        return res
    if form_mode:
        return [("input", [["type", S("text")]], "value", {})]
    if r < 0.84:
        # a radio / checkbox without any value attribute (outside "their literal value matches": correspondence only)
        return [("input", [["type", S(rng.choice(["radio", "checkbox"]))]], "check", {"lit": None})]
    if r < 0.88:
        # a control whose name is overridden by the author: only the label pairing is checked
        return [("input", [["type", S("text")], ["name", S(rng.choice(["other", "x y", ""]))]], "named", {})]
    if r < 0.93:
        return [("input", [["type", S(rng.choice(SECRET))]] + ([["auto_value", rng.choice([B(True), S("on")])]] if rng.random() < 0.4 else []),
                 "value", {})]
    return [("input", [["type", S("checkbox")], ["value", S(node["u"] if rng.random() < 0.5 else rng.choice(TEXTS))]], "check", None)]


def _mk_renders(rng, tree, form_mode):
    renders = []
    lv = list(leaves(tree))
    if not lv:
        return renders
    chosen = lv if form_mode else [rng.choice(lv) for _ in range(rng.choice([1, 1, 2, 3]))]
    for sel, node in chosen:
        if node["t"] == "array" and not form_mode and node["members"] and rng.random() < 0.3:
            i = rng.randrange(len(node["members"]))
            sel = sel + [i]
            node = {"t": "leaf", "name": None, "u": node["members"][i] or ""}
        group = _control_for(rng, node, form_mode)
        select_index = None
        for tag, kw, role, extra in group:
            if extra is None:
                extra = {"lit": kw[-1][1]["v"]}
            entry = {"sel": sel, "tag": tag, "kwargs": kw, "role": role, "within": None, "form": form_mode}
            entry.update(extra)
            if role == "select":
                select_index = len(renders)
            if role == "option":
                entry["within"] = select_index
            renders.append(entry)
            # a label paired with the control (same bind, same literal value)
            if role in ("value", "check", "named") and not form_mode and rng.random() < 0.5:
                lkw = []
                if role == "check" and entry.get("lit") is not None:
                    lkw.append(["value", S(entry["lit"])])
                elif role == "check" and node["t"] == "bool" and kw and kw[0][1].get("v") == "checkbox":
                    # the label is given the value the control renders (bind.true)
                    lkw.append(["value", S(node["true"])])
                renders.append({"sel": sel, "tag": "label", "kwargs": lkw, "role": "label", "within": None, "form": False,
                                "pair": len(renders) - 1})
    return renders


def _rand_case(rng):
    form_mode = rng.random() < 0.35
    root_name = rng.choice([None, "f", "form", rng.choice(SAFE_NAMES)] if form_mode else [None, "", "f", "form", rng.choice(NAMES)])
    tree = _rand_tree(rng, rng.choice([0, 1, 2, 2, 3]), root_name, form_mode)
    if tree["t"] in ("leaf", "bool", "array") and (form_mode or rng.random() < 0.7):
        tree = {"t": "dict", "name": root_name, "fields": [dict(tree, name=rng.choice(SAFE_NAMES if form_mode else NAMES))]}
    settings = []
    if not form_mode:
        if rng.random() < 0.6:
            settings.append(["auto_domid", B(True)])
            settings.append(["auto_for", B(True)])
        if rng.random() < 0.2:
            settings.append(["domid_format", S(rng.choice(["%s", "id_%s", "f_%s_x"]))])
        if rng.random() < 0.1:
            settings.append(["ordered_attributes", B(False)])
    renders = _mk_renders(rng, tree, form_mode)
    return {"markup": rng.choice(["xml", "xhtml", "html"]), "settings": settings, "tree": strip_templates(tree),
            "renders": renders, "form_mode": form_mode}


def _fix_arr_shown(case):
    """the model takes the display text of a whole-Array bind as given: compute it the way Sequence.u does"""
    for r in case["renders"]:
        r["arr_shown"] = ""
        if r["sel"] is None:
            continue
        node = case["tree"]
        ok = True
        for i in r["sel"]:
            if node["t"] == "dict":
                node = node["fields"][i]
            elif node["t"] == "list":
                node = node["members"][i]
            else:
                ok = False
                break
        if ok and node["t"] == "array":
            r["arr_shown"] = mc.array_u(node["members"])
    return case


class C12(Property):
    id = "C12"
    title = "a rendered form, submitted unchanged, posts the element's own flat pairs"
    proof_module = "Proofs.C12"
    theorems = [
        "Flatland.C12.Proofs.flatName_spec",
        "Flatland.C12.Proofs.flatName_child",
        "Flatland.C12.Proofs.flatName_skip_none",
        "Flatland.C12.Proofs.posts_flat_pair_input",
        "Flatland.C12.Proofs.posts_flat_pair_button",
        "Flatland.C12.Proofs.posts_flat_pair_textarea",
        "Flatland.C12.Proofs.checked_iff",
        "Flatland.C12.Proofs.checked_iff_array",
        "Flatland.C12.Proofs.label_raw_eq_control_raw",
        "Flatland.C12.Proofs.label_targets",
        "Flatland.C12.Proofs.submitted_orderPairs",
        "Flatland.C12.Proofs.fresh_enabled",
        "Flatland.C12.Proofs.fresh_input_posts",
        "Flatland.C12.Proofs.C12_full_fails",
    ]
    generated_obligations = []
    level_text = "proof"
    level_note = ("partial: password/file/image inputs are excluded (KF-C12-a, refuted for the full statement by C12_full_fails); "
                  "option/select, and the form round trip through from_flat/flatten (C01), rest on "
                  "correspondence and the oracle")
    technique = ("symbolic evaluation of the transform pipeline under Enabled/Disabled contexts + frame lemmas; browser "
                 "successful-control rule as a function; order-independence of the rule under attribute sorting")
    trusted_base = [
        "the browser's successful-control rule is written twice (Lean `submitted`, Python `posted_of`) and compared on every render",
        "from_flat/flatten (closing the loop with C01) are exercised on the real code by the oracle only",
    ]
    assumptions = [
        "one whole-Array bind per case at most (its repr-style display text is an input of the model)",
        "Array members are String elements; List members share one member schema",
        "browsers' newline normalisation in textarea/attribute values is not modelled (html.parser keeps text verbatim)",
    ]
    rule = ("element trees (Dict/List/Array/String/Integer/Boolean, depth <= 3, names containing the separator, quotes, spaces, "
            "non-ASCII, digit-only names, anonymous members), every bindable leaf; control kinds: text-like inputs, textarea, "
            "button, checkbox (with/without literal, Boolean/Array binds), radio groups, select/option (value= or contents=), "
            "password/file/image, labels paired with a control; form mode renders one control (group) per leaf and feeds the "
            "posted pairs to from_flat.  non-trivial = some control posts a pair or is deliberately unchecked; distinct = distinct "
            "canonical case JSON")
    quick_n = 40000
    thorough_n = 300000

    # ------------------------------------------------------------------ cases
    def corpus(self):
        tree = {"t": "dict", "name": "f", "fields": [
            {"t": "leaf", "name": "a", "py": "str", "u": "hello"},
            {"t": "list", "name": "l", "members": [
                {"t": "dict", "name": None, "fields": [{"t": "leaf", "name": "x", "py": "str", "u": "1"},
                                                     {"t": "bool", "name": "b", "true": "1", "u": "1"}]},
                {"t": "dict", "name": None, "fields": [{"t": "leaf", "name": "x", "py": "str", "u": "2"},
                                                     {"t": "bool", "name": "b", "true": "1", "u": ""}]}]},
            {"t": "array", "name": "arr", "strip": True, "members": ["p", "q r"]}]}
        on = [["auto_domid", B(True)], ["auto_for", B(True)]]

        def rd(sel, tag, kw, role, **extra):
            d = {"sel": sel, "tag": tag, "kwargs": kw, "role": role, "within": None, "form": False}
            d.update(extra)
            return d
        cases = [
            # planned drill: nested leaf must post the flattened name, not the local one
            {"markup": "xhtml", "settings": [], "tree": tree, "form_mode": False,
             "renders": [rd([1, 1, 0], "input", [["type", S("text")]], "value")]},
            # label / checkbox id pairing with a value needing sanitising
            {"markup": "xhtml", "settings": on, "tree": tree, "form_mode": False,
             "renders": [rd([2], "input", [["type", S("checkbox")], ["value", S("q r")]], "check", lit="q r"),
                         rd([2], "label", [["value", S("q r")]], "label", pair=0)]},
            # Boolean checkbox without literal value
            {"markup": "html", "settings": on, "tree": tree, "form_mode": False,
             "renders": [rd([1, 0, 1], "input", [["type", S("checkbox")]], "check", lit=None),
                         rd([1, 0, 1], "label", [["value", S("1")]], "label", pair=0)]},
            # open KF-C12-a: a password input does not echo the value
            {"markup": "xhtml", "settings": [], "tree": tree, "form_mode": False,
             "renders": [rd([0], "input", [["type", S("password")]], "value")]},
        ]
        # open KF-C12-b: option text given as (escaped) contents
        cases.append({"markup": "xhtml", "settings": [], "form_mode": False,
                      "tree": {"t": "dict", "name": "f", "fields": [{"t": "leaf", "name": "a", "py": "str", "u": "a & b"}]},
                      "renders": [rd([0], "select", [], "select"),
                                  rd([0], "option", [["contents", S("a &amp; b")]], "option", within=0, lit="a & b", from_contents=True)]})
        return [_fix_arr_shown(c) for c in cases]

    def generate(self, rng, n, tier):
        for _ in range(n):
            yield _fix_arr_shown(_rand_case(rng))

    # ------------------------------------------------------------------ real implementation
    def run_impl(self, case):
        try:
            root, results = render_all(case)
        except AssertionError:
            raise
        obs = {"init_err": None, "renders": []}
        for r, res in zip(case["renders"], results):
            el = res["el"]
            bind = None
            if el is not None:
                bind = {"name": mc.safe(el.flattened_name()), "u": mc.safe(el.u)}
            if res["err"]:
                obs["renders"].append({"bind": bind, "err": res["err"], "out": None, "posted": None})
                continue
            posted = res["posted"]
            obs["renders"].append({"bind": bind, "err": None, "out": mc.safe(res["out"]),
                                   "posted": [mc.safe(posted[0]), mc.safe(posted[1])] if posted else None,
                                   "id": mc.safe(res.get("id")), "for": mc.safe(res.get("for"))})
        return obs

    # ------------------------------------------------------------------ oracle
    def oracle(self, case):
        fails = []
        root, results = render_all(case)
        posted_pairs = []
        for i, (r, res) in enumerate(zip(case["renders"], results)):
            el = res["el"]
            if res["err"]:
                fails.append({"clause": "renders", "render": i, "expected": "markup", "observed": res["err"]})
                continue
            if res["parsed"] is None:
                fails.append({"clause": "renders", "render": i, "expected": "one element", "observed": res["out"]})
                continue
            name = el.flattened_name() if el is not None else ""
            role = r["role"]
            posted = res["posted"]
            if posted is not None and r.get("form"):
                posted_pairs.append(tuple(posted))
            if not name:
                continue          # the property speaks about non-empty flat names
            if role == "value":
                want = [name, el.u]
                if posted != want:
                    fails.append({"clause": "posts-flat-pair", "render": i, "expected": want, "observed": posted,
                                  "markup": res["out"], "type": dict((k, v.get("v")) for k, v in r["kwargs"]).get("type")})
            elif role in ("check", "option"):
                lit = r.get("lit")
                import flatland
                is_checkbox = dict((k, v.get("v")) for k, v in r["kwargs"]).get("type") == "checkbox"
                if lit is None and isinstance(el, flatland.Boolean) and is_checkbox:
                    lit = el.true          # documented: the missing value= is added from Boolean.true
                if lit is None:
                    continue       # a checkbox/radio without any value: outside "their literal value matches"
                if isinstance(el, flatland.Array):
                    strip = el.member_schema.strip
                    want_on = any(m.value == (lit.strip() if strip else lit) for m in el)
                else:
                    want_on = (lit == el.u)
                if role == "option":
                    select_name = None
                    if r.get("within") is not None:
                        sp = results[r["within"]]["parsed"]
                        if sp is not None:
                            select_name = dict((k, v) for k, v in sp["attrs"]).get("name")
                    want = [name, lit] if want_on else None
                    if select_name != name:
                        fails.append({"clause": "select-name", "render": i, "expected": name, "observed": select_name})
                else:
                    want = [name, lit] if want_on else None
                if posted != want:
                    fails.append({"clause": "checked-iff-matches", "render": i, "expected": want, "observed": posted,
                                  "markup": res["out"]})
            elif role == "label":
                ctl = results[r["pair"]]
                if ctl["parsed"] is None:
                    continue
                if res.get("for") != ctl.get("id"):
                    fails.append({"clause": "label-targets-control", "render": i, "expected": ctl.get("id"), "observed": res.get("for"),
                                  "markup": [ctl["out"], res["out"]]})
        if case.get("form_mode"):
            # closing the loop with C01: what the browser posts rebuilds the element's own flat pairs
            # (relative to from_flat(flatten()), so that C01's pruning findings do not leak into this check)
            want = type(root).from_flat(root.flatten()).flatten()
            got = type(root).from_flat(posted_pairs).flatten()
            if got != want:
                fails.append({"clause": "form-roundtrip", "expected": [list(p) for p in want], "observed": [list(p) for p in got],
                              "posted": [list(p) for p in posted_pairs]})
        return fails

    def classify(self, case, failure):
        fid = self._classify_a(case, failure)
        return fid or self._classify_b(case, failure)

    def _classify_b(self, case, failure):
        """KF-C12-b: an <option> whose value comes from contents= is compared as the markup it was given, not as the
        text a browser reads from it.  Class: option render without value=, contents (stripped) differ from their
        character-reference-decoded form, and the observed selection is exactly `contents.strip() == u`."""
        if failure.get("clause") != "checked-iff-matches" or not isinstance(failure.get("render"), int):
            return None
        r = case["renders"][failure["render"]]
        kw = dict((k, v) for k, v in r["kwargs"])
        if r["tag"] != "option" or "value" in kw or "contents" not in kw or kw["contents"]["t"] not in ("s", "m"):
            return None
        raw = kw["contents"]["v"].strip()
        if html.unescape(raw) == raw:
            return None
        # what the code is known to do: select iff the markup text equals u
        u = self._bind_u(case, r)
        if u is None:
            return None
        code_selects = (raw == u)
        observed_selected = failure.get("observed") is not None
        return "KF-C12-b" if code_selects == observed_selected else None

    def _bind_u(self, case, r):
        node = case["tree"]
        for i in r["sel"] or []:
            if node["t"] == "dict":
                node = node["fields"][i]
            elif node["t"] == "list":
                node = node["members"][i]
            elif node["t"] == "array":
                return node["members"][i] or ""
        return node.get("u")

    def _classify_a(self, case, failure):
        """KF-C12-a: an <input> of type password/file/image without a tag-level auto_value 'on' does not carry the
        element's text (documented: 'No value is added unless forced')."""
        if failure.get("clause") != "posts-flat-pair" or not isinstance(failure.get("render"), int):
            return None
        r = case["renders"][failure["render"]]
        kw = dict((k, v) for k, v in r["kwargs"])
        ty = kw.get("type", {}).get("v")
        if r["tag"] != "input" or not isinstance(ty, str) or ty not in SECRET:
            return None
        av = kw.get("auto_value")
        forced = av is not None and (av.get("v") is True or (isinstance(av.get("v"), str) and av["v"].lower() in ("1", "true", "t", "on", "yes")))
        if forced:
            return None
        exp, obs = failure.get("expected"), failure.get("observed")
        if obs is not None and exp is not None and obs[0] == exp[0] and obs[1] == "":
            return "KF-C12-a"
        return None

    # ------------------------------------------------------------------ coverage
    def nontrivial(self, case, obs):
        return any(r.get("posted") for r in obs["renders"]) or any(r["role"] in ("check", "option") for r in case["renders"])

    def tags(self, case, obs):
        t = ["renders=%d" % min(len(case["renders"]), 12), "form=%s" % bool(case.get("form_mode"))]
        depth = 0

        def d(n, k=0):
            nonlocal depth
            depth = max(depth, k)
            for c in n.get("fields", []) + (n.get("members", []) if n["t"] == "list" else []):
                d(c, k + 1)
        d(case["tree"])
        t.append("depth=%d" % depth)
        for r, o in zip(case["renders"], obs["renders"]):
            kw = dict((k, v) for k, v in r["kwargs"])
            ty = kw.get("type", {}).get("v", "") if r["tag"] == "input" else ""
            t.append("ctl=%s%s" % (r["tag"], ":" + str(ty).lower() if r["tag"] == "input" else ""))
            t.append("role=%s" % r["role"])
            t.append("posted" if o.get("posted") else "not-posted")
            if o.get("bind") and "_" in (o["bind"]["name"] or ""):
                t.append("nested-name")
            if o.get("err"):
                t.append("err=%s" % o["err"])
        return sorted(set(t))

    # ------------------------------------------------------------------ shrinking
    def shrink_candidates(self, case):
        rs = case["renders"]
        for i in range(len(rs)):
            # keep indexes of pairs / selects valid
            if any(r.get("pair") == i or r.get("within") == i for r in rs):
                continue
            c = copy.deepcopy(case)
            del c["renders"][i]
            for r in c["renders"]:
                for key in ("pair", "within"):
                    if r.get(key) is not None and r[key] > i:
                        r[key] -= 1
            yield c
        for i in range(len(case["settings"])):
            c = copy.deepcopy(case)
            del c["settings"][i]
            yield c
        if case.get("form_mode"):
            c = copy.deepcopy(case)
            c["form_mode"] = False
            for r in c["renders"]:
                r["form"] = False
            yield c
        if case["markup"] != "xhtml":
            c = copy.deepcopy(case)
            c["markup"] = "xhtml"
            yield c


PROP = C12()
