"""C08 — The element tree stays a tree: parent, children, root and path agree."""
import itertools

from harness.core import Property, canon
from harness.props import g1common as G


# ---------------------------------------------------------------- observation

def view(ex, info):
    els = [e for e, _ in ex.reach()]
    rows = []
    from flatland.schema.base import Element
    for e in els:
        if not isinstance(e, Element):
            rows.append([ex.lab(e), [], None, ["raw:" + type(e).__name__]])
            continue
        rows.append([ex.lab(e), [ex.lab(p) for p in ex.parents(e)], ex.lab(e.root),
                     [ex.lab(p) for p in itertools.islice(e.path, G.CHAIN_BOUND + 1)]])
    ac = [ex.lab(e) for e in itertools.islice(ex.root.all_children, G.REACH_BOUND)]
    placed = []
    if info.get("target") is not None and info["op"]["op"] in (PLACING_SEQ if info["kind"] == "seq" else ("setitem", "update_items")):
        kids = ex.children(info["target"])
        for tag, v in info.get("args") or []:
            if tag == "elem":
                placed.append(any(c is v for c in kids))
    return {"els": rows, "ac": ac, "placed": placed}


# ---------------------------------------------------------------- oracle

PLACING_SEQ = ("append", "extend", "iadd", "insert", "setitem", "setslice")


def check(ex, info):
    """the five clauses, recomputed from `.children` alone — for EVERY tree the case keeps alive, after every step
    whether the call returned or raised — then the failure-path clauses (G.check_rejected) and placed / removed"""
    fails = []
    for t, root in enumerate(ex.trees()):
        check_tree(ex, info, root, t, fails)
    fails.extend(G.check_rejected(ex, info))
    fails.extend(G.check_sort_failure(ex, info))
    check_call(ex, info, fails)
    return fails


def check_tree(ex, info, root, tree_no, fails):
    """clause (a).  ALIASED elements — handed to a call while they were members of a live tree, so that two
    containers list one object (`b.append(a[1])` does not take a[1] out of a); the property text does not say that
    placing removes, and no parent pointer can designate two holders — are exempt together with what hangs below
    them, until one container lists them again (Exec.heal): for them only the agreement of root / parents / path with
    one another is demanded.  A REJECTED call creates no alias: G.check_rejected demands that it changes nothing."""
    from flatland.schema.base import Slot
    op = info.get("op")

    def fail(clause, expected, observed):
        fails.append({"clause": clause, "expected": expected, "observed": observed, "step": info["i"], "op": op,
                      "tree": tree_no})

    # expected ancestors of every reachable element, from the children structure
    anc = {id(root): []}
    order = [root]
    level = [root]
    seen = {id(root)}
    dup = False
    while level and len(order) < G.REACH_BOUND:
        nxt = []
        for e in level:
            for c in ex.children(e):
                if id(c) in seen:
                    if id(c) not in ex.taint:
                        dup = True
                    continue
                seen.add(id(c))
                anc[id(c)] = [e] + anc[id(e)]
                order.append(c)
                nxt.append(c)
        level = nxt
    if dup:
        fail("children-form-a-tree", "every element under one container, once", "an element is listed twice")
    from flatland.schema.base import Element
    for e in order:
        if not isinstance(e, Element):
            fail("children-are-elements", "Element", type(e).__name__)
            break
        chain = ex.parents(e)
        if ex.taint and (id(e) in ex.taint or any(id(a) in ex.taint for a in anc[id(e)])):
            # aliased: listed by two containers; only self-consistency
            path = list(itertools.islice(e.path, G.CHAIN_BOUND + 1))
            top = chain[-1] if chain else e
            want_path = list(reversed(chain)) + [e]
            if e.root is not top or len(path) != len(want_path) or any(a is not b for a, b in zip(path, want_path)):
                fail("root-parents-path-agree", {"root": ex.lab(top), "path": [ex.lab(x) for x in want_path]},
                     {"root": ex.lab(e.root), "path": [ex.lab(x) for x in path]})
                break
            continue
        visible = [p for p in chain if not isinstance(p, Slot)]
        want = anc[id(e)]
        if len(visible) != len(want) or any(a is not b for a, b in zip(visible, want)):
            fail("parent-chain-leads-to-root", [ex.lab(x) for x in want], [ex.lab(x) for x in chain])
            break
        # a slot on the chain holds exactly the element below it
        prev = e
        ok = True
        for p in chain:
            if isinstance(p, Slot) and getattr(p, "element", None) is not prev:
                ok = False
            prev = p
        if not ok:
            fail("slot-holds-member", "slot.element is the member", "a slot on the chain holds another element")
            break
        if e.root is not root:
            fail("root-is-tree-root", ex.lab(root), ex.lab(e.root))
            break
        path = list(itertools.islice(e.path, G.CHAIN_BOUND + 1))
        if not path or path[0] is not root or path[-1] is not e:
            fail("path-from-root-to-self", [ex.lab(root), "...", ex.lab(e)], [ex.lab(x) for x in path])
            break
        # root, parents and path agree with one another — by identity, whatever the truthiness of the holders
        top = chain[-1] if chain else e
        want_path = list(reversed(chain)) + [e]
        if e.root is not top or len(path) != len(want_path) or any(a is not b for a, b in zip(path, want_path)):
            fail("root-parents-path-agree", {"root": ex.lab(top), "path": [ex.lab(x) for x in want_path]},
                 {"root": ex.lab(e.root), "path": [ex.lab(x) for x in path]})
            break
    ac = list(itertools.islice(root.all_children, G.REACH_BOUND))
    want = order[1:]
    if len(ac) != len(want) or any(a is not b for a, b in zip(ac, want)):
        fail("all_children-breadth-first-once", [ex.lab(x) for x in want], [ex.lab(x) for x in ac])


def check_call(ex, info, fails):
    from flatland.schema.base import Slot, Element
    op = info.get("op")
    root = ex.root

    def fail(clause, expected, observed):
        fails.append({"clause": clause, "expected": expected, "observed": observed, "step": info["i"], "op": op})

    # detached elements (popped / deleted / replaced members waiting in the pool): C08 promises nothing about where
    # their stale parent pointer leads — only that they are unreachable — but reading them must work and root, parents
    # and path must agree with one another (a popped List member's root is its orphaned ListSlot)
    for e in ex.pool:
        if not isinstance(e, Element):
            continue
        try:
            chain = ex.parents(e)
            path = list(itertools.islice(e.path, G.CHAIN_BOUND + 1))
            top = chain[-1] if chain else e
            want_path = list(reversed(chain)) + [e]
            if e.root is not top or len(path) != len(want_path) or any(a is not b for a, b in zip(path, want_path)):
                fail("detached-root-parents-path-agree", "root is the end of the parent chain, path is the chain reversed",
                     "they disagree")
                break
        except Exception as exc:
            if type(exc).__name__ == "CaseTimeout":
                raise
            fail("detached-readable", "root / parents / path can be read", type(exc).__name__)
            break
    # removed elements are unreachable from the container, placed ones are children of it
    target = info.get("target")
    if target is not None and info.get("raised") is None:
        now = ex.children(target)
        below = {id(e) for e, _ in ex.reach(target)}
        ret = info.get("ret")
        if op["op"] == "pop" and isinstance(ret, tuple):
            r = ret[1]
            r = getattr(r, "element", r) if isinstance(r, Slot) else r
            if id(r) in below and id(r) not in info.get("tainted", ()):      # (an aliased element may be listed once more)
                fail("removed-is-unreachable", "popped element not under the container", "still reachable")
        for old in info.get("before_children") or []:
            if id(old) in info.get("tainted", ()):
                continue        # aliased: another container below the target may list it too
            if not any(c is old for c in now) and id(old) in below:
                fail("removed-is-unreachable", "removed element not under the container", "still reachable")
                break
        placing = (info["kind"] == "seq" and op["op"] in PLACING_SEQ) or \
                  (info["kind"] == "map" and op["op"] in ("setitem", "update_items")
                   and G.kind_of_element(target) == "sparse")
        if placing:
            if info["kind"] == "map":
                ks = [op["k"]] if op["op"] == "setitem" else [k for k, _ in op["items"]]
                last = {}
                for k, a in zip(ks, info.get("args") or []):
                    last[k] = a        # a later value for the same key replaces an earlier one
                todo = [(k, a) for k, a in last.items()]
            else:
                todo = [(None, a) for a in info.get("args") or []]
            for k, (tag, v) in todo:
                if tag != "elem":
                    continue
                if info["kind"] == "map" and not isinstance(v, ex.needed_schema(target, k)):
                    continue
                if not any(c is v for c in now):
                    fail("placed-is-child", "argument among the container's children", "absent")
                    break
                vis = [p for p in ex.parents(v) if not isinstance(p, Slot)]
                if not vis or vis[0] is not target:
                    fail("placed-is-child", "argument's parent is the container", ex.lab(vis[0]) if vis else None)
                    break


# ---------------------------------------------------------------- the property

FAILURE_PATH_SHARE = 0.3
SORT_FAILURE_SHARE = 0.04


def _sc(cid, k, name=None, default=None, opt=False):
    return {"cid": cid, "k": k, "name": name, "opt": opt, "policy": "subset", "minreq": False, "isa": [],
            "default": default, "subs": []}


def _cont(cid, k, subs, name=None, default=None, policy="subset", minreq=False):
    return {"cid": cid, "k": k, "name": name, "opt": False, "policy": policy, "minreq": minreq, "isa": [],
            "default": default, "subs": subs}


class C08(Property):
    id = "C08"
    title = "The element tree stays a tree: parent, children, root and path agree"
    proof_module = "Proofs.C08Rejected"
    theorems = [
        "Flatland.C08.Proofs.c08_full",
        "Flatland.C08.Proofs.inv_init",
        "Flatland.C08.Proofs.treeinv_of_wp",
        "Flatland.C08.Proofs.navinv_of_wp",
        "Flatland.C08.Proofs.stepAt_wp",
        "Flatland.C08.Proofs.hrun_treeinv",
        "Flatland.C08.Proofs.seqStep_wp_all",
        "Flatland.C08.Proofs.mapStep_wp",
        "Flatland.C08.Proofs.setNode_wp",
        "Flatland.C08.Proofs.setDefault_wp",
        "Flatland.C08.Proofs.fromDefaults_wp",
        # identity uniqueness is an invariant, not a hypothesis
        "Flatland.C08.Proofs.hstep_idinv",
        "Flatland.C08.Proofs.hrun_idinv",
        "Flatland.C08.Proofs.idinv_init",
        "Flatland.C08.Proofs.seqStep_ls",
        "Flatland.C08.Proofs.mapStep_ls",
        "Flatland.C08.Proofs.stepAt_ls",
        # the tree clauses along histories
        "Flatland.C08.Proofs.c08_tree_inv",
        "Flatland.C08.Proofs.treeok_init",
        "Flatland.C08.Proofs.navinv_hrun",
        "Flatland.C08.Proofs.allChildren_spec",
        "Flatland.C08.Proofs.allChildren_hrun",
        "Flatland.C08.Proofs.removed_unreachable",
        "Flatland.C08.Proofs.nodeStep_removed",
        "Flatland.C08.Proofs.detached_unreachable",
        "Flatland.C08.Proofs.seqStep_det",
        "Flatland.C08.Proofs.mapStep_det",
        "Flatland.C08.Proofs.placed_is_child",
        "Flatland.C08.Proofs.nodeStep_placed",
        "Flatland.C08.Proofs.seqStep_placed",
        "Flatland.C08.Proofs.mapSetItem_placed",
        "Flatland.C08.Proofs.mapUpdateArgs_placed",
        # failure paths: a rejected call of the model changes nothing (round h8)
        "Flatland.C08.Proofs.rejected_step_unchanged",
        "Flatland.C08.Proofs.rejected_node_unchanged",
        "Flatland.C08.Proofs.rejected_seq_unchanged",
        "Flatland.C08.Proofs.rejected_map_unchanged",
        "Flatland.C08.Proofs.keyed_sort_only_refuses",   # round m1: the model's keyed sort sorts or declines, it never raises
        "Flatland.C08.Proofs.keyed_sort_sorts",
        "Flatland.C08.Proofs.extend_keeps_prefix",
        "Flatland.C08.Proofs.setitem_plain_sets_in_place",
        # the added hypotheses are needed (negation witnesses on the model)
        "Flatland.C08.Proofs.uniqueIds_needs_keys",
        "Flatland.C08.Proofs.uniqueIds_needs_below",
        "Flatland.C08.Proofs.uniqueIds_needs_fresh",
    ]
    level_text = "proof (all clauses, for the calls and histories of the model; flat / Compound routes oracle-only)"
    level_note = ("THEOREMS, for every list-protocol and dict-protocol call of the model (plain values wrapped by any member "
                  "schema, Element arguments, set, set_default, *=, clear, sort, slices incl. extended ones; item assignment, "
                  "update/|= incl. Element values, del, pop, clear, setdefault, set under every policy) applied to any element "
                  "of a tree of any depth, and for histories of such calls: c08_tree_inv — from a state that is well-parented, "
                  "has a parentless root, unique identities below the allocation counter and unique keys (TreeOK; treeok_init: "
                  "every construction route of the model yields one), with Element arguments that are internally "
                  "well-parented and fresh (HistOK: not in the tree at the time of the call, not twice among the arguments, "
                  "allocated below the counter), every reached state is TreeOK again; hstep_idinv / hrun_idinv — identity "
                  "uniqueness is PRESERVED (it was a hypothesis before); navinv_hrun — parents / root / path of every node are "
                  "its holders, the tree root, the way from the root, for every walk bound >= depth, along histories with no "
                  "uniqueness hypothesis; allChildren_spec / allChildren_hrun — all_children (the deque loop with its seen "
                  "set) is the level-order list of the proper descendants, identities pairwise distinct, the root not among "
                  "them, membership <-> reachable through children and not the root; removed_unreachable — a child of the "
                  "target container before a call that is not a child of it afterwards occurs nowhere in the tree afterwards "
                  "(the oracle's clause, for every call, raising or not: pop, del, remove, slice deletion, clear, replacement "
                  "by item/slice assignment, set rebuilding members, *= 0 are instances); detached_unreachable — the same named "
                  "by the call: what the model reports as having left the container (popped / deleted / replaced / cleared "
                  "members, with everything below them) occurs nowhere in the tree afterwards; placed_is_child — every Element a "
                  "normally returning call stores (all placing sequence calls; SparseDict item assignment / update of an element "
                  "of the declared field class, for update the one given last per key) is afterwards a direct child of the "
                  "target with the same identity and subtree, its stored parent pointer designating the container (through a "
                  "slot that the List lists and that points to the List). HYPOTHESES beyond the property text, each with a "
                  "negation witness (see below). FAILURE PATHS (round h8): rejected_step_unchanged — a call of the model on a rejection "
                  "route (seqAtomic / mapAtomic: everything but extend/+=/*=/update/|=/set/set_default, "
                  "an in-place `lst[i] = plain` with a valid index, assignment of a present/declared key, and EVERY sort, key-less or keyed; "
                  "witnesses extend_keeps_prefix, setitem_plain_sets_in_place) that raises returns the WHOLE tree as it was — "
                  "structure, identities, stored parents, slot names — and reports nothing as detached; tied to the code by the "
                  "rejected calls with plain / fresh / pooled arguments in the compared histories and, for live arguments "
                  "(members of a live tree handed in: aliasing, not representable in the model), by the oracle clause "
                  "rejected-changes-nothing on every kept tree. SORT (round m1): sort is on NO rejection route of the theorems — the model's keyed sort "
                  "either sorts (sortGate) or answers `.unsupported`, which is the model declining, not a statement about the code "
                  "(keyed_sort_only_refuses); the code has two raising paths: the KEY FUNCTION raises (CPython restores the list: oracle route "
                  "sort-key, rejected-changes-nothing) and a COMPARISON raises / the list is modified during the sort (CPython leaves the list "
                  "REARRANGED: not a rejection; the oracle demands sort-keeps-members = the same element objects in some order, "
                  "sort-slots-named-by-position, sort-member-parents-agree plus the five tree clauses — the defect repaired by 9873cdc "
                  "violated the second). What the repair establishes is proved for the model's `renumber` in Proofs/C09SortFailure.lean "
                  "(sort_failure_any_permutation_dps: for EVERY permutation of the slots). Hypotheses: keys unique in every mapping node and mapping class (kok, decidable, preserved: the "
                  "model's dict assignment overwrites every child under the key — uniqueIds_needs_keys), arguments below the "
                  "counter (uniqueIds_needs_below), no aliasing (uniqueIds_needs_fresh). ORACLE ONLY: set_flat/from_flat/"
                  "from_object routes; Compound/JoinedString nodes; model paths answering `unsupported`")
    technique = "invariant + frame-rule proof (Lean 4) + differential testing with identity labels against the implementation"
    trusted_base = [
        "Python object identity and attribute stores modelled as nodes with unique ids and a stored parent id",
        "CPython list/dict semantics as in lean/Flatland/PyList.lean (shared with C09/C10)",
    ]
    assumptions = [
        "LIVE Element arguments (round h8, oracle only): a current member of the same container, of another container or of "
        "a second tree the case keeps alive is handed to item / slice assignment, insert, append, extend, +=, update, |=. "
        "A REJECTED call must change nothing on any kept tree (rejected-changes-nothing; the unchanged library violates "
        "it on the routes of KF-C08-b). A SUCCESSFUL one makes the element a child of the target (placed-is-child); the "
        "library does not take it out of its old container (`b.append(a[1])` leaves a[1] listed by a, its parent pointing "
        "into b): the property text neither says that placing removes nor can a parent pointer designate two holders, so "
        "for such ALIASED elements and what hangs below them only the agreement of root / parents / path with one another "
        "is asserted until one container lists them again (Exec.heal); every other element of every kept tree is under "
        "the full clauses",
        "Element arguments of the THEOREMS are fresh or detached elements; an Element that is already in the tree handed in again "
        "(`l.append(l[0])`) is aliasing that no tree can represent and is outside the quantifier: the theorems state it "
        "as `ArgsFresh` (identities of the placed arguments disjoint from the tree and from one another, below the "
        "allocation counter) and `ArgWP` (internally well-parented); uniqueness of identities is then a proved invariant",
        "keys are unique in every mapping node and every mapping class of the tree and of the arguments (`kok`; holds for "
        "everything the model constructs from a class with distinct field names, and is preserved by every call)",
        "set_flat / from_flat / Dict.from_object construction routes are generated and checked by the Python oracle "
        "only (no Lean model of the flat-key parser here; it belongs to C01/C02)",
        "removed elements: C08 promises that they are unreachable from the container; their own parent pointer may be "
        "stale (Array.pop / del / SparseDict.pop leave it; List.pop clears the slot's, so a popped member's root is its "
        "orphaned ListSlot). They are observed (read) at random points and their root / parents / path must agree with "
        "one another",
        "sort keys of the compared histories range over {u, len(u), len(member), member[first field].u} (total orders; the last two raise inside "
        "the KEY FUNCTION on members they do not apply to: rejection route sort-key).  Sorts whose COMPARISON raises (key = .value over ints "
        "and None, a key object whose `<` raises after k comparisons or appends to the list being sorted) are generated in 4 % of the cases, "
        "oracle only: no theorem covers them (the model cannot fail inside a comparison); CPython's behaviour — the list is left in SOME "
        "rearrangement of the same items — is taken as given, the oracle checks that the library is consistent with whatever order resulted",
    ]
    rule = ("schemas nested up to 3 deep over List/Array/MultiValue/Dict/SparseDict/Integer/String with defaults, 30 % of "
            "them also with DateYYYYMMDD compounds (blank / valid / unparseable / made unparseable part by part) and "
            "JoinedStrings (prune_empty on/off, empty members) as fields and members — holders that are falsy while "
            "they have members (oracle only); a "
            "construction route (constructor, constructor with value, set, set_default, from_defaults; set_flat/"
            "from_flat oracle-only) followed by 1-20 container calls, each aimed at the t-th reachable container "
            "(sequence op or mapping op according to its kind), with plain values, fresh Elements and Elements "
            "detached by earlier calls or owned by another container; cases the Lean model does not cover (flat routes, "
            "model paths answering unsupported) are marked oracle-only before the run and are not counted as validated "
            "traces (tag model=oracle-only); Reading is part of the history: Element arguments (fresh, foreign-owned, pooled, populated subtrees) have root/path/parents/fq_name READ before they are handed over in half of the cases, and 'observe' steps read every reachable and every detached element; 15 % of nested mapping classes are derived from an already used parent class with another field list. 30 % of the histories (tag fp:case, oracle only) exercise FAILURE / RECOVERY paths: a second tree of the root class kept alive (75 %), a third of the calls aimed at it, live members of either tree (same container / another container / other tree; 10 % of any class) as arguments of item and slice assignment, insert, append, extend, +=, mapping item assignment and update, rejected calls (out-of-range and non-integer indexes, extended-slice size mismatches, items the member schema rejects, undeclared keys, a sort key FUNCTION that raises) with plain, fresh, pooled and live arguments, each followed by the full observation of every kept tree and by calls that succeed; 4 % of the cases (tag sortfail:case, oracle only) are built around sorts whose COMPARISON raises (g1common.gen_sort_failure_case: Lists / Arrays / MultiValues of 2-8 Integer members mixing ints and unadapted text, nested Lists, Lists inside Dicts; keys value / cmp-raise / cmp-mutate, with and without reverse; then observe, append, a renumbering call, observe); non-trivial = the tree has at least 4 elements at some point and at least 3 "
            "calls changed it")
    quick_n = 30000
    thorough_n = 250000

    # cases are tiny (< 10 ms); the alarm only guards against a genuine hang (e.g. a cycle of parent pointers).
    # 10 s proved too tight on a shared, oversubscribed machine: thorough runs saw spurious alarms on cases
    # that replay in 0.1 s.
    case_timeout = 60

    def __init__(self):
        self._cache = (None, None)

    def corpus(self):
        I = _sc(2, "integer")
        out = []
        # fixed 212ef73: a[1] = element left el.parent None
        out.append({"schema": _cont(1, "array", [I]), "init": {"route": "ctor_value", "value": {"l": [1, 2, 3]}},
                    "ops": [{"t": 0, "s": {"op": "setitem", "i": 1, "a": {"new": 9}}}]})
        # List of Dicts: pop, re-insert the popped member, slice-assign, delete
        D = _cont(2, "dict", [_sc(3, "integer", "x"), _cont(4, "list", [_sc(5, "string")], name="y")])
        out.append({"schema": _cont(1, "list", [D]),
                    "init": {"route": "ctor_value", "value": {"l": [{"d": [["x", 1], ["y", {"l": ["a", "b"]}]]},
                                                                  {"d": [["x", 2], ["y", {"l": []}]]}]}},
                    "ops": [{"t": 0, "s": {"op": "pop", "i": 0}}, {"t": 0, "s": {"op": "append", "a": {"pool": 0}}},
                            {"t": 2, "s": {"op": "setslice", "sl": [0, 1, None], "as": [{"v": "q"}, {"new": "r"}]}},
                            {"t": 0, "s": {"op": "delitem", "i": 0}}, {"t": 0, "s": {"op": "insert", "i": 0, "a": {"pool": 0}}},
                            {"t": 1, "m": {"op": "set", "v": {"d": [["x", 5], ["y", {"l": ["z"]}]]}}}]})
        S = _cont(1, "sparse", [_sc(2, "integer", "a"), _cont(3, "array", [_sc(4, "string")], name="b")], minreq=True)
        out.append({"schema": S, "init": {"route": "from_defaults", "value": None},
                    "ops": [{"t": 0, "m": {"op": "setitem", "k": "b", "a": {"new": {"l": ["x", "y"]}}}},
                            {"t": 0, "m": {"op": "pop", "k": "b"}}, {"t": 0, "m": {"op": "setitem", "k": "b", "a": {"pool": 0}}},
                            {"t": 0, "m": {"op": "clear"}}]})
        # falsy holders (Scalar.__bool__): a DateYYYYMMDD that is blank / made unparseable by setting one part, and a
        # JoinedString (prune_empty=False) whose joined text is empty, with members below them (seeded mutation
        # C08-root-walk-truthiness: `root` walking `while element.parent:`)
        date = {"cid": 3, "k": "date", "name": "when", "opt": False, "policy": "subset", "minreq": False, "isa": [],
                "default": None, "subs": [_sc(4, "integer", "year"), _sc(5, "integer", "month"), _sc(6, "integer", "day")]}
        csv = {"cid": 8, "k": "joined", "name": "csv", "opt": False, "policy": "subset", "minreq": False, "isa": [],
               "default": None, "prune": False, "subs": [_sc(9, "string")]}
        form = _cont(1, "dict", [_sc(2, "string", "title"), date, _cont(7, "list", [csv], name="tags")], name="form")
        out.append({"schema": form, "nomodel": True,
                    "init": {"route": "ctor_value", "value": {"d": [["title", "launch"], ["when", "2024-02-29"],
                                                                      ["tags", {"l": ["a,b", "c"]}]]}},
                    "ops": [{"t": 1, "m": {"op": "setitem", "k": "month", "a": {"v": 13}}},
                            {"t": 2, "s": {"op": "append", "a": {"v": {"l": [""]}}}},
                            {"t": 1, "m": {"op": "setitem", "k": "month", "a": {"v": 2}}}]})
        out.append({"schema": form, "nomodel": True, "init": {"route": "from_flat", "pairs": [["form_title", "x"]]},
                    "ops": [{"t": 2, "s": {"op": "append", "a": {"v": {"l": ["", ""]}}}}]})
        # reading is part of the history (seeded mutation C14-root-lazy-property: `root` computed once and kept):
        # an Element argument whose root / path / parents / fq_name are READ before it is appended, a populated subtree
        # built separately, read, and then grafted into a bigger tree, reads at random points in between
        inner = _cont(2, "dict", [_sc(3, "integer", "x"), _cont(4, "list", [_sc(5, "string")], name="y")])
        out.append({"schema": _cont(1, "list", [inner]), "init": {"route": "ctor", "value": None},
                    "ops": [{"t": 0, "s": {"op": "append", "a": {"new": {"d": [["x", 1], ["y", {"l": ["a", "b"]}]]}, "touch": True}}},
                            {"t": 0, "s": {"op": "observe"}, "m": {"op": "observe"}},
                            {"t": 0, "s": {"op": "insert", "i": 0, "a": {"new": {"d": [["x", 2], ["y", {"l": []}]]}, "touch": True, "foreign": True}}},
                            {"t": 2, "s": {"op": "append", "a": {"new": "q", "touch": True}}, "m": {"op": "observe"}},
                            {"t": 0, "s": {"op": "pop", "i": 0}}, {"t": 0, "s": {"op": "observe"}},
                            {"t": 0, "s": {"op": "append", "a": {"pool": 0, "touch": True}}}]})
        # failure paths (round h8; oracle only).  Seeded mutation C08-setitem-reparents-before-index-check: a REJECTED
        # `dst[9] = src[1]` / `dst['1'] = src[1]` (dst a List of the second tree, src the main List; then inside ONE
        # list) must leave both trees as they were; the history goes on with calls that succeed
        nums = _cont(1, "list", [_sc(2, "integer", "n")], name="numbers")
        lv = lambda tree, k, where="any": {"live": {"tree": tree, "k": k, "where": where}}
        out.append({"schema": nums, "nomodel": True, "aux": [{"value": {"l": [10, 20]}}],
                    "init": {"route": "ctor_value", "value": {"l": [1, 2, 3]}},
                    "ops": [{"t": 0, "tt": 1, "s": {"op": "setitem", "i": 1, "a": {"new": 99}}},
                            {"t": 0, "tt": 1, "s": {"op": "setitem", "i": 7, "a": lv(0, 0)}},
                            {"t": 0, "tt": 1, "s": {"op": "setitem", "i": 1, "ix": "str", "a": lv(0, 1)}},
                            {"t": 0, "s": {"op": "setitem", "i": 9, "a": lv(0, 1, "same")}},
                            {"t": 0, "s": {"op": "setitem", "i": -9, "a": {"new": 5, "touch": True}}},
                            {"t": 0, "s": {"op": "sort", "key": "raise", "rev": False}},
                            {"t": 0, "s": {"op": "append", "a": {"v": 4}}},
                            {"t": 0, "tt": 1, "s": {"op": "pop", "i": 0}},
                            {"t": 0, "s": {"op": "observe"}}]})
        # open KF-C08-b: rejected placements that re-parent a live argument on the UNCHANGED library — Array item
        # assignment out of range, insert with an index that is no integer (Array and List), extended-slice size mismatch
        arr = _cont(1, "array", [_sc(2, "integer", "n")], name="arr")
        out.append({"schema": arr, "nomodel": True, "aux": [{"value": {"l": [10, 20]}}],
                    "init": {"route": "ctor_value", "value": {"l": [1, 2, 3]}},
                    "ops": [{"t": 0, "tt": 1, "s": {"op": "setitem", "i": 9, "a": lv(0, 1)}},
                            {"t": 0, "s": {"op": "append", "a": {"v": 4}}}]})
        out.append({"schema": arr, "nomodel": True, "aux": [{"value": {"l": [10, 20]}}],
                    "init": {"route": "ctor_value", "value": {"l": [1, 2, 3]}},
                    "ops": [{"t": 0, "tt": 1, "s": {"op": "insert", "i": 0, "ix": "str", "a": lv(0, 1)}}]})
        out.append({"schema": nums, "nomodel": True, "aux": [{"value": {"l": [10, 20, 30, 40]}}],
                    "init": {"route": "ctor_value", "value": {"l": [1, 2, 3]}},
                    "ops": [{"t": 0, "tt": 1, "s": {"op": "insert", "i": 0, "ix": "none", "a": lv(0, 1)}},
                            {"t": 0, "tt": 1, "s": {"op": "setslice", "sl": [None, None, 2], "as": [lv(0, 2)]}},
                            {"t": 0, "s": {"op": "append", "a": {"v": 4}}}]})
        # a SUCCESSFUL move of a live member (aliasing: the old List still lists it), then it is taken out of the old
        # List (one holder again: the full clauses apply), and a rejected mapping assignment with a live argument
        out.append({"schema": nums, "nomodel": True, "aux": [{"value": {"l": [10, 20]}}],
                    "init": {"route": "ctor_value", "value": {"l": [1, 2, 3]}},
                    "ops": [{"t": 0, "tt": 1, "s": {"op": "append", "a": lv(0, 1)}},
                            {"t": 0, "s": {"op": "delitem", "i": 1}},
                            {"t": 0, "tt": 1, "s": {"op": "reverse"}},
                            {"t": 0, "s": {"op": "extend", "as": [lv(1, 0), {"v": 7}]}},
                            {"t": 0, "s": {"op": "observe"}}]})
        sp = _cont(1, "sparse", [_sc(2, "integer", "a"), _sc(3, "integer", "b")])
        out.append({"schema": sp, "nomodel": True, "aux": [{"value": {"d": [["a", 5]]}}],
                    "init": {"route": "ctor_value", "value": {"d": [["a", 1]]}},
                    "ops": [{"t": 0, "tt": 1, "m": {"op": "setitem", "k": "zz", "a": lv(0, 0)}},
                            {"t": 0, "tt": 1, "m": {"op": "update_items", "form": "pairs", "items": [["a", lv(0, 0)], ["zz", {"v": 3}]]}},
                            {"t": 0, "m": {"op": "setdefault", "k": "q", "d": 1}},
                            {"t": 0, "m": {"op": "setitem", "k": "b", "a": {"v": 2}}}]})
        # round m1 (defect repaired by 9873cdc): `[3, 1, 2, None, 0].sort(key=lambda e: e.value)` raises TypeError inside a
        # COMPARISON; CPython leaves the slots rearranged ([1, 2, 3, None, 0]) and the old List.sort skipped _renumber():
        # slot names / flatten() keys / fq_name() stayed those of the old positions.  Not a rejection route: the order
        # changes; members are a permutation, slots are named by CURRENT position, parents / root / path agree — then an
        # append (no renumbering) and a renumbering call.  Also a key object whose `<` raises after 2 comparisons, on a
        # nested List, and one that appends to the list being sorted (ValueError: list modified during sort)
        out.append({"schema": nums, "nomodel": True, "init": {"route": "ctor_value", "value": {"l": [3, 1, 2, None, 0]}},
                    "ops": [{"t": 0, "s": {"op": "sort", "key": "value", "rev": False}},
                            {"t": 0, "s": {"op": "observe"}},
                            {"t": 0, "s": {"op": "append", "a": {"v": 4}}},
                            {"t": 0, "s": {"op": "sort", "key": "value", "rev": True}},
                            {"t": 0, "s": {"op": "insert", "i": 0, "a": {"v": 9}}},
                            {"t": 0, "s": {"op": "observe"}}]})
        lol = _cont(1, "list", [_cont(2, "list", [_sc(3, "integer", "n")], name="m")], name="l")
        out.append({"schema": lol, "nomodel": True,
                    "init": {"route": "ctor_value", "value": {"l": [{"l": [5, 4, 3, 2, 1]}, {"l": [1, None]}, {"l": [1, 0]}]}},
                    "ops": [{"t": 1, "s": {"op": "sort", "key": "cmp-raise", "after": 2, "rev": False}},
                            {"t": 0, "s": {"op": "sort", "key": "value", "rev": False}},
                            {"t": 1, "s": {"op": "sort", "key": "cmp-mutate", "after": 1, "v": 7, "rev": True}},
                            {"t": 0, "s": {"op": "append", "a": {"v": {"l": [8]}}}},
                            {"t": 0, "s": {"op": "reverse"}},
                            {"t": 0, "s": {"op": "observe"}}]})
        # oracle-only construction routes
        out.append({"schema": _cont(1, "list", [_cont(2, "dict", [_sc(3, "integer", "x")])], name="l"),
                    "init": {"route": "from_flat", "pairs": [["l_0_x", "1"], ["l_2_x", "2"], ["l_1_x", "z"]]},
                    "ops": [{"t": 0, "s": {"op": "reverse"}}], "nomodel": True})
        extra = []
        try:
            import json as _json, os as _os
            _p = _os.path.join(_os.path.dirname(__file__), 'c08_corpus.json')
            if _os.path.exists(_p):
                extra = _json.load(open(_p))
        except Exception:
            extra = []
        return extra + out

    def has_model(self, case):
        return not case.get("nomodel")

    def generate(self, rng, n, tier):
        yield from G.mark_unmodelled(self, list(self._generate(rng, n, tier)))

    def _generate(self, rng, n, tier):
        for _ in range(n):
            if rng.random() < SORT_FAILURE_SHARE:
                # a keyed sort whose COMPARISON raises (round m1, oracle only): the list is left rearranged
                yield G.gen_sort_failure_case(rng)
                continue
            cid = G.Counter()
            depth = rng.choice([1, 2, 2, 3, 3])
            falsy = rng.random() < 0.3      # trees with Compound / JoinedString nodes (falsy containers with members)
            schema = G.gen_schema(rng, cid, depth, name=rng.choice([None, "r"]),
                                  kinds=["list", "list", "dict", "sparse", "dict", "date", "joined", "integer", "string"]
                                  if falsy else ["list", "list", "array", "multi", "dict", "sparse"])
            if falsy and schema["k"] in ("integer", "string"):
                schema = G.gen_schema(rng, cid, 1, name="r", kinds=["date", "joined"])
            hostile = rng.random() < 0.15
            r = rng.random()
            case = {"schema": schema}
            if r < 0.03 and schema["k"] in ("dict", "sparse"):
                # Dict.from_object(obj): oracle only
                case["nomodel"] = True
                case["init"] = {"route": "from_object", "value": G.gen_value(rng, dict(schema, k="dict"), valid=True)}
                if "p" in case["init"]["value"]:
                    case["init"]["value"] = {"d": case["init"]["value"]["p"]}
            elif r < 0.08:
                # flat routes: oracle only
                case["nomodel"] = True
                pairs = []
                names = [s["name"] for s in G.walk_schemas(schema) if s["name"]]
                for _ in range(rng.randint(0, 6)):
                    parts = [rng.choice(names + ["0", "1", "2", "r"]) for _ in range(rng.randint(1, 4))]
                    pairs.append(["_".join(parts), rng.choice(G.STR_POOL)])
                case["init"] = {"route": rng.choice(["from_flat", "set_flat"]), "pairs": pairs}
            else:
                route = rng.choice(["ctor", "ctor_value", "ctor_value", "ctor_value", "set", "set", "from_defaults",
                                    "set_default"])
                case["init"] = {"route": route, "value": G.gen_value(rng, schema, valid=not hostile)}
            conts = [s for s in G.walk_schemas(schema) if s["k"] in G.SEQ_KINDS + G.MAP_KINDS + ("date", "joined")]
            seqs = [s for s in conts if s["k"] in G.SEQ_KINDS + ("joined",)]
            maps = [s for s in conts if s["k"] in G.MAP_KINDS + ("date",)]
            if any(s["k"] in ("date", "joined") for s in conts):
                case["nomodel"] = True      # Compound / JoinedString are not in the Lean model: oracle only
            nops = rng.choice([1, 2, 3, 5, 8, 12, 16, 20])
            ops = []
            flat = bool(case.get("nomodel")) or rng.random() < 0.04
            for _ in range(nops):
                o = {"t": rng.randint(0, 7)}
                # the executor picks the op matching the target's kind; the arguments are shaped for one of the
                # schema's sequences / mappings (the same one is often hit because trees are small)
                if seqs:
                    sq = rng.choice(seqs)
                    o["s"] = G.gen_seq_op(rng, sq["subs"][0], valid=not hostile, seq=sq if flat else None)
                if maps:
                    o["m"] = G.gen_map_op(rng, rng.choice(maps), valid=not hostile, flat=flat)
                ops.append(o)
            case["ops"] = ops
            if G.has_flat(case):
                case["nomodel"] = True
            if rng.random() < FAILURE_PATH_SHARE and schema["k"] in G.SEQ_KINDS + G.MAP_KINDS:
                # failure / recovery paths (oracle only): a second tree, live members as arguments, rejected calls
                G.inject_failure_paths(rng, case, schema, any_class=True)
            yield case

    def _run(self, case):
        key = canon(case)
        if self._cache[0] == key:
            return self._cache[1]
        ex = G.Exec(case, view, check)
        obs = ex.run()
        self._cache = (key, (obs, ex.failures))
        return self._cache[1]

    def run_impl(self, case):
        return self._run(case)[0]

    def oracle(self, case):
        return list(self._run(case)[1])

    def compare(self, impl_obs, model_obs):
        if isinstance(model_obs, dict) and model_obs.get("unsupported"):
            return None
        return super().compare(impl_obs, model_obs)

    def classify(self, case, failure):
        if G.rejected_placement_reparents(case, failure):
            return "KF-C08-b"
        return None

    def nontrivial(self, case, obs):
        if any("view_raises" in st["view"] for st in obs["steps"]):
            return True
        steps = obs["steps"]
        if max(len(s["view"]["els"]) for s in steps) < 4:
            return False
        changed = sum(1 for a, b in zip(steps, steps[1:]) if a["view"]["els"] != b["view"]["els"])
        return changed >= 3

    def tags(self, case, obs):
        if any("view_raises" in st["view"] for st in obs["steps"]):
            return ["view-raises"]
        t = ["model=" + ("oracle-only" if case.get("nomodel") else "compared"), "root=" + case["schema"]["k"], "route=" + case["init"]["route"], "ops=%d" % min(20, len(case["ops"]))]
        steps = obs["steps"]
        t.append("maxsize=%d" % min(30, max(len(s["view"]["els"]) for s in steps)))
        t.append("maxdepth=%d" % max(len(r[1]) for s in steps for r in s["view"]["els"]))
        fps = obs.get("_fp") or [None] * len(steps)
        for idx, (o, st) in enumerate(zip(case["ops"], steps[1:]), 1):
            out = st["out"]
            if isinstance(out, dict) and "skip" in out:
                t.append("skip:" + out["skip"].split(":")[0])
                continue
            for part in ("s", "m"):
                if part in o:
                    tag = "%s:%s" % (part, o[part]["op"])
            if isinstance(out, dict) and "exc" in out:
                t.append("raised:" + out["exc"])
            if st["view"]["placed"]:
                t.append("element-arg:" + ("placed" if all(st["view"]["placed"]) else "not-placed"))
            fp = fps[idx]
            if fp:
                if fp["raised"]:
                    t.append("fp:rejected:%s" % fp["route"] if fp["route"] else "fp:raised-after-effects")
                    if fp["live"]:
                        t.append("fp:live-arg:rejected" if fp["route"] else "fp:live-arg:raised-after-effects")
                    else:
                        t.append("fp:no-live-arg:rejected" if fp["route"] else "fp:no-live-arg:raised-after-effects")
                elif fp["live"]:
                    t.append("fp:live-arg:moved" if fp["moved"] else "fp:live-arg:ok-not-placed")
                    if fp["aliased"]:
                        t.append("fp:live-arg:old-container-still-lists-it")
                if fp["tree"]:
                    t.append("fp:target-in-second-tree")
                if fp["taint"]:
                    t.append("fp:aliased-elements-present")
        for o, st in zip(case["ops"], steps[1:]):
            sp = o.get("s") or {}
            if sp.get("op") == "sort" and sp.get("key") in G.SORT_CMP_FAILS and not (isinstance(st["out"], dict) and "skip" in st["out"]):
                exc = st["out"].get("exc") if isinstance(st["out"], dict) else None
                t.append("sortfail:%s:%s" % (sp["key"], "raised-in-comparison:" + exc if exc else "sorted"))
                if exc:
                    t.append("sortfail:raised" + (":reverse" if sp.get("rev") else ""))
        if G.has_sort_failure(case):
            t.append("sortfail:case")
        if case.get("aux"):
            t.append("fp:second-tree")
        if G.has_failure_paths(case):
            t.append("fp:case")
            # a rejected call followed by a call that changes the tree again
            rej = [i for i, fp in enumerate(fps) if fp and fp["raised"] and fp["route"]]
            if rej and any(a["view"]["els"] != b["view"]["els"] for a, b in zip(steps[rej[0]:], steps[rej[0] + 1:])):
                t.append("fp:rejected-then-changed")
        for o in case["ops"]:
            for part in ("s", "m"):
                if part in o:
                    t.append("gen:%s:%s" % (part, o[part]["op"]))
        return sorted(set(t))

    def shrink_candidates(self, case):
        yield from G.shrink_history(case)


PROP = C08()
