"""Shared by C13 and C14: schema/tree generation, building the real flatland elements, the
concrete path syntax (AST + spelling -> string) and a direct transcription of the documented
path semantics over real elements (used by the oracles only)."""
import copy
import re
import datetime
import itertools

# ------------------------------------------------------------------ names

PLAIN = ["a", "b", "c", "x", "y", "name", "field"]
DIGITS = ["0", "1", "2", "10", "007", "-1", " 1", "1_0", "+1", "٣", "1\n"]
PUNCT = [".", "..", "...", "a/b", "/", "//", "a[0]", "[", "]", "[1:2]", "[:]", "[0]", "a]", "a.b", ".a", "a.",
         "x/..", "../x", ":", "-", "a[b]", "[x]", "a/[x]"]
BACKSLASH_OK = ["\\a", "a\\b", "a\\/b", "a\\[b", "\\\\a", "\\x"]
# a backslash directly before '.' or ']' (emitted doubled by fq_name since b49b3eb)
BACKSLASH_BAD = ["a\\.b", "a\\]b", "\\.", "\\]", "a\\\\.b", "\\.\\.", "x\\]\\."]
BACKSLASH_END = ["a\\", "\\", "a/\\"]
UNICODE = ["é", "名前", "a b", " ", "\n", "a\n", "\t", "\U0001f600", " "]
EMPTY = [""]

ALL_NAMES = PLAIN + DIGITS + PUNCT + BACKSLASH_OK + BACKSLASH_BAD + BACKSLASH_END + UNICODE + EMPTY


def good_name(s):
    """names the path grammar can spell (Spec.GoodName)"""
    return s != "" and not s.endswith("\\")


def c13_bad_name_kind(s):
    """why fq_name cannot address an element of this name; None if it can"""
    if s == "":
        return "empty"
    return None


def pick_name(rng, hostile=0.5, pools=None):
    if rng.random() >= hostile:
        return rng.choice(PLAIN + DIGITS[:3])
    if pools is None:
        pools = [DIGITS, PUNCT, PUNCT, BACKSLASH_OK, BACKSLASH_BAD, BACKSLASH_END, UNICODE, EMPTY]
    return rng.choice(rng.choice(pools))


# ------------------------------------------------------------------ schemas and trees
# schema: {"k": "s|d|c|l|a|m|j", "name": str|None, "fields": [schema] (d), "member": schema (l, a, m)}
# node  : {"id", "k", "name", "kids": [node], "member": schema (l,a,m), "set": bool (c)}

def rand_schema(rng, depth, name, hostile, pools=None, top=False, unnamed=0.12):
    top_level_no_unnamed = False
    r = rng.random()
    if depth <= 0 or (not top and r < 0.25):
        k = "s"
    elif r < 0.55 or top and r < 0.70:
        k = "d"
    elif top and r < 0.92:
        k = "l"
    elif r < 0.75:
        k = "l"
    elif r < 0.82:
        k = "c"
    elif r < 0.88:
        k = "a"
    elif r < 0.94:
        k = "m"
    else:
        k = "j"
    s = {"k": k, "name": name}
    if k == "d":
        n = rng.choice([1, 2, 2, 3, 3, 4])
        names = []
        while len(names) < n:
            nm = pick_name(rng, hostile, pools)
            if nm not in names:
                names.append(nm)
        if not top_level_no_unnamed and rng.random() < unnamed:
            # one UNNAMED field (at most one per Dict: they share the key None), at a random place
            names[rng.randrange(len(names))] = None
        s["fields"] = [rand_schema(rng, depth - 1, nm, hostile, pools, unnamed=unnamed) for nm in names]
        if rng.random() < 0.15:
            s["sparse"] = True
    elif k == "l":
        mname = rng.choice([None, None, "m", pick_name(rng, hostile, pools)])
        s["member"] = rand_schema(rng, depth - 1, mname, hostile, pools, unnamed=unnamed)
    elif k in ("a", "m"):
        s["member"] = {"k": "s", "name": rng.choice([None, "m", pick_name(rng, hostile, pools)])}
    return s


def instantiate(rng, s, maxlen=3):
    k = s["k"]
    node = {"k": k, "name": s["name"], "kids": []}
    if k == "d" and s.get("sparse"):
        # SparseDict: only some of the schema's fields are present, in set() order
        present = [f for f in s["fields"] if rng.random() < 0.6]
        rng.shuffle(present)
        node["sparse"] = [f for f in s["fields"] if f not in present]
        node["fields"] = list(s["fields"])
        node["kids"] = [instantiate(rng, f, maxlen) for f in present]
    elif k == "d":
        node["kids"] = [instantiate(rng, f, maxlen) for f in s["fields"]]
    elif k == "l":
        node["member"] = s["member"]
        node["kids"] = [instantiate(rng, s["member"], maxlen) for _ in range(rng.choice([0, 1, 2, 2, 3, 3, maxlen]))]
    elif k in ("a", "m"):
        node["member"] = s["member"]
        node["kids"] = [instantiate(rng, s["member"], maxlen) for _ in range(rng.choice([0, 1, 2, 3, maxlen]))]
    elif k == "j":
        node["kids"] = [{"k": "s", "name": None, "kids": []} for _ in range(rng.choice([0, 1, 2, 3]))]
    elif k == "c":
        node["set"] = rng.random() < 0.5
        node["kids"] = [{"k": "s", "name": n, "kids": []} for n in ("year", "month", "day")]
    return node


def number(tree):
    counter = itertools.count()

    def go(n):
        n["id"] = next(counter)
        for k in n["kids"]:
            go(k)
    go(tree)
    return tree


def preorder(node):
    yield node
    for k in node["kids"]:
        yield from preorder(k)


def node_by_id(tree, i):
    for n in preorder(tree):
        if n["id"] == i:
            return n
    raise KeyError(i)


def parent_map(tree):
    pm = {tree["id"]: None}
    for n in preorder(tree):
        for k in n["kids"]:
            pm[k["id"]] = n
    return pm


def schema_of(node):
    """the schema a node was instantiated from (kids of a list share the member schema)"""
    k = node["k"]
    s = {"k": k, "name": node["name"]}
    if k == "d":
        s["fields"] = [schema_of(c) for c in node["kids"]]
        if "sparse" in node:
            s["fields"] = s["fields"] + list(node["sparse"])
            s["sparse"] = True
    elif k in ("l", "a", "m"):
        s["member"] = node.get("member") or (schema_of(node["kids"][0]) if node["kids"] else {"k": "s", "name": None})
    return s


def schema_class(s):
    import flatland
    k = s["k"]
    if k == "s":
        cls = flatland.String
    elif k == "d" and s.get("sparse"):
        cls = flatland.SparseDict.of(*[schema_class(f) for f in s["fields"]])
    elif k == "d":
        cls = flatland.Dict.of(*[schema_class(f) for f in s["fields"]])
    elif k == "c":
        cls = flatland.DateYYYYMMDD
    elif k == "l":
        cls = flatland.List.of(schema_class(s["member"]))
    elif k == "a":
        cls = flatland.Array.of(schema_class(s["member"]))
    elif k == "m":
        cls = flatland.MultiValue.of(schema_class(s["member"]))
    elif k == "j":
        cls = flatland.JoinedString
    else:
        raise ValueError(k)
    return cls.named(s["name"])


def value_of(node):
    k = node["k"]
    if k == "s":
        return "v%d" % node.get("id", 0)
    if k == "d":
        return {c["name"]: value_of(c) for c in node["kids"]}
    if k == "c":
        return datetime.date(2001, 2, 3) if node.get("set") else None
    if k in ("l", "a", "m"):
        return [value_of(c) for c in node["kids"]]
    if k == "j":
        return ["p%d" % i for i in range(len(node["kids"]))]
    raise ValueError(k)


_BUILD_CACHE = {}


class ShapeMismatch(Exception):
    """after a history containing REJECTED operations the real tree does not have the shape the history
    simulated on the description has (a rejected operation left something behind): the elements cannot
    be labelled; `root` is the real root element"""

    def __init__(self, root, msg):
        Exception.__init__(self, msg)
        self.root = root
        self.msg = msg


def has_rejected(history):
    return any(op["op"] == "rejected" for op in (history or []))


def rejectable_value(member):
    """a plain value the member schema rejects BY RAISING from set() (not by returning False), or None:
    a Dict / SparseDict member (default `subset` policy) raises KeyError for an undeclared key; a List of
    such members propagates it; scalars, Arrays, MultiValues, JoinedStrings, Compounds and Lists of them
    never raise"""
    if member["k"] == "d":
        return {"__undeclared__": "x"}
    if member["k"] == "l":
        inner = rejectable_value(member["member"])
        return None if inner is None else [inner]
    return None


def build(tree, init=None, history=None):
    """(root element, {id: element}, {python id(element): node id}); cached per process —
    find()/fq_name() do not mutate the tree.  With a history the elements are built from `init`,
    the list operations are applied through the public List API, and the result must have the
    shape of `tree` (the history simulated on the description with Python's list semantics)."""
    from harness.core import canon
    key = canon([tree, history]) if history else canon(tree)
    hit = _BUILD_CACHE.get(key)
    if hit is not None:
        return hit
    first = init if history else tree
    cls = schema_class(schema_of(first))
    root = cls(value_of(first))
    removed_els = []
    if history and has_rejected(history):
        try:
            removed_els = apply_history(root, history)
        except Exception as e:  # noqa: BLE001 — an operation AFTER a rejected one does not apply to the real tree
            reraise_timeout(e)
            raise ShapeMismatch(root, "after a rejected operation a later operation of the history failed on "
                                "the real tree with %s" % exc_name(e))
    elif history:
        removed_els = apply_history(root, history)
    byid, label = {}, {}

    def walk(el, node):
        byid[node["id"]] = el
        label[id(el)] = node["id"]
        kids = list(el.children)
        if len(kids) != len(node["kids"]) and has_rejected(history):
            raise ShapeMismatch(root, "after a rejected operation node %s has %d children, expected %d"
                                % (node["id"], len(kids), len(node["kids"])))
        assert len(kids) == len(node["kids"]), "harness: tree shape mismatch at node %s" % node["id"]
        if node["k"] == "s" and isinstance(el.value, str) and el.value.startswith("v"):
            assert el.value == "v%d" % node["id"], "harness: list history simulated wrongly at node %s" % node["id"]
        keys = list(el.keys()) if node["k"] in ("d", "c") else None
        for i, (ke, kn) in enumerate(zip(kids, node["kids"])):
            if node["k"] in ("d", "c"):
                assert ke.name == kn["name"], "harness: field order mismatch"
                assert keys[i] == kn.get("key", kn["name"]), "harness: dict key mismatch"
            walk(ke, kn)
    try:
        walk(root, tree)
        if history:
            # members removed from a List on the way (popped / deleted / replaced): labelled too, in the
            # order the simulation records them
            recs = simulate_removed(init, history)
            assert len(recs) == len(removed_els), "harness: removed members simulated wrongly"
            for rec, el in zip(recs, removed_els):
                walk(el, rec["node"])
    except AssertionError as e:
        if has_rejected(history):
            # with a rejected operation in the history a mismatch is something the operation left behind
            raise ShapeMismatch(root, "after a rejected operation: %s" % e)
        raise
    if len(_BUILD_CACHE) > 64:
        _BUILD_CACHE.clear()
    out = (root, byid, label)
    _BUILD_CACHE[key] = out
    return out


def build_case(case):
    return build(case["tree"], case.get("init"), case.get("history"))


# ------------------------------------------------------------------ list mutation histories
# op = {"at": [child indexes from the root to a List], "op": name, ...args, "nodes": [new member nodes]}

LIST_OPS = ["pop", "pop", "insert", "insert", "delitem", "delslice", "setslice", "setitem", "reverse", "sort", "remove",
            "iadd", "append", "append"]


def _node_at(tree, pos):
    n = tree
    for i in pos:
        n = n["kids"][i]
    return n


def _list_positions(tree):
    out = []

    def go(n, pos):
        if n["k"] == "l":
            out.append(pos)
        for i, k in enumerate(n["kids"]):
            go(k, pos + [i])
    go(tree, [])
    return out


def _max_id(tree):
    return max(n["id"] for n in preorder(tree))


def _number_from(node, start):
    c = [start]

    def go(n):
        n["id"] = c[0]
        c[0] += 1
        for k in n["kids"]:
            go(k)
    go(node)
    return c[0]


def _removed_indexes(op, L):
    """positions (before the operation) of the members a List operation takes out of the list"""
    name = op["op"]
    if name in ("pop", "delitem", "setitem", "remove"):
        i = op["i"]
        return [i if i >= 0 else L + i]
    if name == "delslice":
        return list(range(L)[slice(op["a"], op["b"], op["c"])])
    if name == "setslice":
        return list(range(L)[op["a"]:op["b"]])
    return []


def simulate_op(tree, op, removed=None):
    """apply one list operation to the description (in place) with Python's list semantics;
    raises on an operation Python would reject.  `removed` collects a record per member that
    leaves its list: how ("pop": List.pop clears the slot's parent; "replace": item assignment swaps
    the slot's element; "del": every other removal leaves the old slot pointing at the list), the
    list's id and the member's old position."""
    if op["op"] == "query":
        return  # evaluating a path does not change the tree
    n = _node_at(tree, op["at"])
    if op["op"] == "rejected":
        # a List operation that raises: the list is as it was before the call — except extend / +=, which
        # append member by member and keep the members before the rejected one
        assert n["k"] == "l"
        if op["kind"] in ("extend-bad", "iadd-bad"):
            n["kids"].extend(copy.deepcopy(op.get("nodes", [])))
        return
    if op["op"] == "setfield":
        # SparseDict item assignment of an instance of a renamed subclass of the field schema: stored under
        # the field's key, keeping its own name (replaces in place, or is appended when the key was absent)
        assert n["k"] == "d" and "sparse" in n
        new = copy.deepcopy(op["nodes"][0])
        for j, kid in enumerate(n["kids"]):
            if kid.get("key", kid["name"]) == op["key"]:
                n["kids"][j] = new
                return
        n["kids"].append(new)
        n["sparse"] = [f for f in n["sparse"] if f["name"] != op["key"]]
        return
    assert n["k"] == "l"
    K = n["kids"]
    new = copy.deepcopy(op.get("nodes", []))
    name = op["op"]
    if removed is not None:
        for idx in _removed_indexes(op, len(K)):
            rec = {"how": "pop" if name == "pop" else "del", "list": n["id"], "old": idx,
                   "id": K[idx]["id"], "node": copy.deepcopy(K[idx])}
            if name == "setitem":
                # item assignment of an Element keeps the slot and swaps its element: the old member
                # still points at the live slot, which now holds the new member
                rec["how"], rec["by"] = "replace", new[0]["id"]
            removed.append(rec)
    if name == "pop":
        K.pop(op["i"])
    elif name == "insert":
        K.insert(op["i"], new[0])
    elif name == "delitem":
        del K[op["i"]]
    elif name == "delslice":
        del K[slice(op["a"], op["b"], op["c"])]
    elif name == "setslice":
        K[op["a"]:op["b"]] = new
    elif name == "setitem":
        K[op["i"]] = new[0]
    elif name == "reverse":
        K.reverse()
    elif name == "sort":
        K.sort(key=lambda m: "v%d" % m["id"], reverse=op["reverse"])
    elif name == "remove":
        del K[op["i"] if op["i"] >= 0 else len(K) + op["i"]]
    elif name in ("iadd", "extend"):
        K.extend(new)
    elif name == "append":
        K.append(new[0])
    else:
        raise ValueError(name)


def simulate(init, history):
    t = copy.deepcopy(init)
    for op in history:
        simulate_op(t, op)
    return t


def simulate_removed(init, history):
    t = copy.deepcopy(init)
    removed = []
    for op in history:
        simulate_op(t, op, removed)
    return removed


def removed_subjects(init, history, final):
    """the removed members a case talks about: popped ones, and deleted/replaced ones whose list is
    still part of the final tree (their stale slot points at it)"""
    if not history:
        return []
    present = {n["id"] for n in preorder(final)}
    return [r for r in simulate_removed(init, history)
            if r["how"] == "pop" or (r["how"] == "del" and r["list"] in present)
            or (r["how"] == "replace" and r["by"] in present)]


QUERY_PATHS = ["/", "/0", "/[:]", "/[0]", "/[-1]", "/..", "..", "../..", "../0", ".", "[:]", "0", "/1", "/[::-1]"]


def _descend(el, rel):
    for i in rel:
        el = list(el.children)[i]
    return el


def _query(el, path):
    """evaluate a path from an element in the middle of a history (result not used: the point is that
    evaluation must not leave state behind that a later evaluation depends on)"""
    try:
        el.find(path, strict=False)
    except (LookupError, ValueError, TypeError):
        pass
    try:
        el.find(path, single=True, strict=False)
    except (LookupError, ValueError, TypeError):
        pass


def apply_history(root, history):
    """the same operations on the real elements, through the public List API.
    `query` ops evaluate paths from elements of the tree in between; insertion ops marked
    `detached` first build the new members as free-standing elements, evaluate paths from inside
    them (`pre`: [position inside the new member, path]) and only then graft the very same
    element objects into the tree.  Returns the member elements removed from lists, in order."""
    removed = []
    for op in history:
        lst = root
        for i in op["at"]:
            lst = list(lst.children)[i]
        name = op["op"]
        if name == "query":
            _query(lst, op["path"])
            continue
        vals = [value_of(n) for n in op.get("nodes", [])]
        if name == "setfield":
            field = [f for f in lst.field_schema if f.name == op["key"]][0]
            lst[op["key"]] = field.named(op["nodes"][0]["name"])(vals[0])
            continue
        if name == "rejected":
            _apply_rejected(lst, op, vals)
            continue
        if op.get("detached"):
            vals = [lst.member_schema(v) for v in vals]
            for k, rel, path in op.get("pre", []):
                _query(_descend(vals[k], rel), path)
        members = list(lst)
        removed.extend(members[i] for i in _removed_indexes(op, len(members)))
        if name == "pop":
            lst.pop(op["i"])
        elif name == "insert":
            lst.insert(op["i"], vals[0])
        elif name == "delitem":
            del lst[op["i"]]
        elif name == "delslice":
            del lst[slice(op["a"], op["b"], op["c"])]
        elif name == "setslice":
            lst[op["a"]:op["b"]] = vals
        elif name == "setitem":
            lst[op["i"]] = vals[0]
        elif name == "reverse":
            lst.reverse()
        elif name == "sort":
            lst.sort(key=lambda slot: slot.value, reverse=op["reverse"])
        elif name == "remove":
            lst.remove(list(lst)[op["i"]])
        elif name == "iadd":
            lst += vals
        elif name == "extend":
            lst.extend(vals)
        elif name == "append":
            lst.append(vals[0])
        else:
            raise ValueError(name)
    return removed


REJECTED_ALWAYS = ["insert-badidx", "setslice-noniter", "extend-noniter", "setitem-oor", "setitem-stridx",
                   "delitem-oor", "pop-oor", "remove-absent"]
REJECTED_BAD_VALUE = ["insert-bad", "insert-bad", "insert-bad", "setslice-bad", "extend-bad", "iadd-bad", "append-bad"]


def _apply_rejected(lst, op, vals):
    """a List operation that the real list must reject by raising; the exception is caught (the caller goes
    on using the tree).  Nothing is asserted here: what the call left behind is judged by the shape check of
    `build` and by the property's oracle."""
    kind = op["kind"]
    bad = op.get("bad")
    try:
        if kind == "insert-bad":
            lst.insert(op["i"], bad)
        elif kind == "insert-badidx":
            lst.insert("x", vals[0])
        elif kind == "setslice-bad":
            lst[op["a"]:op["b"]] = vals + [bad]
        elif kind == "setslice-noniter":
            lst[op["a"]:op["b"]] = 5
        elif kind == "extend-bad":
            lst.extend(vals + [bad])
        elif kind == "iadd-bad":
            lst += vals + [bad]
        elif kind == "extend-noniter":
            lst.extend(5)
        elif kind == "append-bad":
            lst.append(bad)
        elif kind == "setitem-oor":
            lst[op["i"]] = vals[0]
        elif kind == "setitem-stridx":
            lst["x"] = vals[0]
        elif kind == "delitem-oor":
            del lst[op["i"]]
        elif kind == "pop-oor":
            lst.pop(op["i"])
        elif kind == "remove-absent":
            lst.remove("zz-absent-value")
        else:
            raise AssertionError("harness: unknown rejected kind %r" % kind)
    except AssertionError:
        raise
    except Exception as e:  # noqa: BLE001 — the rejection is the point
        reraise_timeout(e)


def _positions(node):
    out = []

    def go(n, pos):
        out.append(pos)
        for i, k in enumerate(n["kids"]):
            go(k, pos + [i])
    go(node, [])
    return out


def _sparse_positions(tree):
    out = []

    def go(n, pos):
        if n["k"] == "d" and "sparse" in n and n.get("fields"):
            out.append(pos)
        for i, k in enumerate(n["kids"]):
            go(k, pos + [i])
    go(tree, [])
    return out


def rand_history(rng, tree, nops, setfield=0.0, queries=0.25, detached=0.5, rejected=0.0):
    """(final tree, history): `nops` random operations on random List nodes (any depth) of the
    evolving tree; with probability `setfield` an operation is instead a SparseDict item assignment
    of an instance of a renamed subclass of the field schema (the KF-C10-a state)"""
    t = copy.deepcopy(tree)
    nxt = _max_id(t) + 1
    hist = []
    remaining = nops
    force = None   # after a rejected operation: (position of the same list, forced successful op name)
    while remaining > 0:
        remaining -= 1
        sparse = _sparse_positions(t) if setfield and rng.random() < setfield and not force else []
        if sparse:
            pos = rng.choice(sparse)
            n = _node_at(t, pos)
            field = rng.choice([f for f in n["fields"] if f["name"] is not None] or n["fields"])
            if field["name"] is None:
                continue
            new = instantiate(rng, field, maxlen=2)
            nxt = _number_from(new, nxt)
            newname = rng.choice(["y", "renamed", field["name"] + "2", (rng.choice(n["fields"])["name"] or "y"),
                                  pick_name(rng, 0.5, [PUNCT, DIGITS, UNICODE])])
            new["name"] = newname
            if newname != field["name"]:
                new["key"] = field["name"]
            op = {"at": pos, "op": "setfield", "key": field["name"], "nodes": [new]}
            simulate_op(t, op)
            hist.append(op)
            continue
        if queries and rng.random() < queries:
            # evaluate a path from a random element of the tree as it is now
            hist.append({"at": rng.choice(_positions(t)), "op": "query", "path": rng.choice(QUERY_PATHS)})
        lists = _list_positions(t)
        if not lists:
            break
        pos = rng.choice(lists)
        if force is not None and force[0] in lists:
            pos = force[0]
        n = _node_at(t, pos)
        L = len(n["kids"])
        scalar_members = n["member"]["k"] == "s"
        name = rng.choice(LIST_OPS)
        if force is not None:
            name = force[1] or name
            force = None
        elif rejected and rng.random() < rejected:
            # an operation the list must REJECT by raising (caught by the caller), then 0-2 further successful
            # operations, preferably on the same list and preferably ones that do not renumber (append / +=)
            bad = rejectable_value(n["member"])
            kinds = list(REJECTED_ALWAYS)
            if n["member"]["k"] != "s":
                # for container members an unadaptable value adapts to a blank member, which may EQUAL a blank
                # member of the list (then remove() succeeds): only lists of scalars (values "v<id>") reject it
                kinds.remove("remove-absent")
            if bad is not None:
                kinds += REJECTED_BAD_VALUE * 3
            kind = rng.choice(kinds)
            op = {"at": pos, "op": "rejected", "kind": kind}
            if bad is not None:
                op["bad"] = bad
            good = []
            if kind in ("insert-badidx", "setitem-oor", "setitem-stridx"):
                good = [instantiate(rng, n["member"], maxlen=2)]
            elif kind in ("setslice-bad", "extend-bad", "iadd-bad"):
                good = [instantiate(rng, n["member"], maxlen=2) for _ in range(rng.choice([0, 1, 1, 2]))]
            for m in good:
                nxt = _number_from(m, nxt)
            if good:
                op["nodes"] = good
            if kind == "insert-bad":
                op["i"] = rng.choice([0, 0, 1, -1, -L, L - 1, L, L + 2, rng.randrange(-L - 1, L + 2)])
            elif kind in ("setslice-bad", "setslice-noniter"):
                op["a"] = rng.choice([None, 0, 1, -1, L])
                op["b"] = rng.choice([None, 1, 2, -1, L])
            elif kind in ("setitem-oor", "delitem-oor", "pop-oor"):
                op["i"] = rng.choice([L, L + 1, L + 5, -L - 1, -L - 3])
            simulate_op(t, op)
            hist.append(op)
            follow = rng.choice([0, 1, 1, 2]) if len(hist) < nops + 4 else 0
            remaining = max(remaining, follow)
            if follow:
                force = (pos, rng.choice(["append", "append", "iadd", "iadd", None, "insert"]))
            continue
        op = {"at": pos, "op": name}

        def fresh(count):
            nonlocal nxt
            out = []
            for _ in range(count):
                m = instantiate(rng, n["member"], maxlen=2)
                nxt = _number_from(m, nxt)
                out.append(m)
            return out
        if name in ("pop", "delitem", "remove"):
            if L == 0 or (name == "remove" and not scalar_members):
                continue
            op["i"] = rng.randrange(-L, L)
        elif name == "insert":
            op["i"] = rng.randrange(-L - 2, L + 3)
            op["nodes"] = fresh(1)
        elif name == "delslice":
            op["a"] = rng.choice([None, 0, 1, -1, -2, 2])
            op["b"] = rng.choice([None, None, L, -1, 1, 0])
            op["c"] = rng.choice([None, None, 1, 2, -1, -2, 3])
        elif name == "setslice":
            op["a"] = rng.choice([None, 0, 1, -1, L])
            op["b"] = rng.choice([None, 1, 2, -1, L])
            op["nodes"] = fresh(rng.choice([0, 1, 2]))
        elif name == "sort":
            if not scalar_members:
                continue
            op["reverse"] = rng.random() < 0.5
        elif name == "setitem":
            if L == 0:
                continue
            op["i"] = rng.randrange(-L, L)
            op["nodes"] = fresh(1)
        elif name == "iadd":
            op["nodes"] = fresh(rng.choice([1, 2]))
        elif name == "append":
            op["nodes"] = fresh(1)
        if name == "setitem" or (op.get("nodes") and rng.random() < detached):
            # the new members are built as free-standing elements, queried, and then grafted
            # (item assignment replaces the member only when handed an Element)
            op["detached"] = True
            op["pre"] = []
            for k, m in enumerate(op["nodes"]):
                for _ in range(rng.choice([0, 1, 1, 2])):
                    op["pre"].append([k, rng.choice(_positions(m)), rng.choice(QUERY_PATHS)])
        simulate_op(t, op)
        hist.append(op)
    if queries and hist and rng.random() < queries:
        hist.append({"at": rng.choice(_positions(t)), "op": "query", "path": rng.choice(QUERY_PATHS)})
    return t, hist


def esc_name(name):
    """the documented spelling of a field name as a path segment; an unnamed field (name None, stored under
    the key None) is the empty step (05c4adc)"""
    if name is None:
        return ""
    if name in (".", ".."):
        return name.replace(".", "\\.")
    e = name.replace("/", "\\/").replace("[", "\\[")
    return e.replace("\\.", "\\\\.").replace("\\]", "\\\\]")


def doc_segments(top, target_id):
    """documented path segments from the node `top` (exclusive) down to the node `target_id`:
    position for sequence members, escaped name for mapping children; None if not below `top`"""
    def go(n, acc):
        if n["id"] == target_id:
            return acc
        for i, k in enumerate(n["kids"]):
            seg = esc_name(k["name"]) if n["k"] in ("d", "c") else str(i)
            r = go(k, acc + [seg])
            if r is not None:
                return r
        return None
    return go(top, [])


def fq_of_segments(segs):
    """'/' + '/'.join(segs), with a slash of its own after an empty LAST step (a single trailing slash is not
    a step; 05c4adc)"""
    return "/" + "/".join(segs) + ("/" if segs and segs[-1] == "" else "")


def doc_fq(top, target_id):
    segs = doc_segments(top, target_id)
    return None if segs is None else fq_of_segments(segs)


def ref_read(fq):
    """reference reader of an absolute path made of name segments: split at unescaped '/', a
    backslash pairs with a following '/', '.', '['; the last empty segment is dropped, an inner one
    is the step None; escapes of / [ ] . are removed"""
    assert fq.startswith("/")
    body, segs, cur, i = fq[1:], [], [], 0
    while i < len(body):
        c = body[i]
        if c == "\\" and i + 1 < len(body) and body[i + 1] in "/.[":
            cur.append(body[i:i + 2])
            i += 2
        elif c == "/":
            segs.append("".join(cur))
            cur = []
            i += 1
        else:
            cur.append(c)
            i += 1
    segs.append("".join(cur))
    if segs[-1] == "":
        segs.pop()
    return [None if x == "" else re.sub(r"\\(/|\[|\]|\.)", r"\1", x) for x in segs]


def ref_eval(tree, fq):
    """what find(fq) evaluates to on the description, looking names up among the KEYS of mappings
    and by int() position in sequences: ("ok", node id) or ("error", "LookupError")"""
    n = tree
    for step in ref_read(fq):
        nxt = None
        if step is not None or n["k"] in ("d", "c"):
            # (the empty step None is looked up under the key None of a mapping: an unnamed field)
            if n["k"] in ("d", "c"):
                for k in n["kids"]:
                    if k.get("key", k["name"]) == step:
                        nxt = k
                        break
            elif n["k"] in ("l", "a", "m", "j"):
                try:
                    nxt = n["kids"][int(step)]
                except (ValueError, IndexError):
                    nxt = None
        if nxt is None:
            return ("error", "LookupError")
        n = nxt
    return ("ok", n["id"])


def root_lazy_demo_cases():
    """the two scenarios of /verif/seeded/C14-root-lazy-property/demo.py as (init, history, final, starts)"""
    out = []
    leaf = lambda name: {"k": "s", "name": name, "kids": []}
    # 1: a scalar queried while detached, then appended
    names = number({"k": "l", "name": "names", "member": {"k": "s", "name": "n"}, "kids": [leaf("n")]})
    early = dict(leaf("n"), id=_max_id(names) + 1)
    h = [{"at": [], "op": "append", "nodes": [early], "detached": True, "pre": [[0, [], "/"]]}]
    out.append({"init": names, "history": h, "tree": simulate(names, h), "starts": [0, 1, early["id"]]})
    # 2: a subtree queried from inside while detached, then grafted
    addr_schema = {"k": "d", "name": "addr", "fields": [{"k": "s", "name": "street"}, {"k": "s", "name": "city"}]}
    addr = lambda: {"k": "d", "name": "addr", "kids": [leaf("street"), leaf("city")]}
    book = number({"k": "l", "name": "book", "member": addr_schema, "kids": [addr()]})
    new = addr()
    _number_from(new, _max_id(book) + 1)
    h = [{"at": [], "op": "append", "nodes": [new], "detached": True, "pre": [[0, [1], "/street"]]}]
    out.append({"init": book, "history": h, "tree": simulate(book, h),
                "starts": [0, new["id"], new["kids"][0]["id"], new["kids"][1]["id"]]})
    return out


def grafted_ids(history):
    """ids of the elements that were built detached and queried before being grafted"""
    out = []
    for op in history or []:
        if op.get("detached"):
            for k, rel, _ in op.get("pre", []):
                n = op["nodes"][k]
                for i in rel:
                    n = n["kids"][i]
                out.append(n["id"])
    return out


def lean_tree(tree):
    """strip build hints (the Lean runner ignores them anyway; keeps replay files small)"""
    return tree


# ------------------------------------------------------------------ concrete path syntax
# ast = {"top": bool, "trail": bool, "steps": [step]}
# step = {"t": "up"|"here"} | {"t": "name", "s": str, "br": bool, "sep": bool, "escall": bool}
#      | {"t": "neg", "n": int, "sep": bool} | {"t": "slice", "a": int|None, "b": int|None, ["c": {"v": int|None}], "sep": bool}

def _escape_seg(s, escall):
    if s == ".":
        return "\\."
    if s == "..":
        return "\\.\\."
    out, prev_bs = [], False
    for ch in s:
        esc = ch in "/[" or (ch in ".]" and (prev_bs or escall))
        out.append("\\" + ch if esc else ch)
        prev_bs = ch == "\\"
    return "".join(out)


def _opt(i):
    return "" if i is None else str(i)


def step_text(st):
    t = st["t"]
    if t == "up":
        return "..", False
    if t == "here":
        return ".", False
    if t == "name":
        s = st["s"]
        if st.get("br") and s != "" and all("0" <= ch <= "9" for ch in s):
            return "[" + s + "]", True
        return _escape_seg(s, st.get("escall", False)), False
    if t == "neg":
        return "[-%d]" % st["n"], True
    if t == "slice":
        if "c" in st:
            return "[%s:%s:%s]" % (_opt(st["a"]), _opt(st["b"]), _opt(st["c"]["v"])), True
        return "[%s:%s]" % (_opt(st["a"]), _opt(st["b"])), True
    raise ValueError(t)


def print_path(ast):
    out = ["/"] if ast["top"] else []
    first = True
    for st in ast["steps"]:
        text, bracket = step_text(st)
        if first or (bracket and not st.get("sep", False)):
            out.append(text)
        else:
            out.append("/" + text)
        first = False
    if ast["trail"] and ast["steps"]:
        out.append("/")
    return "".join(out)


def _name_ok(ast, i):
    """a name step can be spelled: non-empty, and a final backslash only on the very last step of a path
    without trailing slash (Spec.wfSteps)"""
    s = ast["steps"][i]["s"]
    if s == "":
        return False
    if s.endswith("\\"):
        return i == len(ast["steps"]) - 1 and not ast["trail"]
    return True


def ast_spellable(ast):
    """every name of the AST can be written in its position (zero strides allowed)"""
    return all(st["t"] != "name" or _name_ok(ast, i) for i, st in enumerate(ast["steps"]))


def has_zero_step(ast):
    return any(st["t"] == "slice" and "c" in st and st["c"]["v"] == 0 for st in ast["steps"])


def zero_steps_as_one(ast):
    a = copy.deepcopy(ast)
    for st in a["steps"]:
        if st["t"] == "slice" and "c" in st and st["c"]["v"] == 0:
            st["c"]["v"] = 1
    return a


def ast_wf(ast):
    """the domain of the Lean theorems (Spec.CPath.wf): spellable and no zero stride"""
    return ast_spellable(ast) and not has_zero_step(ast)


def canon_ast(ast):
    seen_other = False
    for st in ast["steps"]:
        if st["t"] == "here":
            continue
        if st["t"] == "up":
            if seen_other:
                return False
        else:
            seen_other = True
    return True


def cancel_ups(ast):
    """the steps with every `X/..` pair (ignoring `.`) removed — what `_canonicalize` evaluates"""
    out = []
    for st in ast["steps"]:
        if st["t"] == "here":
            continue
        if st["t"] == "up" and out and out[-1]["t"] != "up":
            out.pop()
            continue
        out.append(st)
    return {"top": ast["top"], "trail": ast["trail"], "steps": out}


# ------------------------------------------------------------------ documented semantics on real elements

def _is_slot(el):
    from flatland.schema.base import Slot
    return isinstance(el, Slot)


def doc_parent(el, removed=frozenset()):
    """the documented parent: the container (the List for a list member); an element without a tree
    above it — the root, or a member that was removed from its list (`removed`: python ids) — stays put"""
    if id(el) in removed:
        return el
    p = el.parent
    if p is not None and _is_slot(p):
        p = p.parent
    return el if p is None else p


def doc_root(el, removed=frozenset()):
    """the root of the tree the element is in now: follow the (documented) parents — not
    `Element.root`, which is the thing under test for a leading '/'"""
    while True:
        p = doc_parent(el, removed)
        if p is el:
            return el
        el = p


def asis_root(el):
    """the top of the raw parent-pointer chain (a ListSlot for a popped member)"""
    while el.parent is not None:
        el = el.parent
    return el


def doc_child(el, s):
    """the child of `el` named `s` (index number = name for sequences), or None"""
    from flatland.schema.containers import Mapping, Sequence
    kids = list(el.children)
    if isinstance(el, Mapping):
        for k in kids:
            if k.name == s:
                return k
        return None
    if s is None:
        return None   # the empty step: only a mapping can hold a child under None
    if isinstance(el, Sequence):
        try:
            i = int(s)
        except ValueError:
            return None
        try:
            return kids[i]
        except IndexError:
            return None
    return None


def doc_step(st, el, strict, removed=frozenset()):
    t = st["t"]
    if t == "up":
        return [doc_parent(el, removed)]
    if t == "here":
        return [el]
    if _is_slot(el):
        # only reachable in the as-is reading (a popped member's chain ends in its old slot)
        if t == "name":
            raise NotImplementedError()
        return []
    kids = list(el.children)
    if t == "name":
        c = doc_child(el, st["s"])
        if c is None:
            if strict:
                raise LookupError(st["s"])
            return []
        return [c]
    if t == "neg":
        n = st["n"]
        if n == 0:
            return kids[0:1]
        return [kids[-n]] if n <= len(kids) else []
    if t == "slice":
        c = st["c"]["v"] if "c" in st else None
        return kids[slice(st["a"], st["b"], c)]
    raise ValueError(t)


def doc_denote(ast, start, strict, removed=frozenset(), asis=False):
    """list of elements, or raises LookupError / ValueError.  `removed`: python ids of elements that
    were removed from their list and are therefore roots of their own; `asis=True` instead follows
    the raw parent pointers as they are (the prediction for removed members)."""
    if ast["top"]:
        cur = [asis_root(start) if asis else doc_root(start, removed)]
    else:
        cur = [start]
    for st in ast["steps"]:
        nxt = []
        for el in cur:
            nxt.extend(doc_step(st, el, strict, frozenset() if asis else removed))
        cur = nxt
    return cur


def doc_outcomes(ast, start, strict, removed=frozenset()):
    """(list of elements or None, set of error kinds): every branch is followed, an element whose
    step raises is dropped and the kind recorded — a real evaluation stops at the first error it
    meets, which is one of these kinds, but which one depends on the order of evaluation"""
    cur = [doc_root(start, removed) if ast["top"] else start]
    kinds = set()
    for st in ast["steps"]:
        nxt = []
        for el in cur:
            try:
                nxt.extend(doc_step(st, el, strict, removed))
            except LookupError:
                kinds.add("LookupError")
            except ValueError:
                kinds.add("ValueError")
        cur = nxt
    return (None if kinds else cur), kinds


def ord_denote(path, start, strict, removed=frozenset()):
    """spec `denOrd` on the real element tree: the depth-first reading of the compiled op list of
    `path` with the precedence of errors made explicit — every error carries the number of slice
    steps passed before it; the smallest depth wins, on a tie the first in sequence order.
    Returns ("ok", [elements]) or ("err", depth, kind); navigation is the documented one
    (doc_root / doc_parent / doc_child / list slicing), not Element.find."""
    from flatland.schema import paths
    ops = paths.tokenize(path)

    def go(i, d, el):
        while i < len(ops):
            op, data = ops[i]
            if op is paths.TOP:
                el = doc_root(el, removed)
            elif op is paths.UP:
                el = doc_parent(el, removed)
            elif op is paths.HERE:
                pass
            elif op is paths.NAME:
                c = doc_child(el, data)
                if c is None:
                    return ("err", d, "LookupError") if strict else ("ok", [])
                el = c
            else:
                if data.step == 0:
                    return ("err", d, "ValueError")
                best, acc = None, []
                for k in list(el.children)[data]:
                    r = go(i + 1, d + 1, k)
                    if r[0] == "err":
                        if best is None or r[1] < best[1]:
                            best = r
                    else:
                        acc.extend(r[1])
                return best if best is not None else ("ok", acc)
            i += 1
        return ("ok", [el])
    return go(0, 0, start)


def single_of(strict, res):
    """res: {"list": [...]} or {"error": ...} -> the single=True observation"""
    if "error" in res:
        return res
    l = res["list"]
    if not l:
        return {"one": None}
    if len(l) > 1 and strict:
        return {"error": "LookupError"}
    return {"one": l[0]}


def enc(s):
    """ASCII-safe rendering used in observations (same as Run/C14.lean `encStr`)"""
    if s is None:
        return None
    return "".join(ch if 32 <= ord(ch) < 127 and ch != "%" else "%%%x;" % ord(ch) for ch in s)


def reraise_timeout(e):
    """the per-case alarm of harness.core must not be recorded as an observation"""
    from harness.core import CaseTimeout
    if isinstance(e, CaseTimeout):
        raise e


def exc_name(e):
    if isinstance(e, LookupError):
        return "LookupError"
    return type(e).__name__


def labels(label, els):
    return [label.get(id(e), "not-an-element") for e in els]


def shrink_tree_variants(tree, keep_ids=()):
    """strictly smaller trees: drop one subtree (a list/array member or a dict field)"""
    nodes = list(preorder(tree))
    for n in nodes:
        if n["k"] not in ("d", "l", "a", "m", "j"):
            continue
        for i in range(len(n["kids"])):
            if n["k"] == "d" and len(n["kids"]) == 1:
                continue
            sub_ids = {m["id"] for m in preorder(n["kids"][i])}
            if sub_ids & set(keep_ids):
                continue
            c = copy.deepcopy(tree)
            target = node_by_id(c, n["id"])
            del target["kids"][i]
            yield c
