"""C05 — validate() follows the documented two-phase, all-elements algorithm."""
import itertools

from harness.core import Property

OUTCOMES = ["T", "F", "N", "S", "SA", "SAF"]


def _outcome_obj(code):
    from flatland.schema.base import Skip, SkipAll, SkipAllFalse
    return {"T": True, "F": False, "N": None, "S": Skip, "SA": SkipAll, "SAF": SkipAllFalse}[code]


# ---------------------------------------------------------------- case construction
# node = {"id", "k": kind, "opt", "empty", "down", "up", "kids"}   ("c" of older cases is ignored: the
# container / non-container split of the model is computed from the real class at run time, see `_flags`)
#
# kinds: "s" String, "i" Integer, "b" Boolean (scalar leaves; "zero": a non-empty leaf holds the FALSY value 0 /
# False instead of 7 / True — an element that is falsy but not empty); "d" Dict (kids = fields f0..), "sd" SparseDict (kids = the
# PRESENT fields f0.., "absent" more fields in the schema that have no element), "l" List, "a" Array,
# "m" MultiValue (scalar members), "j" JoinedString (String members), "c" DateYYYYMMDD (Compound: year, month,
# day Integer children).  Sequence members share one member schema (the first kid's shape).
#
# "down" / "up": the outcomes of the validators the element runs on the way down / up.  They are installed under
# the attribute the class names in `validates_down` / `validates_up` (read from the class when the case runs).

LEAF_KINDS = ("s", "i", "b")
SEQ_KINDS = ("l", "a", "m", "j")
# the documented split (docs/source/validation: every Container — mappings, sequences, Compound, MultiValue and
# JoinedString included — has descent_validators for the way down and validators for the way up; scalars run
# validators on the way down).  Used by the ORACLE only.
DOC_CONTAINER = {"s": False, "i": False, "b": False, "d": True, "sd": True, "l": True, "a": True, "m": True, "j": True, "c": True}
KIND_CLASS = {"s": "String", "i": "Integer", "b": "Boolean", "d": "Dict", "sd": "SparseDict", "l": "List", "a": "Array",
              "m": "MultiValue", "j": "JoinedString", "c": "DateYYYYMMDD"}


def _number(tree):
    counter = itertools.count()

    def go(n):
        n["id"] = next(counter)
        for k in n["kids"]:
            go(k)
    go(tree)
    return tree


def _doc_empty(node):
    """is_empty as documented per kind: scalars — no value and no text; Dict — never; SparseDict and sequences
    — no member; Compound — every field empty"""
    k = node["k"]
    if k in LEAF_KINDS:
        return bool(node["empty"])
    if k == "d":
        return False
    if k == "c":
        return all(_doc_empty(x) for x in node["kids"])
    return not node["kids"]


def _fix_empty(tree):
    for k in tree["kids"]:
        _fix_empty(k)
    tree["empty"] = _doc_empty(tree)
    return tree


def _rand_outcomes(rng, maxlen=3):
    n = rng.choice([0, 0, 1, 1, 1, 2, 2, 3][: maxlen + 5])
    n = min(n, maxlen)
    # bias towards True so that later validators are reached
    return [rng.choice(["T", "T", "T", "F", "N", "S", "SA", "SAF"]) for _ in range(n)]


def _rand_shape(rng, depth, budget):
    """shape: (leaf,) | ("d", [shapes]) | ("sd", [shapes], absent) | ("l", shape, count) | ("a"|"m", leaf, count)
    | ("j", count) | ("c",)"""
    if depth <= 0 or budget[0] <= 1 or rng.random() < 0.3:
        budget[0] -= 1
        return (rng.choice(["s", "s", "i", "i", "b"]),)
    budget[0] -= 1
    r = rng.random()
    if r < 0.22:
        n = rng.randint(1, 3)
        return ("d", [_rand_shape(rng, depth - 1, budget) for _ in range(n)])
    if r < 0.36:
        n = rng.randint(0, 2)
        return ("sd", [_rand_shape(rng, depth - 1, budget) for _ in range(n)], rng.randint(0 if n else 1, 2))
    if r < 0.52:
        return ("l", _rand_shape(rng, depth - 1, budget), rng.randint(0, 3))
    if r < 0.64:
        n = rng.randint(0, 3)
        budget[0] -= n
        return ("a", rng.choice(LEAF_KINDS), n)
    if r < 0.76:
        n = rng.randint(0, 3)
        budget[0] -= n
        return ("m", rng.choice(LEAF_KINDS), n)
    if r < 0.88:
        n = rng.randint(0, 3)
        budget[0] -= n
        return ("j", n)
    budget[0] -= 3
    return ("c",)


def _leaf(rng, kind, maxlen, falsy=False):
    n = {"k": kind, "opt": rng.random() < 0.4, "empty": rng.random() < 0.4,
         "down": _rand_outcomes(rng, maxlen), "up": [], "kids": []}
    if kind != "s" and (falsy or rng.random() < 0.3):
        n["zero"] = True
    if falsy and kind == "s":
        n["empty"] = True
    return n


def _leaf_value(node):
    if node["empty"]:
        return None
    if node["k"] == "s":
        return "x"
    if node["k"] == "i":
        return 0 if node.get("zero") else 7
    return False if node.get("zero") else True


def _instantiate(rng, shape, maxlen=3):
    k = shape[0]
    if k in LEAF_KINDS:
        return _leaf(rng, k, maxlen)
    node = {"k": k, "opt": rng.random() < 0.4, "empty": False,
            "down": _rand_outcomes(rng, maxlen), "up": _rand_outcomes(rng, maxlen)}
    if k == "d":
        node["kids"] = [_instantiate(rng, s, maxlen) for s in shape[1]]
    elif k == "sd":
        node["kids"] = [_instantiate(rng, s, maxlen) for s in shape[1]]
        node["absent"] = shape[2]
    elif k == "l":
        falsy = shape[1][0] in LEAF_KINDS and rng.random() < 0.35
        node["kids"] = [_leaf(rng, shape[1][0], maxlen, True) if falsy else _instantiate(rng, shape[1], maxlen)
                        for _ in range(shape[2])]
    elif k in ("a", "m"):
        falsy = rng.random() < 0.35          # every member falsy as an element (0, False, no value)
        node["kids"] = [_leaf(rng, shape[1], maxlen, falsy) for _ in range(shape[2])]
        node["member"] = shape[1]
    elif k == "j":
        falsy = rng.random() < 0.35
        node["kids"] = [_leaf(rng, "s", maxlen, falsy) for _ in range(shape[1])]
    else:
        node["kids"] = [_leaf(rng, "i", maxlen) for _ in range(3)]
    return node


# ---------------------------------------------------------------- real implementation

def _schema_for(node, name=None):
    import flatland
    k = node["k"]
    kids = node["kids"]
    if k == "s":
        cls = flatland.String
    elif k == "i":
        cls = flatland.Integer
    elif k == "b":
        cls = flatland.Boolean
    elif k == "d":
        cls = flatland.Dict.of(*[_schema_for(x, "f%d" % i) for i, x in enumerate(kids)])
    elif k == "sd":
        fields = [_schema_for(x, "f%d" % i) for i, x in enumerate(kids)]
        fields += [flatland.String.named("f%d" % (len(kids) + i)) for i in range(node.get("absent", 0))]
        cls = flatland.SparseDict.of(*fields)
    elif k == "l":
        member = kids[0] if kids else {"k": "s", "kids": []}
        cls = flatland.List.of(_schema_for(member, None))
    elif k in ("a", "m"):
        member = {"k": kids[0]["k"] if kids else node.get("member", "s"), "kids": []}
        cls = (flatland.Array if k == "a" else flatland.MultiValue).of(_schema_for(member, "m"))
    elif k == "j":
        cls = flatland.JoinedString
    else:
        cls = flatland.DateYYYYMMDD
    return cls.named(name)


def _blank(node):
    k = node["k"]
    if k in LEAF_KINDS:
        return _leaf_value(node)
    if k in ("d", "sd"):
        return {"f%d" % i: _blank(x) for i, x in enumerate(node["kids"])}
    if k == "j":
        return ["x" for _ in node["kids"]]       # members are emptied one by one afterwards (`_dress`)
    if k == "c":
        return None                              # the three fields exist from the start; set one by one
    return [_blank(x) for x in node["kids"]]


def _flags(el):
    """(validates_down, validates_up) as the element's class has them NOW"""
    return getattr(el, "validates_down", None), getattr(el, "validates_up", None)


class _ChildrenMismatch(Exception):
    pass


class _Run:
    """one element tree with the harness validators installed; `events` interleaves validator invocations
    ["c", id, descending-list?, idx] and signal emissions ["s", id, sender, result]"""

    def __init__(self, tree):
        self.schema = _schema_for(tree, "root")
        self.root = self.schema()
        self.root.set(_blank(tree))
        self.events = []
        self.byid = {}
        self.idof = {}
        self.flags = {}

    def dress(self, tree):
        """(Re)assign optional flags, validator lists and scalar emptiness of every element."""
        events = self.events

        def mk(nid, descending, idx, code):
            outcome = _outcome_obj(code)

            def validator(element, state):
                events.append(["c", nid, descending, idx])
                return outcome
            validator.c05 = (nid, descending, idx)
            return validator

        def go(el, node):
            self.byid[node["id"]] = el
            self.idof[id(el)] = node["id"]
            el.optional = node["opt"]
            vd, vu = _flags(el)
            self.flags[node["id"]] = (vd, vu)
            # the attribute each class really reads for descent / ascent
            if vd:
                setattr(el, vd, [mk(node["id"], True, i, c) for i, c in enumerate(node["down"])])
            if vu:
                setattr(el, vu, [mk(node["id"], False, i, c) for i, c in enumerate(node["up"])])
            if node["k"] in LEAF_KINDS:
                el.set(_leaf_value(node))        # the intended content, whatever the library says about it
            kids = list(el.children)             # as the library's `children` property yields them
            if len(kids) != len(node["kids"]):
                # an observation about the library (reported by the oracle), not a crash of the harness
                raise _ChildrenMismatch("%s (element %d) yields %d children, built with %d" % (
                    type(el).__name__, node["id"], len(kids), len(node["kids"])))
            for ke, kn in zip(kids, node["kids"]):
                go(ke, kn)
        go(self.root, tree)

    def model_tree(self, tree):
        """the model's input: container? is COMPUTED from the class flags (an element that names an ascent list
        is the `Container._validate` variant), `down` / `up` are the lists installed under the two flags"""
        def go(node):
            vd, vu = self.flags[node["id"]]
            return {"id": node["id"], "c": vu is not None, "opt": bool(node["opt"]), "empty": bool(node["empty"]),
                    "down": list(node["down"]) if vd else [], "up": list(node["up"]) if vu else [],
                    "kids": [go(x) for x in node["kids"]]}
        return go(tree)


def _preorder(node):
    yield node
    for k in node["kids"]:
        yield from _preorder(k)


def _valid_code(el):
    from flatland.schema.base import Unevaluated
    v = el.valid if hasattr(el, "valid") else el
    if v is Unevaluated:
        return "U"
    if v is True:
        return "T"
    if v is False:
        return "F"
    return "X:%r" % (v,)        # validate() stores bool(...) or Unevaluated, nothing else


def _result_code(v):
    from flatland.schema.base import Skip, SkipAll, SkipAllFalse
    for code, obj in (("S", Skip), ("SA", SkipAll), ("SAF", SkipAllFalse)):
        if v is obj:
            return code
    if v is True:
        return "T"
    if v is False:
        return "F"
    if v is None:
        return "N"
    return "X:%r" % (v,)


def _history(case):
    """[(op, tree, at, value)] — {"tree", "rounds"} of the older cases is a history of full validations"""
    tree = case["tree"]
    if "hist" not in case:
        return [("validate", tree, None, None)] + [("validate", r, None, None) for r in case.get("rounds", [])]
    out = []
    for st in case["hist"]:
        tree = st.get("tree", tree)
        out.append((st["op"], tree, st.get("at"), st.get("value")))
    return out

# ---------------------------------------------------------------- oracle (spec B in Python)

def _list_verdict(codes):
    """(verdict in {'T','F','SA','SAF'}, number invoked)"""
    n = 0
    for c in codes:
        n += 1
        if c == "T":
            continue
        return {"F": "F", "N": "F", "S": "T", "SA": "SA", "SAF": "SAF"}[c], n
    return "T", n


def _element_verdict(node, codes):
    if node["empty"] and node["opt"]:
        return "T", 0
    if not codes:
        return ("F" if node["empty"] else "T"), 0
    return _list_verdict(codes)


def _isc(node):
    return DOC_CONTAINER[node["k"]]


def _down(node):
    if _isc(node) and not node["down"]:
        return "U", 0
    return _element_verdict(node, node["down"])


def _up(node):
    if not _isc(node):
        return "U", 0
    return _element_verdict(node, node["up"])


def _events(node, codes, descending):
    """documented signal emission: one signal right after each validator invoked, with its raw result; the
    fallback check of an element without validators reports with sender NotEmpty"""
    if node["empty"] and node["opt"]:
        return []
    if not codes:
        return [["s", node["id"], "NE", "F" if node["empty"] else "T"]]
    out = []
    for idx, c in enumerate(codes):
        out.append(["c", node["id"], descending, idx])
        out.append(["s", node["id"], ["v", descending, idx], c])
        if c != "T":
            break
    return out


def _down_events(node):
    if _isc(node) and not node["down"]:
        return []
    return _events(node, node["down"], True)


def _up_events(node):
    return _events(node, node["up"], False) if _isc(node) else []


_TRUTHY = {"U": True, "T": True, "SA": True, "F": False, "SAF": False}


def _verdict(n):
    d, u = _down(n)[0], _up(n)[0]
    if d == "U" and u == "U":
        return "U"
    if d == "U":
        return "T" if _TRUTHY[u] else "F"
    if u == "U":
        return "T" if _TRUTHY[d] else "F"
    return "T" if (_TRUTHY[d] and _TRUTHY[u]) else "F"


def _find(tree, nid):
    for n in _preorder(tree):
        if n["id"] == nid:
            return n
    raise KeyError(nid)


def _store(tree, now):
    return [[n["id"], now[n["id"]]] for n in _preorder(tree)]


def expected(tree, prev=None):
    prev = prev or {}
    visited = []
    level = [tree]
    while level:
        nxt = []
        for n in level:
            visited.append(n)
            if _down(n)[0] not in ("SA", "SAF"):
                nxt.extend(n["kids"])
        level = nxt
    log = []
    trace = []
    for n in visited:
        log += [[n["id"], True, i] for i in range(_down(n)[1])]
        trace += _down_events(n)
    for n in reversed(visited):
        log += [[n["id"], False, i] for i in range(_up(n)[1])]
        trace += _up_events(n)
    verdict = {n["id"]: _verdict(n) for n in visited}
    ret = all(v != "F" for v in verdict.values())
    # unvisited elements keep whatever an earlier call left (Unevaluated on a fresh tree)
    now = {n["id"]: verdict.get(n["id"], prev.get(n["id"], "U")) for n in _preorder(tree)}
    return {"ret": ret, "valids": _store(tree, now), "log": log, "trace": trace,
            "all_valid": all(v != "F" for v in now.values())}, now


def expected_norecurse(tree, at, prev=None):
    """documented: "recurse: if False, do not validate children" — the element's OWN verdict by the same rules,
    nothing else invoked, nobody else's .valid written"""
    prev = prev or {}
    n = _find(tree, at)
    log = [[n["id"], True, i] for i in range(_down(n)[1])] + [[n["id"], False, i] for i in range(_up(n)[1])]
    now = {m["id"]: prev.get(m["id"], "U") for m in _preorder(tree)}
    now[at] = _verdict(n)
    return {"ret": now[at], "valids": _store(tree, now), "log": log, "trace": _down_events(n) + _up_events(n),
            "all_valid": all(v != "F" for v in now.values()),
            "at_all_valid": all(now[m["id"]] != "F" for m in _preorder(n))}, now


def expected_set(tree, at, value, prev=None):
    prev = prev or {}
    n = _find(tree, at)
    now = {m["id"]: prev.get(m["id"], "U") for m in _preorder(tree)}
    for m in _preorder(n):
        now[m["id"]] = value
    return {"valids": _store(tree, now), "all_valid": all(v != "F" for v in now.values()),
            "at_all_valid": value != "F"}, now


def _override_class(node):
    """the element's descent list failed and its ascent list passed (the class of the repaired KF-C05-a: the cases
    where the old `recurse=False` differed from the documented verdict)"""
    d, u = _down(node)[0], _up(node)[0]
    return d != "U" and u != "U" and not _TRUTHY[d] and _TRUTHY[u]


def _reassign(rng, tree):
    """Same tree shape, new outcomes / optional flags / scalar emptiness."""
    import copy
    t = copy.deepcopy(tree)
    for n in _preorder(t):
        n["opt"] = rng.random() < 0.4
        n["down"] = _rand_outcomes(rng)
        if n["k"] not in LEAF_KINDS:
            n["up"] = _rand_outcomes(rng)
        elif rng.random() < 0.5:
            n["empty"] = rng.random() < 0.4
    return _fix_empty(t)


def _legacy(node):
    """older corpus / exhaustive cases say "c" and no leaf kind: nothing to do, "k" is all that is read"""
    return node


class C05(Property):
    id = "C05"
    title = "validate() follows the documented two-phase, all-elements algorithm"
    proof_module = "Proofs.C05Ext"
    level_text = ('Lean 4 refinement theorem `validate_refines`: the queue algorithm of Element.validate equals the documented declarative '
                  'semantics (level order over the tree pruned at SkipAll/SkipAllFalse; per-element verdict; exact call log; return value) for every '
                  'tree and every outcome assignment; corollaries for each clause; the `.valid` store across calls is part of the model: '
                  '`unvisited_untouched`, `visited_own_verdict`, `revalidate_store`, `fresh_ret_eq_all_valid`, generalised by '
                  '`ret_eq_all_valid_of_store` / `ret_eq_all_valid_after_set` to every history that leaves the unvisited elements truthy (the '
                  '`all_valid` setter before validating) and refuted otherwise (`ret_ne_all_valid_after_set_false`); `all_valid_after_set` '
                  '(setter writes the element and all descendants, getter = conjunction, nothing outside written), `all_valid_getter_level_order`. '
                  '`validate(recurse=False)`: `validate_norecurse_refines` / `norecurse_full` (the DOCUMENTED statement, for every element: own '
                  'verdict by the rules of the full algorithm, exact log), `norecurse_eq_single` (= validate() on the one-element tree, '
                  'unconditionally), `norecurse_children_untouched`; the code before repair 10acb0e is kept as a counter-model '
                  '(`oldNoRecurse_fails`, `old_norecurse_refines_partial`; regression witness of KF-C05-a in the corpus). `validator_validated`: `trace_refines` (one signal right '
                  'after each validator invoked, raw result, NotEmpty for the fallback), `signals_eq_calls` (invocations in the trace = call log), '
                  '`trace_signals`, `norecurse_trace_refines`. Tied to the real code by correspondence on histories (full validations, '
                  'recurse=False on a random element after 0-2 full validations, all_valid assignments, 40% with a receiver connected) over trees '
                  'of EVERY element kind (String/Integer/Boolean, Dict, SparseDict, List, Array, MultiValue, JoinedString, DateYYYYMMDD), the '
                  'container / non-container variant of each node computed from the class flags validates_down / validates_up at run time.')
    level_note = ('Trusted: Lean kernel + 3 standard axioms; hand-written model Flatland/C05.lean; validators are black boxes returning one of the '
                  'six outcomes; trees without shared nodes; the model distinguishes the two `_validate` variants only (which class is which: '
                  'Proofs.ClassTable.validates_agree / validate_definers on the regenerated class table, and the flags read at run time); '
                  'is_empty of a node is an input of the model, compared on every step with the real is_empty and with the documented per-kind '
                  'definition; blinker dispatch itself (receiver lookup, weak references) is not modelled, only what validate_element sends.')
    technique = 'Lean 4 proof (refinement of a queue loop to a declarative spec); differential correspondence incl. exhaustive small scope; Python oracle'
    theorems = [
        "Flatland.C05.Proofs.validate_refines",
        "Flatland.C05.Proofs.descend_visits",
        "Flatland.C05.Proofs.result_false_iff",
        "Flatland.C05.Proofs.valids_are_visited",
        "Flatland.C05.Proofs.siblings_independent",
        "Flatland.C05.Proofs.optional_empty_skipped",
        "Flatland.C05.Proofs.stops_at_first",
        "Flatland.C05.Proofs.never_below_skipall",
        "Flatland.C05.Proofs.unvisited_untouched",
        "Flatland.C05.Proofs.visited_own_verdict",
        "Flatland.C05.Proofs.visited_ids_nodup",
        "Flatland.C05.Proofs.fresh_ret_eq_all_valid",
        "Flatland.C05.Proofs.revalidate_store",
        "Flatland.C05.Proofs.validate_norecurse_refines",
        "Flatland.C05.Proofs.norecurse_full",
        "Flatland.C05.Proofs.norecurse_log_refines",
        "Flatland.C05.Proofs.norecurse_eq_single",
        "Flatland.C05.Proofs.oldNoRecurse_fails",
        "Flatland.C05.Proofs.old_norecurse_refines_partial",
        "Flatland.C05.Proofs.norecurse_ret_is_bool",
        "Flatland.C05.Proofs.norecurse_children_untouched",
        "Flatland.C05.Proofs.all_valid_after_set",
        "Flatland.C05.Proofs.all_valid_getter_level_order",
        "Flatland.C05.Proofs.ret_eq_all_valid_of_store",
        "Flatland.C05.Proofs.ret_eq_all_valid_after_set",
        "Flatland.C05.Proofs.ret_ne_all_valid_after_set_false",
        "Flatland.C05.Proofs.signals_eq_calls",
        "Flatland.C05.Proofs.trace_refines",
        "Flatland.C05.Proofs.trace_signals",
        "Flatland.C05.Proofs.norecurse_trace_refines",
    ]
    trusted_base = [
        "validators modelled as black boxes returning one of the six outcomes and logging their call",
        "element tree has no shared nodes (the `seen` set of the loop is not modelled)",
        "blinker dispatch (receiver bookkeeping) not modelled: the model says what validate_element sends while a receiver is connected",
    ]
    assumptions = [
        "is_empty/optional of a node are inputs of the model; every step compares the real is_empty of every element with the model input and with the documented per-kind definition (oracle clause is-empty-means-no-content)",
        "container? of a node is computed from the real class flags (validates_up is not None) when the case runs; down/up lists are installed under the attributes the flags name",
    ]
    rule = ("histories on ONE element tree: 1-5 steps from {validate(), validate(recurse=False) on a random element, el.all_valid = True/False/"
            "Unevaluated on a random element}, later steps re-assigning outcomes / optional flags / leaf emptiness for half of the steps; 40% of the "
            "cases with a receiver connected to validator_validated (disconnected afterwards; the oracle checks none is left); trees of String / "
            "Integer / Boolean leaves (non-empty leaves also hold the falsy 0 / False), Dict, SparseDict (present + absent fields), List (one member "
            "shape), Array / MultiValue (scalar members), JoinedString, DateYYYYMMDD; a third of the sequences have only falsy members; 0-3 outcomes "
            "per validator list; exhaustive sub-space: every 2-node tree (container root + one scalar) over all outcome lists of length <=1 and all "
            "flags; non-trivial = at least 2 validators invoked or an element left Unevaluated; distinct = distinct canonical case JSON")
    exhaustive_note = "all 2-node trees (Dict or List root with one String child), validator lists of length <= 1, all flags; plus every ordered tree shape with 2-3 nodes (thorough: 2-4) (scalar leaves) under a Dict root, descent lists from {none,T,F,SkipAll,SkipAllFalse}, ascent lists from {none,T,F}; full validate() only (recurse=False / all_valid / signals: generated histories)"
    quick_n = 3000
    thorough_n = 150000

    def corpus(self):
        t = {"k": "d", "c": True, "opt": False, "empty": False, "down": ["T"], "up": ["T", "F"], "kids": [
            {"k": "d", "c": True, "opt": False, "empty": False, "down": ["SA"], "up": [], "kids": [
                {"k": "s", "c": False, "opt": False, "empty": False, "down": ["F"], "up": [], "kids": []}]},
            {"k": "s", "c": False, "opt": True, "empty": True, "down": ["F"], "up": [], "kids": []},
            {"k": "s", "c": False, "opt": False, "empty": False, "down": ["T", "N", "T"], "up": [], "kids": []}]}
        import copy
        first = {"k": "d", "c": True, "opt": False, "empty": False, "down": [], "up": ["F"], "kids": [
            {"k": "s", "c": False, "opt": False, "empty": False, "down": ["T"], "up": [], "kids": []}]}
        second = copy.deepcopy(first)
        second["up"] = ["T"]
        cases = [{"tree": _number(t)}, {"tree": _number(first), "rounds": [_number(second)]}]

        def leaf(k="s", down=(), opt=False, empty=False):
            return {"k": k, "opt": opt, "empty": empty, "down": list(down), "up": [], "kids": []}

        def cont(k, kids, down=(), up=(), opt=False, **kw):
            return dict({"k": k, "opt": opt, "empty": False, "down": list(down), "up": list(up), "kids": kids}, **kw)
        # fixed 10acb0e (KF-C05-a): recurse=False let a passing ascent list override a failed descent list; expected
        # now: returns False, .valid False - as validate() on the element alone
        w = _number(_fix_empty(cont("d", [leaf()], down=["F"], up=["T"])))
        cases.append({"tree": w, "hist": [{"op": "norecurse", "at": 0}, {"op": "validate"}], "signal": True})
        # every container kind once, descent and ascent validators on each, scalar members with validators
        allk = cont("d", [
            cont("sd", [leaf("i", ["T"])], down=["T"], up=["T", "F"], absent=1),
            cont("l", [cont("c", [leaf("i", ["T"]), leaf("i", [], empty=True), leaf("i", ["F"], opt=True, empty=True)],
                            down=["T"], up=["S", "F"])], down=["T"], up=["T"]),
            cont("a", [leaf("s", ["T", "F"]), leaf("s", [], empty=True)], down=["T"], up=["N"], member="s"),
            cont("m", [leaf("i", ["SA"]), leaf("i", ["T"])], down=["T", "T"], up=["T"], member="i"),
            cont("j", [leaf("s", ["T"]), leaf("s", ["F"], empty=True)], down=["SAF"], up=["T"]),
            cont("j", [], down=[], up=[], opt=True),
            cont("m", [], down=["T"], up=[], member="s"),
            cont("c", [leaf("i", [], empty=True), leaf("i", [], empty=True), leaf("i", [], empty=True)], down=["T"], up=["F"], opt=True),
        ], down=["T"], up=["T"])
        allk = _number(_fix_empty(allk))
        cases.append({"tree": allk, "hist": [{"op": "validate"}], "signal": True})
        cases.append({"tree": allk, "hist": [{"op": "set_all_valid", "at": 0, "value": "T"}, {"op": "validate"},
                                             {"op": "norecurse", "at": 12}, {"op": "set_all_valid", "at": 4, "value": "F"},
                                             {"op": "norecurse", "at": 4}, {"op": "validate"}], "signal": False})
        # the setter with False before validating: unvisited elements stay False, return value True
        cut = _number(_fix_empty(cont("d", [leaf("s", ["T"])], down=["SA"])))
        cases.append({"tree": cut, "hist": [{"op": "set_all_valid", "at": 0, "value": "F"}, {"op": "validate"}], "signal": True})
        # seeded C05-sequence-is-empty-any-children: sequences whose members are all falsy elements (0, False, no
        # value, empty inner lists) are NOT empty - optional ones run their validators, required ones without
        # validators pass the default check
        zero = dict(leaf("i", ["T"]), zero=True)
        fz = cont("d", [
            cont("l", [dict(zero)], down=["T"], up=["F"], opt=True),
            cont("l", [dict(zero), dict(zero)]),
            cont("a", [dict(leaf("b"), zero=True)], down=["F"], up=["T"], opt=True, member="b"),
            cont("m", [dict(leaf("i"), zero=True)], up=["N"], opt=True, member="i"),
            cont("j", [leaf("s", empty=True)], down=["T"], up=["T", "F"], opt=True),
            cont("l", [cont("l", []), cont("l", [])], up=["F"], opt=True),
            cont("l", [leaf("s", ["T"], empty=True, opt=True)]),
        ], down=["T"], up=["T"])
        fz = _number(_fix_empty(fz))
        cases.append({"tree": fz, "hist": [{"op": "validate"}, {"op": "norecurse", "at": 1}], "signal": True})
        return cases

    def exhaustive(self, tier):
        opts = [[]] + [[o] for o in OUTCOMES]
        if tier == "thorough":
            opts += [["T", o] for o in OUTCOMES]
        for rk in ("d", "l"):
            for rd, ru, ropt in itertools.product(opts, opts, (False, True)):
                for kd, kopt, kempty in itertools.product(opts, (False, True), (False, True)):
                    kid = {"k": "s", "c": False, "opt": kopt, "empty": kempty, "down": kd, "up": [], "kids": []}
                    root = {"k": rk, "c": True, "opt": ropt, "empty": False, "down": rd, "up": ru, "kids": [kid]}
                    yield {"tree": _number(root)}

        # every ordered tree SHAPE with up to 3 (quick) / 4 (thorough) nodes — siblings, nesting, empty
        # containers — over a reduced outcome alphabet: this is where sibling / level order, the ascent in
        # reverse and "never stops at an invalid sibling" become observable
        down_opts = [[], ["T"], ["F"], ["SA"], ["SAF"]]
        up_opts = [[], ["T"], ["F"]]

        def shapes(n):
            # ordered trees with exactly n nodes; a node is a scalar leaf or a Dict with a non-empty forest below it
            if n == 1:
                return [("s",)]
            out = []
            for forest in forests(n - 1):
                out.append(("d", forest))
            return out

        def forests(n):
            if n == 0:
                return [[]]
            out = []
            for first in range(1, n + 1):
                for t in shapes(first):
                    for rest in forests(n - first):
                        out.append([t] + rest)
            return out

        def build(shape):
            if shape[0] == "s":
                return {"k": "s", "c": False, "opt": False, "empty": False, "down": [], "up": [], "kids": []}
            return {"k": "d", "c": True, "opt": False, "empty": False, "down": [], "up": [], "kids": [build(k) for k in shape[1]]}

        import copy
        for size in ((2, 3) if tier != "thorough" else (2, 3, 4)):
            for shape in shapes(size):
                if shape[0] != "d":
                    continue
                base = build(shape)
                nodes = list(_preorder(base))
                conts = [n for n in nodes if n["c"]]
                leaves = [i for i, n in enumerate(nodes) if not n["c"]]
                # optional / empty flags on the leaves (the optional-and-empty shortcut interacts with sibling
                # and level order): all combinations for 2-node trees, and for 3-node trees in the thorough tier
                flag_opts = [(False, False)]
                if size == 2 or (tier == "thorough" and size == 3):
                    flag_opts = [(False, False), (True, True), (True, False), (False, True)]
                for flags in itertools.product(flag_opts, repeat=len(leaves)):
                    for downs in itertools.product(down_opts, repeat=len(nodes)):
                        for ups in itertools.product(up_opts, repeat=len(conts)):
                            t = copy.deepcopy(base)
                            tn = list(_preorder(t))
                            for n, d in zip(tn, downs):
                                n["down"] = list(d)
                            for n, u in zip([x for x in tn if x["c"]], ups):
                                n["up"] = list(u)
                            for i, (o, e) in zip(leaves, flags):
                                tn[i]["opt"], tn[i]["empty"] = o, e
                            yield {"tree": _number(t)}

    def generate(self, rng, n, tier):
        for _ in range(n):
            depth = rng.choice([1, 2, 2, 3, 3, 4])
            shape = _rand_shape(rng, depth, [rng.choice([4, 8, 12, 16])])
            if shape[0] in LEAF_KINDS and rng.random() < 0.8:
                shape = ("d", [shape, ("s",)])
            tree = _number(_fix_empty(_instantiate(rng, shape)))
            ids = [m["id"] for m in _preorder(tree)]
            # a history on the one element tree: full validations, validate(recurse=False) on a random element
            # (after 0-2 full validations), `el.all_valid = v` on a random element (also BEFORE the first validation)
            hist = []
            cur = tree
            full = 0
            for step in range(rng.choice([1, 1, 2, 2, 3, 4, 5])):
                r = rng.random()
                if r < 0.5 and full < 3:
                    st = {"op": "validate"}
                    full += 1
                elif r < 0.8:
                    st = {"op": "norecurse", "at": rng.choice(ids)}
                else:
                    st = {"op": "set_all_valid", "at": rng.choice(ids[:3] if rng.random() < 0.5 else ids),
                          "value": rng.choice(["T", "T", "F", "U"])}
                if hist and st["op"] != "set_all_valid" and rng.random() < 0.5:
                    cur = _reassign(rng, cur)
                    st["tree"] = cur
                hist.append(st)
            if all(st["op"] == "set_all_valid" for st in hist):
                hist.append({"op": "validate"})
            yield {"tree": tree, "hist": hist, "signal": rng.random() < 0.4}

    # -------------------------------------------------------------------------------- real implementation

    def run_impl(self, case):
        from flatland.signals import validator_validated
        from flatland.schema import base
        hist = _history(case)
        run = _Run(case["tree"])
        want_signal = bool(case.get("signal"))
        try:
            run.dress(case["tree"])
        except _ChildrenMismatch as e:
            return {"steps": [], "children_as_built": str(e), "_hist": [], "_receivers_left": 0, "_classes": []}

        def receiver(sender, element=None, state=None, result=None, **kw):
            nid = run.idof.get(id(element), -1)
            if sender is base.NotEmpty:
                who = "NE"
            else:
                tag = getattr(sender, "c05", None)
                # the sender is the validator that ran, on the element it ran on
                who = ["v", tag[1], tag[2]] if tag is not None and tag[0] == nid else "X:foreign-sender"
            run.events.append(["s", nid, who, _result_code(result)])

        steps = []
        model_hist = []
        if want_signal:
            validator_validated.connect(receiver, weak=False)
        try:
            for op, tree, at, value in hist:
                try:
                    run.dress(tree)
                except _ChildrenMismatch as e:
                    return {"steps": steps, "children_as_built": str(e), "_hist": model_hist,
                            "_receivers_left": 0, "_classes": []}
                mt = run.model_tree(tree)
                start = len(run.events)
                o = {}
                if op == "validate":
                    ret = run.root.validate()
                    o["ret"] = ret if isinstance(ret, bool) else repr(ret)      # validate() returns a bool
                    model_hist.append({"op": op, "tree": mt})
                elif op == "norecurse":
                    o["ret"] = _valid_code(run.byid[at].validate(recurse=False))
                    model_hist.append({"op": op, "tree": mt, "at": at})
                else:
                    run.byid[at].all_valid = _valid_obj(value)
                    model_hist.append({"op": op, "tree": mt, "at": at, "value": value})
                ev = run.events[start:]
                if op != "set_all_valid":
                    o["log"] = [e[1:] for e in ev if e[0] == "c"]
                    o["trace"] = ev if want_signal else None
                if op != "validate":
                    o["at_all_valid"] = bool(run.byid[at].all_valid)
                o["valids"] = [[m["id"], _valid_code(run.byid[m["id"]])] for m in _preorder(tree)]
                o["all_valid"] = bool(run.root.all_valid)
                # the model's is_empty input, against each kind's real is_empty
                o["empties"] = [[m["id"], bool(run.byid[m["id"]].is_empty)] for m in _preorder(tree)]
                steps.append(o)
        finally:
            if want_signal:
                validator_validated.disconnect(receiver)
        return {"steps": steps, "_hist": model_hist, "_receivers_left": len(validator_validated.receivers),
                "_classes": sorted({type(e).__name__ for e in run.byid.values()})}

    def model_input(self, case, obs):
        # the model trees are computed by the run from the real classes' flags (validates_down / validates_up)
        if not obs or "_hist" not in obs:
            return {"hist": [], "signal": False}
        return {"hist": obs["_hist"], "signal": bool(case.get("signal"))}

    # -------------------------------------------------------------------------------- oracle

    def oracle(self, case):
        import flatland
        obs = self.run_impl(case)
        fails = []
        prev = {}
        if "children_as_built" in obs:
            return [{"clause": "children-as-built", "expected": "`children` yields the members / fields the element was built with",
                     "observed": obs["children_as_built"]}]
        if obs["_receivers_left"]:
            fails.append({"clause": "harness: receiver left connected", "observed": obs["_receivers_left"]})
        for r, ((op, tree, at, value), o) in enumerate(zip(_history(case), obs["steps"])):
            tag = " (step %d: %s%s)" % (r, op, "" if at is None else " at %d" % at)
            want_empty = [[m["id"], bool(m["empty"])] for m in _preorder(tree)]
            if o["empties"] != want_empty:
                # emptiness as DOCUMENTED per kind (`_doc_empty`: a sequence / SparseDict is empty iff it has no
                # member, whatever the members hold), not as the library under test computes it
                fails.append({"clause": "is-empty-means-no-content" + tag, "expected": want_empty, "observed": o["empties"]})
            if op == "validate":
                exp, now = expected(tree, prev)
            elif op == "norecurse":
                exp, now = expected_norecurse(tree, at, prev)
            else:
                exp, now = expected_set(tree, at, value, prev)
            if op != "set_all_valid":
                if o["log"] != exp["log"]:
                    fails.append({"clause": "invocation-order" + tag, "expected": exp["log"], "observed": o["log"]})
                if o["trace"] is not None and o["trace"] != exp["trace"]:
                    fails.append({"clause": "signal-per-invocation" + tag, "expected": exp["trace"], "observed": o["trace"]})
                if o["ret"] != exp["ret"]:
                    clause = "return-value" if op == "validate" else "norecurse-own-verdict"
                    fails.append({"clause": clause + tag, "expected": exp["ret"], "observed": o["ret"],
                                  "at": at, "step": r})
            if o["valids"] != exp["valids"]:
                clause = {"validate": "valid-flags", "norecurse": "norecurse-valid-flags",
                          "set_all_valid": "all_valid-setter"}[op]
                fails.append({"clause": clause + tag, "expected": exp["valids"], "observed": o["valids"],
                              "at": at, "step": r})
            if o["all_valid"] != all(v != "F" for _, v in o["valids"]):
                fails.append({"clause": "all_valid-getter" + tag, "expected": all(v != "F" for _, v in o["valids"]),
                              "observed": o["all_valid"]})
            if op != "validate":
                sub = {m["id"] for m in _preorder(_find(tree, at))}
                want = all(v != "F" for i, v in o["valids"] if i in sub)
                if o["at_all_valid"] != want:
                    fails.append({"clause": "all_valid-getter-subtree" + tag, "expected": want, "observed": o["at_all_valid"]})
            if op == "validate" and all(v != "F" for v in prev.values()) and o["all_valid"] != o["ret"]:
                # fresh tree, or every flag left truthy (e.g. by `all_valid = True`): return value = all_valid
                fails.append({"clause": "return-equals-all_valid" + tag, "expected": o["ret"], "observed": o["all_valid"]})
            if fails:
                break
            # the history goes on from what the library really left (a recorded finding must not cascade)
            prev = {i: v for i, v in o["valids"]}
        return fails

    def classify(self, case, failure):
        # KF-C05-a (recurse=False: a passing ascent list overrode a failed descent list) is repaired in /repo
        # (10acb0e); its witness is a regression case of the corpus.  No open finding.
        return None

    def nontrivial(self, case, obs):
        calls = sum(len(o.get("log", [])) for o in obs["steps"])
        if calls >= 2:
            return True
        return any(v == "U" for o in obs["steps"] for _, v in o["valids"][1:])

    def tags(self, case, obs):
        hist = _history(case)
        nodes = list(_preorder(case["tree"]))
        t = ["nodes=%d" % min(len(nodes), 12), "steps=%d" % len(hist)]
        for k in sorted({n["k"] for n in nodes}):
            t.append("kind=" + KIND_CLASS[k])
        for c in obs.get("_classes", []):
            t.append("class=" + c)
        for op in sorted({h[0] for h in hist}):
            t.append("op=" + op)
        if hist[0][0] == "set_all_valid" and any(h[0] == "validate" for h in hist):
            t.append("setter-before-validate")
        full = 0
        for h in hist:
            if h[0] == "validate":
                full += 1
            elif h[0] == "norecurse":
                t.append("norecurse-after-%d-full" % min(full, 2))
                n = _find(h[1], h[2])
                t.append("norecurse-on=" + KIND_CLASS[n["k"]])
                if _override_class(n):
                    t.append("norecurse-failed-descent-passing-ascent")
        if case.get("signal"):
            t.append("signal-receiver")
            if any(e[0] == "s" and e[2] == "NE" for o in obs["steps"] for e in (o.get("trace") or [])):
                t.append("signal-NotEmpty")
        if any(_down(n)[0] in ("SA", "SAF") for h in hist for n in _preorder(h[1])):
            t.append("has-skipall")
        if any(n["opt"] and n["empty"] for h in hist for n in _preorder(h[1])):
            t.append("has-optional-empty")
        if any(v == "U" for o in obs["steps"] for _, v in o["valids"]):
            t.append("has-unevaluated")
        t.append("calls=%d" % min(sum(len(o.get("log", [])) for o in obs["steps"]), 10))
        return t

    def shrink_candidates(self, case):
        import copy
        if "hist" not in case:
            case = dict(case, hist=[{"op": "validate"}] + [{"op": "validate", "tree": r} for r in case.get("rounds", [])])
            case.pop("rounds", None)
        hist = case["hist"]
        if len(hist) > 1:
            for i in range(len(hist)):
                c = copy.deepcopy(case)
                dropped = c["hist"].pop(i)
                if i == 0 and "tree" in c["hist"][0]:
                    c["tree"] = c["hist"][0].pop("tree")
                yield c
        if case.get("signal"):
            c = copy.deepcopy(case)
            c["signal"] = False
            yield c
        # later assignments dropped: every step runs on the first tree
        if any("tree" in st for st in hist):
            c = copy.deepcopy(case)
            for st in c["hist"]:
                st.pop("tree", None)
            yield c
            return
        tree = case["tree"]
        used = {st.get("at") for st in hist}
        nodes = list(_preorder(tree))

        def variant(t):
            ids_before = [m["id"] for m in _preorder(t)]
            c = copy.deepcopy(case)
            c["tree"] = _fix_empty(t)
            remap = {}
            for new, m in enumerate(_preorder(c["tree"])):
                remap[m["id"]] = new
            for st in c["hist"]:
                if "at" in st:
                    if st["at"] not in remap:
                        return None
                    st["at"] = remap[st["at"]]
            _number(c["tree"])
            return c
        # drop a subtree (a Dict keeps one field, a Compound its three)
        for n in nodes:
            for i in range(len(n["kids"])):
                if (n["k"] == "d" and len(n["kids"]) == 1) or n["k"] == "c":
                    continue
                t = copy.deepcopy(tree)
                target = [m for m in _preorder(t) if m["id"] == n["id"]][0]
                del target["kids"][i]
                if target["k"] == "sd" and not target["kids"] and not target.get("absent"):
                    target["absent"] = 1          # a SparseDict schema needs at least one field
                v = variant(t)
                if v is not None:
                    yield v
        for n in nodes:
            for key in ("down", "up"):
                for i in range(len(n[key])):
                    t = copy.deepcopy(tree)
                    target = [m for m in _preorder(t) if m["id"] == n["id"]][0]
                    del target[key][i]
                    v = variant(t)
                    if v is not None:
                        yield v
            if n["opt"]:
                t = copy.deepcopy(tree)
                [m for m in _preorder(t) if m["id"] == n["id"]][0]["opt"] = False
                v = variant(t)
                if v is not None:
                    yield v


def _valid_obj(code):
    from flatland.schema.base import Unevaluated
    return {"T": True, "F": False, "U": Unevaluated}[code]


PROP = C05()
