"""C05 — validate() follows the documented two-phase, all-elements algorithm."""
import itertools

from harness.core import Property

OUTCOMES = ["T", "F", "N", "S", "SA", "SAF"]


def _outcome_obj(code):
    from flatland.schema.base import Skip, SkipAll, SkipAllFalse
    return {"T": True, "F": False, "N": None, "S": Skip, "SA": SkipAll, "SAF": SkipAllFalse}[code]


# ---------------------------------------------------------------- case construction
# node = {"id", "k": "s"|"d"|"l", "c": bool, "opt", "empty", "down", "up", "kids"}

def _number(tree):
    counter = itertools.count()

    def go(n):
        n["id"] = next(counter)
        for k in n["kids"]:
            go(k)
    go(tree)
    return tree


def _rand_outcomes(rng, maxlen=3):
    n = rng.choice([0, 0, 1, 1, 1, 2, 2, 3][: maxlen + 5])
    n = min(n, maxlen)
    # bias towards True so that later validators are reached
    return [rng.choice(["T", "T", "T", "F", "N", "S", "SA", "SAF"]) for _ in range(n)]


def _rand_shape(rng, depth, budget):
    """shape: ("s",) | ("d", [shapes]) | ("l", shape, count)"""
    if depth <= 0 or budget[0] <= 1 or rng.random() < 0.35:
        budget[0] -= 1
        return ("s",)
    budget[0] -= 1
    if rng.random() < 0.5:
        n = rng.randint(1, 3)
        return ("d", [_rand_shape(rng, depth - 1, budget) for _ in range(n)])
    return ("l", _rand_shape(rng, depth - 1, budget), rng.randint(0, 3))


def _instantiate(rng, shape, maxlen=3):
    if shape[0] == "s":
        return {"k": "s", "c": False, "opt": rng.random() < 0.4, "empty": rng.random() < 0.4,
                "down": _rand_outcomes(rng, maxlen), "up": [], "kids": []}
    if shape[0] == "d":
        return {"k": "d", "c": True, "opt": rng.random() < 0.4, "empty": False,
                "down": _rand_outcomes(rng, maxlen), "up": _rand_outcomes(rng, maxlen),
                "kids": [_instantiate(rng, s, maxlen) for s in shape[1]]}
    kids = [_instantiate(rng, shape[1], maxlen) for _ in range(shape[2])]
    return {"k": "l", "c": True, "opt": rng.random() < 0.4, "empty": not kids,
            "down": _rand_outcomes(rng, maxlen), "up": _rand_outcomes(rng, maxlen), "kids": kids}


# ---------------------------------------------------------------- real implementation

def _schema_for(node, name=None):
    import flatland
    if node["k"] == "s":
        cls = flatland.String
    elif node["k"] == "d":
        cls = flatland.Dict.of(*[_schema_for(k, "f%d" % i) for i, k in enumerate(node["kids"])])
    else:
        member = node["kids"][0] if node["kids"] else {"k": "s", "kids": []}
        cls = flatland.List.of(_schema_for(member, None))
    return cls.named(name)


def _blank(node):
    if node["k"] == "s":
        return None if node["empty"] else "x"
    if node["k"] == "d":
        return {"f%d" % i: _blank(k) for i, k in enumerate(node["kids"])}
    return [_blank(k) for k in node["kids"]]


def _children(el, node):
    if node["k"] == "d":
        return [el["f%d" % i] for i in range(len(node["kids"]))]
    if node["k"] == "l":
        return list(el)
    return []


def _build(tree):
    """Return (root element, {id: element}, call log list)."""
    schema = _schema_for(tree, "root")
    root = schema()
    root.set(_blank(tree))
    log = []
    byid = {}
    _dress(root, tree, byid, log)
    return root, byid, log


def _dress(root, tree, byid, log):
    """(Re)assign optional flags, validator lists and scalar emptiness of every element."""
    def mk(nid, descending, idx, code):
        outcome = _outcome_obj(code)

        def validator(element, state):
            log.append([nid, descending, idx])
            return outcome
        return validator

    def dress(el, node):
        byid[node["id"]] = el
        el.optional = node["opt"]
        if node["c"]:
            el.descent_validators = [mk(node["id"], True, i, c) for i, c in enumerate(node["down"])]
            el.validators = [mk(node["id"], False, i, c) for i, c in enumerate(node["up"])]
        else:
            el.validators = [mk(node["id"], True, i, c) for i, c in enumerate(node["down"])]
            if bool(el.is_empty) != node["empty"]:
                el.set(None if node["empty"] else "x")
        kids = _children(el, node)
        assert len(kids) == len(node["kids"])
        for ke, kn in zip(kids, node["kids"]):
            dress(ke, kn)
    dress(root, tree)


def _preorder(node):
    yield node
    for k in node["kids"]:
        yield from _preorder(k)


def _valid_code(el):
    from flatland.schema.base import Unevaluated
    if el.valid is Unevaluated:
        return "U"
    if el.valid is True:
        return "T"
    if el.valid is False:
        return "F"
    return "X:%r" % (el.valid,)        # validate() stores bool(...) or Unevaluated, nothing else


# ---------------------------------------------------------------- oracle (spec B in Python)

def _list_verdict(codes):
    """(verdict in {'T','F','SA','SAF'}, number invoked)"""
    n = 0
    for c in codes:
        n += 1
        if c == "T":
            continue
        return {"F": "F", "N": "F", "S": "T", "SA": "SA", "SAF": "SAF"}[c], n
    return "T", n


def _element_verdict(node, codes):
    if node["empty"] and node["opt"]:
        return "T", 0
    if not codes:
        return ("F" if node["empty"] else "T"), 0
    return _list_verdict(codes)


def _down(node):
    if node["c"] and not node["down"]:
        return "U", 0
    return _element_verdict(node, node["down"])


def _up(node):
    if not node["c"]:
        return "U", 0
    return _element_verdict(node, node["up"])


_TRUTHY = {"U": True, "T": True, "SA": True, "F": False, "SAF": False}


def expected(tree, prev=None):
    prev = prev or {}
    visited = []
    level = [tree]
    while level:
        nxt = []
        for n in level:
            visited.append(n)
            if _down(n)[0] not in ("SA", "SAF"):
                nxt.extend(n["kids"])
        level = nxt
    log = []
    for n in visited:
        log += [[n["id"], True, i] for i in range(_down(n)[1])]
    for n in reversed(visited):
        log += [[n["id"], False, i] for i in range(_up(n)[1])]
    verdict = {}
    for n in visited:
        d, u = _down(n)[0], _up(n)[0]
        if d == "U" and u == "U":
            v = "U"
        elif d == "U":
            v = "T" if _TRUTHY[u] else "F"
        elif u == "U":
            v = "T" if _TRUTHY[d] else "F"
        else:
            v = "T" if (_TRUTHY[d] and _TRUTHY[u]) else "F"
        verdict[n["id"]] = v
    ret = all(v != "F" for v in verdict.values())
    # unvisited elements keep whatever an earlier call left (Unevaluated on a fresh tree)
    now = {n["id"]: verdict.get(n["id"], prev.get(n["id"], "U")) for n in _preorder(tree)}
    valids = [[n["id"], now[n["id"]]] for n in _preorder(tree)]
    return {"ret": ret, "valids": valids, "log": log, "all_valid": all(v != "F" for v in now.values())}, now


def _reassign(rng, tree):
    """Same tree shape, new outcomes / optional flags / scalar emptiness."""
    import copy
    t = copy.deepcopy(tree)
    for n in _preorder(t):
        n["opt"] = rng.random() < 0.4
        n["down"] = _rand_outcomes(rng)
        if n["c"]:
            n["up"] = _rand_outcomes(rng)
        elif rng.random() < 0.5:
            n["empty"] = rng.random() < 0.4
    return t


class C05(Property):
    id = "C05"
    title = "validate() follows the documented two-phase, all-elements algorithm"
    proof_module = "Proofs.C05Store"
    level_text = 'Lean 4 refinement theorem `validate_refines`: the queue algorithm of Element.validate equals the documented declarative semantics (level order over the tree pruned at SkipAll/SkipAllFalse; per-element verdict; exact call log; return value) for every tree and every outcome assignment; corollaries for each clause; the `.valid` store across calls is part of the model (`validNow`): `unvisited_untouched`, `visited_own_verdict`, `revalidate_store`, and `fresh_ret_eq_all_valid` (return value = all_valid over EVERY element of a fresh tree, for trees with distinct elements). The real validate_element and re-validation of the same element tree are tied by correspondence (exhaustive 2-node scope + random trees, 1-3 re-validations).'
    level_note = 'Trusted: Lean kernel + 3 standard axioms; hand-written model Flatland/C05.lean; validators are black boxes returning one of the six outcomes; trees without shared nodes; blinker signals not modelled; validate(recurse=False) not covered.'
    technique = 'Lean 4 proof (refinement of a queue loop to a declarative spec); differential correspondence incl. exhaustive small scope; Python oracle'
    theorems = [
        "Flatland.C05.Proofs.validate_refines",
        "Flatland.C05.Proofs.descend_visits",
        "Flatland.C05.Proofs.result_false_iff",
        "Flatland.C05.Proofs.valids_are_visited",
        "Flatland.C05.Proofs.siblings_independent",
        "Flatland.C05.Proofs.optional_empty_skipped",
        "Flatland.C05.Proofs.stops_at_first",
        "Flatland.C05.Proofs.never_below_skipall",
        "Flatland.C05.Proofs.unvisited_untouched",
        "Flatland.C05.Proofs.visited_own_verdict",
        "Flatland.C05.Proofs.visited_ids_nodup",
        "Flatland.C05.Proofs.fresh_ret_eq_all_valid",
        "Flatland.C05.Proofs.revalidate_store",
    ]
    trusted_base = [
        "validators modelled as black boxes returning one of the six outcomes and logging their call",
        "element tree has no shared nodes (the `seen` set of the loop is not modelled)",
        "blinker signal dispatch (validator_validated) not modelled",
    ]
    assumptions = [
        "is_empty/optional of a node are inputs of the model; the harness asserts they match the real element",
        "validate(recurse=False) is not covered",
    ]
    rule = ("(half of the cases re-validate the same element tree 1-3 more times with new outcomes, flags and scalar emptiness) "
            "trees of String/Dict/List nodes (List members share one member schema), per-node optional/empty flags and "
            "0-3 outcomes per validator list; exhaustive sub-space: every 2-node tree (container root + one scalar) over "
            "all outcome lists of length <=1 and all flags; non-trivial = at least 2 validators invoked or a SkipAll cut "
            "or an optional-empty skip; distinct = distinct canonical case JSON")
    exhaustive_note = "all 2-node trees (Dict or List root with one String child), validator lists of length <= 1, all flags; plus every ordered tree shape with 2-3 nodes (thorough: 2-4) (scalar leaves) under a Dict root, descent lists from {none,T,F,SkipAll,SkipAllFalse}, ascent lists from {none,T,F}"
    quick_n = 3000
    thorough_n = 150000

    def corpus(self):
        t = {"k": "d", "c": True, "opt": False, "empty": False, "down": ["T"], "up": ["T", "F"], "kids": [
            {"k": "d", "c": True, "opt": False, "empty": False, "down": ["SA"], "up": [], "kids": [
                {"k": "s", "c": False, "opt": False, "empty": False, "down": ["F"], "up": [], "kids": []}]},
            {"k": "s", "c": False, "opt": True, "empty": True, "down": ["F"], "up": [], "kids": []},
            {"k": "s", "c": False, "opt": False, "empty": False, "down": ["T", "N", "T"], "up": [], "kids": []}]}
        import copy
        first = {"k": "d", "c": True, "opt": False, "empty": False, "down": [], "up": ["F"], "kids": [
            {"k": "s", "c": False, "opt": False, "empty": False, "down": ["T"], "up": [], "kids": []}]}
        second = copy.deepcopy(first)
        second["up"] = ["T"]
        return [{"tree": _number(t)}, {"tree": _number(first), "rounds": [_number(second)]}]

    def exhaustive(self, tier):
        opts = [[]] + [[o] for o in OUTCOMES]
        if tier == "thorough":
            opts += [["T", o] for o in OUTCOMES]
        for rk in ("d", "l"):
            for rd, ru, ropt in itertools.product(opts, opts, (False, True)):
                for kd, kopt, kempty in itertools.product(opts, (False, True), (False, True)):
                    kid = {"k": "s", "c": False, "opt": kopt, "empty": kempty, "down": kd, "up": [], "kids": []}
                    root = {"k": rk, "c": True, "opt": ropt, "empty": False, "down": rd, "up": ru, "kids": [kid]}
                    yield {"tree": _number(root)}

        # every ordered tree SHAPE with up to 3 (quick) / 4 (thorough) nodes — siblings, nesting, empty
        # containers — over a reduced outcome alphabet: this is where sibling / level order, the ascent in
        # reverse and "never stops at an invalid sibling" become observable
        down_opts = [[], ["T"], ["F"], ["SA"], ["SAF"]]
        up_opts = [[], ["T"], ["F"]]

        def shapes(n):
            # ordered trees with exactly n nodes; a node is a scalar leaf or a Dict with a non-empty forest below it
            if n == 1:
                return [("s",)]
            out = []
            for forest in forests(n - 1):
                out.append(("d", forest))
            return out

        def forests(n):
            if n == 0:
                return [[]]
            out = []
            for first in range(1, n + 1):
                for t in shapes(first):
                    for rest in forests(n - first):
                        out.append([t] + rest)
            return out

        def build(shape):
            if shape[0] == "s":
                return {"k": "s", "c": False, "opt": False, "empty": False, "down": [], "up": [], "kids": []}
            return {"k": "d", "c": True, "opt": False, "empty": False, "down": [], "up": [], "kids": [build(k) for k in shape[1]]}

        import copy
        for size in ((2, 3) if tier != "thorough" else (2, 3, 4)):
            for shape in shapes(size):
                if shape[0] != "d":
                    continue
                base = build(shape)
                nodes = list(_preorder(base))
                conts = [n for n in nodes if n["c"]]
                leaves = [i for i, n in enumerate(nodes) if not n["c"]]
                # optional / empty flags on the leaves (the optional-and-empty shortcut interacts with sibling
                # and level order): all combinations for 2-node trees, and for 3-node trees in the thorough tier
                flag_opts = [(False, False)]
                if size == 2 or (tier == "thorough" and size == 3):
                    flag_opts = [(False, False), (True, True), (True, False), (False, True)]
                for flags in itertools.product(flag_opts, repeat=len(leaves)):
                    for downs in itertools.product(down_opts, repeat=len(nodes)):
                        for ups in itertools.product(up_opts, repeat=len(conts)):
                            t = copy.deepcopy(base)
                            tn = list(_preorder(t))
                            for n, d in zip(tn, downs):
                                n["down"] = list(d)
                            for n, u in zip([x for x in tn if x["c"]], ups):
                                n["up"] = list(u)
                            for i, (o, e) in zip(leaves, flags):
                                tn[i]["opt"], tn[i]["empty"] = o, e
                            yield {"tree": _number(t)}

    def generate(self, rng, n, tier):
        for _ in range(n):
            depth = rng.choice([1, 2, 2, 3, 3, 4])
            shape = _rand_shape(rng, depth, [rng.choice([4, 8, 12, 16])])
            if shape[0] == "s" and rng.random() < 0.8:
                shape = ("d", [shape, ("s",)])
            tree = _number(_instantiate(rng, shape))
            case = {"tree": tree}
            if rng.random() < 0.5:
                case["rounds"] = [_reassign(rng, tree) for _ in range(rng.choice([1, 1, 2, 3]))]
            yield case

    def _observe(self, root, byid, tree, log, start):
        ret = root.validate()
        return {
            "ret": ret if isinstance(ret, bool) else repr(ret),      # validate() returns a bool
            "valids": [[n["id"], _valid_code(byid[n["id"]])] for n in _preorder(tree)],
            "log": log[start:],
            "all_valid": bool(root.all_valid),
        }

    def run_impl(self, case):
        tree = case["tree"]
        root, byid, log = _build(tree)
        for n in _preorder(tree):
            assert bool(byid[n["id"]].is_empty) == n["empty"], "harness: is_empty mismatch"
        obs = self._observe(root, byid, tree, log, 0)
        rounds = []
        for rt in case.get("rounds", []):
            start = len(log)
            _dress(root, rt, byid, log)
            for n in _preorder(rt):
                assert bool(byid[n["id"]].is_empty) == n["empty"], "harness: is_empty mismatch"
            rounds.append(self._observe(root, byid, rt, log, start))
        obs["rounds"] = rounds
        return obs

    def oracle(self, case):
        obs = self.run_impl(case)
        fails = []
        prev = {}
        trees = [case["tree"]] + case.get("rounds", [])
        observed = [obs] + obs["rounds"]
        for r, (t, o) in enumerate(zip(trees, observed)):
            exp, prev = expected(t, prev)
            tag = "" if r == 0 else " (re-validation %d of the same tree)" % r
            if o["log"] != exp["log"]:
                fails.append({"clause": "invocation-order" + tag, "expected": exp["log"], "observed": o["log"]})
            if o["valids"] != exp["valids"]:
                fails.append({"clause": "valid-flags" + tag, "expected": exp["valids"], "observed": o["valids"]})
            if o["ret"] != exp["ret"]:
                fails.append({"clause": "return-value" + tag, "expected": exp["ret"], "observed": o["ret"]})
            if o["all_valid"] != exp["all_valid"]:
                fails.append({"clause": "all_valid" + tag, "expected": exp["all_valid"], "observed": o["all_valid"]})
            if r == 0 and o["all_valid"] != o["ret"]:
                fails.append({"clause": "return-equals-all_valid", "expected": o["ret"], "observed": o["all_valid"]})
            if fails:
                break
        return fails

    def nontrivial(self, case, obs):
        if len(obs["log"]) >= 2:
            return True
        return any(v == "U" for _, v in obs["valids"][1:])

    def tags(self, case, obs):
        nodes = list(_preorder(case["tree"]))
        t = ["nodes=%d" % min(len(nodes), 12), "ret=%s" % obs["ret"]]
        if any(_down(n)[0] in ("SA", "SAF") for n in nodes):
            t.append("has-skipall")
        if any(n["opt"] and n["empty"] for n in nodes):
            t.append("has-optional-empty")
        if any(v == "U" for _, v in obs["valids"]):
            t.append("has-unevaluated")
        t.append("calls=%d" % min(len(obs["log"]), 10))
        t.append("rounds=%d" % len(case.get("rounds", [])))
        return t

    def shrink_candidates(self, case):
        import copy
        if case.get("rounds"):
            for i in range(len(case["rounds"])):
                c = copy.deepcopy(case)
                del c["rounds"][i]
                yield c
            return
        tree = case["tree"]
        nodes = list(_preorder(tree))
        # drop a subtree (only below dict nodes with >1 kid, or list members)
        for n in nodes:
            for i in range(len(n["kids"])):
                if n["k"] == "d" and len(n["kids"]) == 1:
                    continue
                c = copy.deepcopy(tree)
                target = [m for m in _preorder(c) if m["id"] == n["id"]][0]
                del target["kids"][i]
                if target["k"] == "l":
                    target["empty"] = not target["kids"]
                yield {"tree": _number(c)}
        for n in nodes:
            for key in ("down", "up"):
                for i in range(len(n[key])):
                    c = copy.deepcopy(tree)
                    target = [m for m in _preorder(c) if m["id"] == n["id"]][0]
                    del target[key][i]
                    yield {"tree": c}
            if n["opt"]:
                c = copy.deepcopy(tree)
                [m for m in _preorder(c) if m["id"] == n["id"]][0]["opt"] = False
                yield {"tree": c}


PROP = C05()
