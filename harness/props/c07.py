"""C07 — flatten() is compositional and names every leaf by its position."""
import copy
from collections import Counter

from harness import flatlib as fl
from harness.core import Property, canon
from harness.props import g1common as G


def _lists_in(el):
    """All List elements of the tree in breadth-first order (root included)."""
    import flatland
    out = []
    queue = [el]
    while queue:
        e = queue.pop(0)
        if isinstance(e, flatland.List):
            out.append(e)
        queue.extend(e.children)
    return out


def _member_schema_of(lst, root, schema):
    for e, s in fl.walk_elements(root, schema):
        if e is lst:
            return s["member"]
    return None


def _signed(m, n):
    """An in-range index, negative (counted from the end) when the mutation says so."""
    i = m["i"] % n
    return i - n if m.get("neg") else i


def apply_mutations(root, schema, kinds, muts):
    """Apply list mutations; each names its target as an index into the current BFS list of Lists."""
    applied = []
    for m in muts:
        lists = _lists_in(root)
        if not lists:
            break
        lst = lists[m["target"] % len(lists)]
        n = len(lst)
        op = m["op"]
        val = lambda j: fl.decode_native(j)
        try:
            if op == "insert":
                lst.insert(_signed(m, n + 1) if n else 0, val(m["v"]))
            elif op == "append":
                lst.append(val(m["v"]))
            elif op == "pop":
                if n:
                    lst.pop(_signed(m, n))
            elif op == "del":
                if n:
                    del lst[_signed(m, n)]
            elif op == "delslice":
                a, b = sorted((m["i"] % (n + 1), m["j"] % (n + 1)))
                del lst[a:b]
            elif op == "setslice":
                a, b = sorted((m["i"] % (n + 1), m["j"] % (n + 1)))
                lst[a:b] = [val(v) for v in m["vs"]]
            elif op == "delslice3":
                del lst[slice(*m["sl"])]
            elif op == "setslice3":
                sl = slice(*m["sl"])
                vs = [val(v) for v in m["vs"]]
                if sl.step not in (None, 1):
                    # extended slices need exactly as many values as they select
                    k = len(range(*sl.indices(n)))
                    vs = (vs * (k + 1))[:k]
                lst[sl] = vs
            elif op == "setitem":
                if n:
                    lst[_signed(m, n)] = val(m["v"])
            elif op == "extend":
                lst.extend([val(v) for v in m["vs"]])
            elif op == "iadd":
                lst += [val(v) for v in m["vs"]]
            elif op == "remove":
                if n:
                    lst.remove(lst[m["i"] % n])
            elif op == "imul":
                lst *= [-1, 0, 1, 2, 2, 3][m["i"] % 6]
            elif op == "clear":
                lst.clear()
            elif op == "reverse":
                lst.reverse()
            elif op == "sort":
                lst.sort(key=lambda e: repr(e.u), reverse=bool(m.get("rev")))
            elif op == "remove_first":
                if n:
                    list.__delitem__(lst, 0)
                    lst._renumber()
            applied.append(op)
        except (KeyError, TypeError, ValueError, IndexError) as e:
            applied.append("%s!%s" % (op, type(e).__name__))
    return applied


def expected_pairs(el, sep, names, dict_by_name=False):
    """Independent recursive computation of the pairs an element must emit (any order): uses only
    children, flattenable, children_flattenable, names/keys and POSITIONS.  `dict_by_name`: a member
    of a mapping contributes its own `.name` (tree-history family: an Element stored under a key may
    carry a different name — the property speaks of NAMES on the path) instead of its key."""
    import flatland
    if dict_by_name:
        out = [(sep.join(names), el.u)] if el.flattenable else []
        if el.children_flattenable:
            for i, child in enumerate(el.children):
                out += expected_pairs(child, sep, names + ([str(i)] if isinstance(el, flatland.List) else [])
                                      + ([child.name] if child.name is not None else []), True)
        return out
    out = []
    if el.flattenable:
        out.append((sep.join(names), el.u))
    if el.children_flattenable:
        if isinstance(el, flatland.List):
            for i, child in enumerate(el.children):
                out += expected_pairs(child, sep, names + [str(i)] + ([child.name] if child.name is not None else []))
        elif isinstance(el, dict):
            for key, child in dict.items(el):
                out += expected_pairs(child, sep, names + [key])
        else:
            for child in el.children:
                out += expected_pairs(child, sep, names + ([child.name] if child.name is not None else []))
    return out


def dirty_names(rng, schema, sep):
    """Decorate some names with separator characters (leading, trailing, inner, doubled)."""
    def decorate(n):
        c = rng.choice([sep, sep, sep[0], sep[-1]])
        return rng.choice([c + n, n + c, c + n + c, c + c + n, n[:1] + c + n[1:], c])

    def visit(s, siblings):
        if s.get("name") is not None and rng.random() < 0.4:
            new = decorate(s["name"])
            if new not in siblings:
                siblings.discard(s["name"])
                siblings.add(new)
                s["name"] = new
        if s["t"] in ("dict", "compound"):
            if s["t"] == "compound":
                return          # member names of DateYYYYMMDD are fixed by the class
            sib = {f["name"] for f in s["fields"]}
            for f in s["fields"]:
                visit(f, sib)
        elif s["t"] in ("list", "array"):
            visit(s["member"], set())
    visit(schema, set())


def path_names(el):
    return [p.name for p in el.path if p.name is not None]


def build(case):
    cls = fl.build_class(case["schema"], case["kinds"])
    el = cls()
    el.set(fl.decode_native(case["value"]))
    return el


# ------------------------------------------------------------------ tree-history family
# Histories of container calls (the case format, executor and generators of C08/C09:
# harness/props/g1common.py) run on the real library AND on the Lean tree model
# (Flatland/Tree.lean through Flatland/TreeJson.lean); after the construction and after every call
# `root.flatten(sep)` is compared with `Flatland.C07Tree.flattenTree` / `flattenCode` of the model's tree.

TREE_SEPS = ["_", "_", "_", ".", "__", "-", "/", "_0_"]
QUERY_OPS = ("len", "getitem", "getslice", "contains", "index", "count", "observe", "reversed", "imul_bad")


def is_tree(case):
    return case.get("family") == "tree-history"


def _lists_of(ex):
    import flatland
    return [e for e, _ in ex.reach() if isinstance(e, flatland.List)]


def slots_positional(ex):
    """every List of the tree names the slot of member i `str(i)` (read through the public API:
    `member.parent.name`)"""
    for lst in _lists_of(ex):
        names = [getattr(getattr(m, "parent", None), "name", None) for m in lst]
        if names != [str(i) for i in range(len(names))]:
            return False
    return True


class TreeExec(G.Exec):
    """`{"member": j, "same": bool, "of": k}`: the Element handed to the call is the j-th member, of the
    needed class, of the target itself (`same`) or of the k-th sequence of the tree — an element that
    ALREADY sits in the tree (oracle-only: the Lean tree model has no aliasing)."""

    def mk_arg0(self, target, key, a):
        if "member" in a:
            seqs = [c for c in self.containers() if G.is_seq(c)]
            src = target if a.get("same", True) or not seqs else seqs[a.get("of", 0) % len(seqs)]
            need = self.needed_schema(target, key)
            ms = [m for m in src if need is not None and type(m) is need] if G.is_seq(src) else []
            if not ms:
                raise G.Skip("nomember")
            return ("elem", ms[a["member"] % len(ms)])
        return super().mk_arg0(target, key, a)


REJECTED_INDEXES = [9999, -9999, 9999, "1", "0", None, 2.5]


def name_path_dup(ex):
    """two emitted elements on the same NAME path that are not members of one Array / MultiValue"""
    import flatland
    seen = {}
    for e, _ in ex.reach():
        if not getattr(e, "flattenable", False):
            continue
        key = tuple(path_names(e))
        # an element stored in a mapping under a key that is not its name (an instance of a RENAMED subclass assigned to
        # a SparseDict key: the state of the open finding KF-C10-a / KF-C13-c) can share its name with a sibling; the
        # uniqueness clause is about schemas, where a mapping's keys ARE its members' names — such elements are skipped
        chain = [e] + ex.parents(e)
        if any(isinstance(p, dict) and dict.get(p, c.name) is not c for c, p in zip(chain, chain[1:])):
            continue
        # the outermost Array/MultiValue above the element owns the shared paths (its members repeat one name path)
        owner = id(e)
        for p in ex.parents(e):
            if isinstance(p, flatland.Array):
                owner = id(p)
        if key in seen and seen[key] != owner:
            return list(key)
        seen.setdefault(key, owner)
    return None


def tree_view(sep):
    def view(ex, info):
        pairs = [list(p) for p in ex.root.flatten(sep)]
        ran = "%s:%s" % (info["kind"], info["op"]["op"]) if info.get("op") and info.get("kind") else None
        return {"flatten": pairs, "flatten_code": pairs, "positional": slots_positional(ex), "spec_agrees": True,
                "_ran": ran}
    return view


def tree_check(sep):
    def check(ex, info):
        import flatland
        root = ex.root
        fails = []
        # rejected calls that were handed an element ALREADY in the tree, by the shape of the call (class predicates of
        # the open findings KF-C07-b / KF-C07-c; everything else that fails is reported)
        causes = ex.__dict__.setdefault("_c07_causes", [])
        o = info.get("op") or {}
        if info.get("raised") is not None and "member" in (o.get("a") or {}):
            tgt = info.get("target")
            int_index = isinstance(o.get("i"), int) and not isinstance(o.get("i"), bool)
            if isinstance(tgt, flatland.List):
                if o.get("op") == "insert" and not int_index:
                    causes.append("list-insert-nonint-index-of-member")
            elif o.get("op") in ("insert", "setitem"):
                causes.append("array-rejected-placement-of-member")
        got = root.flatten(sep)
        exp = expected_pairs(root, sep, [root.name] if root.name is not None else [], dict_by_name=True)
        op = (info.get("op") or {}).get("op") if not info.get("init") else "init:" + ex.case["init"]["route"]
        if Counter(got) != Counter(exp):
            fails.append({"clause": "keys-are-positions", "step": info["i"], "op": op,
                          "expected": sorted(map(list, exp)), "observed": sorted(map(list, got))})
        elif name_path_dup(ex) is not None:
            fails.append({"clause": "name-paths-unique", "step": info["i"], "op": op,
                          "expected": "only the members of one Array/MultiValue share a name path",
                          "observed": name_path_dup(ex)})
        elif not slots_positional(ex):
            fails.append({"clause": "slots-named-by-position", "step": info["i"], "op": op,
                          "expected": "slot i of every List is named str(i)",
                          "observed": [[getattr(getattr(m, "parent", None), "name", None) for m in l] for l in _lists_of(ex)]})
        # a sort that raised inside a COMPARISON leaves the List rearranged (round m1): same members, slots named by
        # CURRENT position, name paths through the current index (the clauses above see the whole tree; this one names
        # the call)
        fails.extend(G.check_sort_failure(ex, info))
        for f in fails:
            f["causes"] = list(causes)
        return fails
    return check


def _tree_schema(rng, cid):
    """schemas whose flat keys pass through List slots, often twice: List of Dict with a nested List"""
    def sc(k, name=None, subs=(), **kw):
        d = {"cid": cid(), "k": k, "name": name, "opt": False, "policy": "subset", "minreq": False, "isa": [],
             "default": None, "subs": list(subs)}
        d.update(kw)
        return d
    r = rng.random()
    leaf = lambda name=None: sc(rng.choice(["integer", "string"]), name)
    if r < 0.35:
        inner = sc(rng.choice(["list", "list", "array", "multi"]), "n", [leaf(rng.choice([None, "m"]))])
        fields = [leaf("x"), inner] if rng.random() < 0.7 else [inner, leaf("x"), leaf("y")]
        member = sc(rng.choice(["dict", "dict", "sparse"]), rng.choice([None, None, "d"]), fields,
                    policy=rng.choice(["subset", "duck"]))
        return sc("list", rng.choice([None, "l"]), [member])
    if r < 0.5:
        return sc("list", rng.choice([None, "l"]), [sc("list", rng.choice([None, "m"]), [leaf(rng.choice([None, "s"]))])])
    if r < 0.65:
        return sc("list", rng.choice([None, "l"]), [leaf(rng.choice([None, "s"]))])
    if r < 0.8:
        return sc("dict", rng.choice([None, "r"]), [sc("list", "a", [leaf(rng.choice([None, "s"]))]),
                                                   sc("list", "b", [sc("dict", None, [leaf("x"), leaf("y")])]), leaf("k")])
    return G.gen_schema(rng, cid, rng.choice([2, 3, 3]), name=rng.choice([None, "r"]),
                        kinds=["list", "list", "list", "dict", "sparse", "array", "multi"])


SORT_FAILURE_SHARE = 0.05


def gen_tree_case(rng):
    if rng.random() < SORT_FAILURE_SHARE:
        # a keyed sort whose COMPARISON raises (round m1; oracle only — the tree model's keyed sort sorts or answers
        # `unsupported`): CPython leaves the slots rearranged, flatten() must name every leaf by its CURRENT position
        case = G.gen_sort_failure_case(rng)
        case["family"], case["sep"] = "tree-history", rng.choice(TREE_SEPS)
        return case
    cid = G.Counter()
    schema = _tree_schema(rng, cid)
    hostile = rng.random() < 0.1
    route = rng.choice(["ctor", "ctor_value", "ctor_value", "ctor_value", "set", "set", "from_defaults", "set_default"])
    case = {"family": "tree-history", "sep": rng.choice(TREE_SEPS), "schema": schema,
            "init": {"route": route, "value": G.gen_value(rng, schema, valid=not hostile)}}
    conts = [s for s in G.walk_schemas(schema) if s["k"] in G.SEQ_KINDS + G.MAP_KINDS]
    seqs = [s for s in conts if s["k"] in G.SEQ_KINDS]
    lists = [s for s in seqs if s["k"] == "list"]
    maps = [s for s in conts if s["k"] in G.MAP_KINDS]
    ops = []
    for _ in range(rng.choice([1, 2, 3, 4, 6, 8, 12])):
        o = {"t": rng.randint(0, 7)}
        if seqs:
            sq = rng.choice(lists if lists and rng.random() < 0.7 else seqs)
            for _retry in range(4):
                o["s"] = G.gen_seq_op(rng, sq["subs"][0], valid=not hostile)
                if o["s"]["op"] not in QUERY_OPS:
                    break
        if maps:
            o["m"] = G.gen_map_op(rng, rng.choice(maps), valid=not hostile)
        ops.append(o)
    if lists and rng.random() < 0.12:
        # REJECTED calls handed an element that already is a member (of the same List or of another sequence of the
        # tree): `lst[len(lst)] = lst[0]`, `lst['1'] = other[2]`, `lst.insert('0', lst[1])` — nothing may move, flatten()
        # and every later call must still see every member at its position.  Oracle-only (no aliasing in the Lean model).
        case["nomodel"] = True
        case["why_nomodel"] = "Element argument is an existing member (aliasing)"
        for _ in range(rng.choice([1, 1, 2, 3])):
            a = {"member": rng.randint(0, 4), "same": rng.random() < 0.6, "of": rng.randint(0, 5)}
            bad = rng.choice(REJECTED_INDEXES)
            if isinstance(bad, int) or rng.random() < 0.7:
                op = {"op": "setitem", "i": bad, "a": a}
            else:
                op = {"op": "insert", "i": bad, "a": a}       # a non-integer index: TypeError before anything is placed
            ops.insert(rng.randint(0, len(ops)), {"t": rng.randint(0, 7), "s": op})
    case["ops"] = ops
    if G.has_flat(case):
        case["nomodel"] = True
    return case


class C07(Property):
    id = "C07"
    title = "flatten() is compositional and names every leaf by its position"
    proof_module = "Proofs.C07TreeNodupHist"
    level_text = ("Lean 4 theorems on the flatten model: `flatten_compositional` (multiset equality with the members' own outputs at every node), "
                  "`flatten_level_order`, `joined_opaque`, `keys_are_paths` (key = separator-join of names, list members by position), "
                  "`keys_unique_paths` (equal keys imply equal name paths under SepSafe), `keys_nodup_noArray` / `keys_nodup_firstOnly` + "
                  "`keys_firstOnly_iff` (for every conforming state of a wf schema without SparseDict the keys are pairwise distinct once every "
                  "Array/MultiValue is cut to its first member, and the cut loses no key). "
                  "'List members contribute their CURRENT index' is a theorem over the tree model (Flatland/Tree.lean: ListSlots with STORED names, "
                  "every list operation with its renumbering): `flattenTree` builds each key from the stored slot names as Element.flatten/flattened_name do; "
                  "`flattenTree_positional`: on every tree all of whose Lists name their slots by position it equals the positional specification "
                  "(`specFlatten`, keys from positions) pair for pair; `flatten_positional_history` / `flatten_positional_after_every_step`: that invariant — hence the equality — "
                  "holds after every step of every history of the MODEL's calls (append/extend/+=/insert/item and slice assignment and deletion/pop/remove/"
                  "reverse/sort/*=/clear/set/set_default and every dict-protocol call, whether the model's call returns or raises, on any element of a tree of any depth) from any "
                  "constructed tree — 'raising' is true of the model, whose raising paths are the rejections and prefix-keeping failures it implements; the model's keyed sort "
                  "never raises (it sorts or answers `unsupported`: C08.Proofs.keyed_sort_only_refuses), so the CODE's path 'a comparison raises inside list.sort and the slots are "
                  "left rearranged' is not an instance: there the invariant is re-established by the `finally: self._renumber()` of List.sort (9873cdc), which is proved separately "
                  "for EVERY rearrangement (`sort_failure_any_permutation_dps`, `sort_failure_flatten_positional`; `sort_failure_old_stale`: refuted without the renumbering) and "
                  "checked on the real code by the oracle (sort keys e.value / cmp-raise / cmp-mutate; clauses keys-are-positions, slots-named-by-position, sort-keeps-members); `flattenTree_eq_flat`: on such trees flattenTree IS the flat model's flatten of the abstracted tree, so compositionality, "
                  "keys-are-paths and uniqueness transfer (`tree_keys_are_paths`, `tree_flatten_compositional`); `flattenTree_stale_differs`: one stale slot name "
                  "refutes the unconditional statement. Tied to /repo twice: flat family (element states after random list-mutation histories, model recomputes "
                  "flatten) and tree-history family (the same history runs on the real library and on the Lean tree model; flatten() is compared after the "
                  "construction and after every call, with both the shape walk and the literal pointer-walking rendering); the oracle recomputes keys from positions. "
                  "The LITERAL rendering of Element.flatten / flattened_name (`flattenCode`: queue with a `seen` set of identities, every key by walking the STORED parent "
                  "pointers through C08.pathOf) is now proved equal to the shape walk: `flattenCode_eq_flattenTree_of` / `flattenCode_eq_flattenTree` (well-parented, parentless root, "
                  "unique identities = C08's TreeOK, Lists hold ListSlots, walk bound >= height of the tree; universe root :: pool as the runner uses it), "
                  "`flattenCode_eq_flattenTree_history` and `c07_code_histories`: along every history from every construction route the code rendering = the positional "
                  "specification (C08's `c08_tree_inv` + h1's `hrun_dps` composed); `dupId_drops_subtree`, `stalePtr_wrong_chain`, `notSlotted_wrong_name`, "
                  "`flattenCode_unconditional_fails`: each hypothesis is needed (a duplicated identity makes the seen-set drop a subtree, a stale parent pointer names the wrong chain). "
                  "Uniqueness on trees: `tree_keys_nodup_arrLe1` / `tree_keys_nodup_noArray` (deep-positional tree, mapping children with pairwise distinct names, Arrays/MultiValues "
                  "with <= 1 member resp. none, SepSafe separator => keys pairwise distinct), `tree_keys_nodup_histories_partial`, `tree_nodup_noArray_hist_partial`, "
                  "`code_keys_nodup_histories_partial` (after every step of every history; `distinctNames` / `arrLe1T` are decidable checks of the state reached), "
                  "`distinctNames_not_invariant` + `tree_keys_nodup_full_fails`: the check cannot be dropped (two renamed instances assigned to a SparseDict flatten under one key).")
    level_note = ('Trusted: Lean kernel + 3 standard axioms; models Flatland/Flat.lean (flatten part), Flatland/Tree.lean + Flatland/C07Tree.lean; in the flat '
                  'family element state and leaf texts are extracted from the real element; that only Array/MultiValue members share a name path is proved on '
                  'trees under the decidable check `distinctNames` of the state reached (not an invariant: distinctNames_not_invariant) and checked by the oracle on every step; '
                  '`flattenCode = flattenTree` (seen-set never fires, pointer walk = accumulated names) is PROVED under C08\'s invariant and along histories '
                  '(c07_code_histories; inherited hypotheses: swf schema, HistOK = OpArgsWP + HistFresh/ArgsFresh, OpArgsDP) and still compared on every step; '
                  'the runner\'s walk bound 64 is covered when the tree is at most 64 levels deep (height <= fuel).')
    technique = 'Lean 4 proof (queue BFS = level order, permutation with per-child outputs); differential correspondence; Python oracle'
    extra_proof_modules = ["Proofs.C09SortFailure"]
    theorems = [
        # round m1: the failure path of List.sort (some rearrangement, then _renumber()) — for every permutation
        "Flatland.C08.Proofs.keyed_sort_only_refuses",
        "Flatland.C09.Proofs.sort_failure_any_permutation_dps",
        "Flatland.C09.Proofs.sort_failure_flatten_positional",
        "Flatland.C09.Proofs.sort_failure_old_stale",
        "Flatland.Flat.Proofs.flatten_compositional",
        "Flatland.Flat.Proofs.flatten_root_compositional",
        "Flatland.Flat.Proofs.flatten_level_order",
        "Flatland.Flat.Proofs.joined_opaque",
        "Flatland.Flat.Proofs.joined_opaque_in_queue",
        "Flatland.Flat.Proofs.childItems_positional",
        "Flatland.Flat.Proofs.keys_are_paths",
        "Flatland.Flat.Proofs.below_joined",
        "Flatland.Flat.Proofs.joinSep_inj",
        "Flatland.Flat.Proofs.keys_unique_paths",
        "Flatland.Flat.Proofs.keys_nodup_noArray",
        "Flatland.Flat.Proofs.paths_nodup_firstOnly",
        "Flatland.Flat.Proofs.paths_firstOnly_iff",
        "Flatland.Flat.Proofs.keys_nodup_firstOnly",
        "Flatland.Flat.Proofs.keys_firstOnly_iff",
        "Flatland.Flat.Proofs.keys_nodup_needs_sepSafe",     # KF-C07-a: the hypothesis SepSafe is needed
        "Flatland.Flat.Proofs.ov_not_sepSafe",
        # 'list members contribute their CURRENT index' over the tree model (stored slot names)
        "Flatland.C07Tree.Proofs.flattenTree_positional",
        "Flatland.C07Tree.Proofs.flattenTree_eq_flat",
        "Flatland.C07Tree.Proofs.specFlatten_eq_flat",
        "Flatland.C07Tree.Proofs.tree_keys_are_paths",
        "Flatland.C07Tree.Proofs.tree_flatten_compositional",
        "Flatland.C07Tree.Proofs.flattenTree_stale_differs",
        "Flatland.C07Tree.Proofs.C07_positional_unconditional_fails",
        # the invariant along histories (every list-protocol and dict-protocol call, any element of the tree)
        "Flatland.C07Tree.Proofs.Inv.dp_of_dps",
        "Flatland.C07Tree.Proofs.Inv.seqStep_dps",
        "Flatland.C07Tree.Proofs.Inv.mapStep_dps",
        "Flatland.C07Tree.Proofs.Inv.stepAt_dps",
        "Flatland.C07Tree.Proofs.Inv.hrun_dps",
        "Flatland.C07Tree.Proofs.Inv.hrun_dp_prefix",
        "Flatland.C07Tree.Proofs.Inv.construct_dps",
        "Flatland.C07Tree.Proofs.Inv.fromDefaults_dps",
        "Flatland.C07Tree.Proofs.Inv.setNode_dps",
        "Flatland.C07Tree.Proofs.Inv.setDefault_dps",
        "Flatland.C07Tree.Proofs.Inv.dp_not_framed",
        "Flatland.C07Tree.Proofs.Inv.dp_not_node_level",
        "Flatland.C07Tree.Proofs.flatten_positional_history",
        "Flatland.C07Tree.Proofs.flatten_positional_after_every_step",
        "Flatland.C07Tree.Proofs.flatten_flat_after_every_step",
        "Flatland.C07Tree.Proofs.constructed_dps",
        "Flatland.C07Tree.Proofs.c07_positional_histories",
        "Flatland.C07Tree.Proofs.flatten_positional_run",
        # k5: the literal code rendering = the shape walk, along histories; uniqueness on trees
        "Flatland.C07Tree.Proofs.anc_height",
        "Flatland.C07Tree.Proofs.slotted_of_dps",
        "Flatland.C07Tree.Proofs.parentsOf_cons_eq",
        "Flatland.C07Tree.Proofs.codePair_eq",
        "Flatland.C07Tree.Proofs.codeLoop_eq_bfs",
        "Flatland.C07Tree.Proofs.flattenCode_eq_flattenTree_of",
        "Flatland.C07Tree.Proofs.flattenCode_eq_flattenTree",
        "Flatland.C07Tree.Proofs.flattenCode_eq_flattenTree_size",
        "Flatland.C07Tree.Proofs.constructed_treeok",
        "Flatland.C07Tree.Proofs.flattenCode_eq_flattenTree_history",
        "Flatland.C07Tree.Proofs.c07_code_histories",
        "Flatland.C07Tree.Proofs.c07_code_flat_histories",
        "Flatland.C07Tree.Proofs.dupId_drops_subtree",
        "Flatland.C07Tree.Proofs.stalePtr_wrong_chain",
        "Flatland.C07Tree.Proofs.notSlotted_wrong_name",
        "Flatland.C07Tree.Proofs.flattenCode_unconditional_fails",
        "Flatland.C07Tree.Proofs.pathsOK_toFNode",
        "Flatland.C07Tree.Proofs.tree_keys_nodup_arrLe1",
        "Flatland.C07Tree.Proofs.tree_keys_nodup_noArray",
        "Flatland.C07Tree.Proofs.tree_keys_nodup_histories_partial",
        "Flatland.C07Tree.Proofs.tree_nodup_noArray_hist_partial",
        "Flatland.C07Tree.Proofs.code_keys_nodup_histories_partial",
        "Flatland.C07Tree.Proofs.sepSafe_single_char_tree",
        "Flatland.C07Tree.Proofs.distinctNames_not_invariant",
        "Flatland.C07Tree.Proofs.tree_keys_nodup_full_fails",
    ]
    trusted_base = [
        "scalar text (.u) and compound text are inputs of the flat model (env tables computed from the real classes in isolation; subjects of C04/C18)",
        "element state is extracted from the real element after set() and list mutations; flatten is recomputed by the model (flat family)",
        "tree-history family: nothing is extracted — schema, construction route and calls go to the real library and to the Lean tree model alike (executor Flatland/TreeJson.lean, shared with C08/C09); histories the tree model does not cover (it answers 'unsupported') are oracle-only and tagged so",
    ]
    assumptions = ["the uniqueness THEOREMS need SepSafe names and separators (keys_nodup_needs_sepSafe: refuted without it, KF-C07-a); the oracle checks uniqueness for every separator; Array members are scalars (library assertion)",
                   "history theorems: Element arguments handed to a call are themselves deep-positional subtrees (`Inv.OpArgsDP`; true of everything the construction routes and earlier calls produce)",
                   "code-rendering history theorems (c07_code_histories, code_keys_nodup_histories_partial) inherit C08's hypotheses: the schema declares every mapping key once (`swf`), Element arguments are internally well-parented (`OpArgsWP`) and fresh or detached (`HistFresh`/`ArgsFresh`: identities not in the tree, below the counter, kok); the walk bound is at least the height of the tree",
                   "uniqueness on trees: `distinctNames` (mapping children carry pairwise distinct, non-None names) and `arrLe1T`/`noArrayT` are decidable checks of the state reached, not derived from the history (distinctNames_not_invariant)"]
    rule = ("random schemas (Dict/SparseDict/List/Array/MultiValue/JoinedString/DateYYYYMMDD/scalars, depth<=4, hostile names and "
            "separators) x mostly-valid native values x 0-4 list mutations (insert/append/pop/del/slices/reverse/sort); non-trivial = "
            ">=3 pairs emitted and at least one container below the root; distinct = canonical case JSON. "
            "Tree-history family (as many cases again): schemas whose keys pass through List slots (List of Dict with a nested List/Array/MultiValue, List of List, "
            "Dict of Lists, random trees of depth<=3) x 5 construction routes x 1-12 calls from the C08/C09 generators (all list-protocol and dict-protocol calls, "
            "plain values / fresh Elements / detached Elements as arguments, 10% hostile) on any container of the tree x 8 separators; 5 % of the tree histories (tag tree:sortfail:case, "
            "oracle only) are built around sorts whose COMPARISON raises (g1common.gen_sort_failure_case: ints mixed with unadapted text sorted by e.value, key objects whose `<` raises "
            "after k comparisons or appends to the list being sorted; root List, nested Lists, Lists inside Dicts; then append and a renumbering call); flatten() of the root is "
            "compared with the Lean tree model after every call; non-trivial = at least two calls changed what flatten() returns")
    quick_n = 2500
    thorough_n = 60000

    def corpus(self):
        kinds = [fl.LEAF_KINDS[0], {"type": "Joined", "sep": ",", "prune": True, "member": fl.LEAF_KINDS[0]}]
        joined_in_dict = {  # fixed: D-C07-1
            "schema": {"t": "dict", "name": None, "opt": False, "mode": "dense", "fields": [
                {"t": "joined", "name": "j", "opt": False, "k": 1, "member": {"t": "leaf", "name": None, "opt": False, "k": 0}},
                {"t": "leaf", "name": "k", "opt": False, "k": 0}]},
            "kinds": kinds, "sep": "_", "value": {"d": [["j", [{"s": "a"}, {"s": "b"}]], ["k", {"s": "z"}]]}, "muts": []}
        renumber = {
            "schema": {"t": "list", "name": "l", "opt": False, "prune": True, "max": 1024,
                       "member": {"t": "leaf", "name": "s", "opt": False, "k": 0}},
            "kinds": kinds, "sep": "_", "value": [{"s": "a"}, {"s": "b"}, {"s": "c"}],
            "muts": [{"target": 0, "op": "reverse"}, {"target": 0, "op": "insert", "i": 1, "v": {"s": "q"}},
                     {"target": 0, "op": "pop", "i": 0}, {"target": 0, "op": "sort"}]}
        stepped = dict(renumber, muts=[{"target": 0, "op": "delslice3", "sl": [None, None, 2]},
                                       {"target": 0, "op": "append", "v": {"s": "z"}}])
        negpop = dict(renumber, muts=[{"target": 0, "op": "pop", "i": 1, "neg": True}])
        S = lambda name: {"t": "leaf", "name": name, "opt": False, "k": 0}
        overlap = {"schema": {"t": "dict", "name": None, "opt": False, "mode": "dense", "fields": [      # KF-C07-a
            {"t": "dict", "name": "a_", "opt": False, "mode": "dense", "fields": [S("b")]},
            {"t": "dict", "name": "a", "opt": False, "mode": "dense", "fields": [S("_b")]}]},
            "kinds": kinds, "sep": "__", "value": {"d": [["a_", {"d": [["b", {"s": "1"}]]}], ["a", {"d": [["_b", {"s": "2"}]]}]]},
            "muts": []}
        # tree-history family
        def TS(k, cid, name=None, subs=()):
            return {"cid": cid, "k": k, "name": name, "opt": False, "policy": "subset", "minreq": False, "isa": [],
                    "default": None, "subs": list(subs)}
        li = TS("list", 1, "l", [TS("integer", 2, "i")])
        # seeded C07-setitem-new-slot-before-index-check: a REJECTED `lst[len(lst)] = lst[0]` must not re-parent the member
        rejected_alias = {"family": "tree-history", "sep": "_", "schema": li, "nomodel": True,
                          "init": {"route": "ctor_value", "value": {"l": [10, 20, 30]}},
                          "ops": [{"t": 0, "s": {"op": "setitem", "i": 3, "a": {"member": 0, "same": True}}},
                                  {"t": 0, "s": {"op": "append", "a": {"v": 40}}},
                                  {"t": 0, "s": {"op": "setitem", "i": "1", "a": {"member": 2, "same": True}}},
                                  {"t": 0, "s": {"op": "pop", "i": 0}}]}
        lod = TS("list", 1, "l", [TS("dict", 2, None, [TS("string", 3, "x"), TS("list", 4, "n", [TS("integer", 5)])])])
        dval = lambda x, ns: {"d": [["x", x], ["n", {"l": ns}]]}
        # the history of Proofs/C07TreeExamples.lean (insert(-1, ...), sort, del l[::2]) plus rejected calls in between
        nested = {"family": "tree-history", "sep": "_", "schema": lod,
                  "init": {"route": "ctor_value", "value": {"l": [dval("b", [1, 2]), dval("a", [3]), dval("c", [])]}},
                  "ops": [{"t": 0, "s": {"op": "insert", "i": -1, "a": {"v": dval("0", [9])}}},
                          {"t": 0, "s": {"op": "pop", "i": 7}},
                          {"t": 0, "s": {"op": "sort", "key": "field", "field": "x", "rev": False}},
                          {"t": 0, "s": {"op": "setitem", "i": 9, "a": {"v": dval("q", [])}}},
                          {"t": 0, "s": {"op": "delslice", "sl": [None, None, 2]}},
                          {"t": 0, "s": {"op": "remove", "a": {"v": dval("zz", [5])}}},
                          {"t": 2, "s": {"op": "insert", "i": -1, "a": {"v": 7}}},
                          {"t": 2, "s": {"op": "reverse"}}]}
        # open KF-C07-b: a rejected insert (non-integer index) of an existing member re-parents it to an orphan slot
        kf_b = {"family": "tree-history", "sep": "_", "schema": li, "nomodel": True,
                "init": {"route": "ctor_value", "value": {"l": [10, 20, 30]}},
                "ops": [{"t": 0, "s": {"op": "insert", "i": "1", "a": {"member": 0, "same": True}}},
                        {"t": 0, "s": {"op": "append", "a": {"v": 40}}}]}
        # round m1 (defect repaired by 9873cdc): `[3, 1, 2, None, 0].sort(key=lambda e: e.value)` raises TypeError inside a
        # COMPARISON; CPython leaves the slots as [1, 2, 3, None, 0] and the old List.sort skipped _renumber(): flatten()
        # gave l_1_i, l_2_i, l_0_i for the members at positions 0, 1, 2.  Then an append (no renumbering: with the stale
        # names a key occurred twice) and a renumbering call; a nested List sorted by a key object whose `<` raises
        sort_cmp = {"family": "tree-history", "sep": "_", "schema": li, "nomodel": True,
                    "init": {"route": "ctor_value", "value": {"l": [3, 1, 2, None, 0]}},
                    "ops": [{"t": 0, "s": {"op": "sort", "key": "value", "rev": False}},
                            {"t": 0, "s": {"op": "append", "a": {"v": 4}}},
                            {"t": 0, "s": {"op": "sort", "key": "value", "rev": True}},
                            {"t": 0, "s": {"op": "insert", "i": 0, "a": {"v": 9}}}]}
        sort_nested = {"family": "tree-history", "sep": "_", "schema": lod, "nomodel": True,
                       "init": {"route": "ctor_value", "value": {"l": [dval("b", [5, 4, 3, 2, 1]), dval("a", [3, None, 1]), dval("c", [])]}},
                       "ops": [{"t": 4, "s": {"op": "sort", "key": "cmp-raise", "after": 2, "rev": False}},
                               {"t": 0, "s": {"op": "sort", "key": "cmp-raise", "after": 1, "rev": True}},
                               {"t": 5, "s": {"op": "sort", "key": "value", "rev": False}},
                               {"t": 0, "s": {"op": "append", "a": {"v": dval("z", [7])}}},
                               {"t": 0, "s": {"op": "reverse"}}]}
        return [joined_in_dict, renumber, stepped, negpop, overlap, rejected_alias, nested, kf_b, sort_cmp, sort_nested]

    def generate(self, rng, n, tier):
        yield from self._generate_flat(rng, n, tier)
        # tree-history family: as many histories again, run on the real code AND the Lean tree model
        yield from G.mark_unmodelled(self, [gen_tree_case(rng) for _ in range(n)])

    def _generate_flat(self, rng, n, tier):
        for _ in range(n):
            sep = rng.choice(fl.SEP_POOL)
            kinds = []
            schema = fl.gen_schema(rng, sep, rng.choice([1, 2, 2, 3, 3, 4]), kinds)
            for _retry in range(4):
                if schema["t"] in ("leaf", "joined") and rng.random() < 0.9:
                    kinds = []
                    schema = fl.gen_schema(rng, sep, rng.choice([2, 3, 3, 4]), kinds)
            if rng.random() < 0.3:
                # C07 quantifies over ALL separators: names may start with, end in or contain separator
                # characters (key = plain join of the names; only the uniqueness clause needs SepSafe)
                dirty_names(rng, schema, sep)
            value = fl.gen_value(rng, schema, kinds, hostile=0.05)
            muts = []
            for _ in range(rng.choice([0, 0, 1, 2, 3, 4])):
                op = rng.choice(["insert", "append", "pop", "del", "delslice", "setslice", "reverse", "sort",
                                 "delslice3", "delslice3", "setslice3", "setitem", "extend", "iadd", "remove", "imul", "imul", "clear"])
                sl = [rng.choice([None, None, 0, 1, 2, -1, -2, 5]), rng.choice([None, None, 0, 1, 2, 3, -1, 9]),
                      rng.choice([None, None, 1, 2, -1, -2, 3])]
                m = {"target": rng.randint(0, 5), "op": op, "i": rng.randint(0, 6), "j": rng.randint(0, 6),
                     "rev": rng.random() < 0.5, "sl": sl, "neg": rng.random() < 0.4}
                lists = [s for s in fl.walk_schema(schema) if s["t"] == "list"]
                if lists:
                    ms = rng.choice(lists)["member"]
                    m["v"] = fl.gen_value(rng, ms, kinds, hostile=0)
                    m["vs"] = [fl.gen_value(rng, ms, kinds, hostile=0) for _ in range(rng.randint(0, 3))]
                else:
                    m["v"], m["vs"] = {"none": 1}, []
                muts.append(m)
            yield {"schema": schema, "kinds": kinds, "sep": sep, "value": value, "muts": muts}

    _tree_cache = (None, None)

    def _run_tree(self, case):
        key = canon(case)
        if self._tree_cache[0] == key:
            return self._tree_cache[1]
        ex = TreeExec(case, tree_view(case["sep"]), tree_check(case["sep"]))
        obs = ex.run()
        self._tree_cache = (key, (obs, ex.failures))
        return self._tree_cache[1]

    def _run(self, case):
        try:
            el = build(case)
        except (KeyError, TypeError, ValueError) as e:
            return None, {"skip": "set() rejected the value: %s" % type(e).__name__}
        applied = apply_mutations(el, case["schema"], case["kinds"], case.get("muts", []))
        return el, applied

    def run_impl(self, case):
        if is_tree(case):
            return self._run_tree(case)[0]
        el, applied = self._run(case)
        if el is None:
            return applied
        sep = case["sep"]
        pairs = el.flatten(sep)
        texts = [v for _, v in pairs]
        return {"flatten": [list(p) for p in pairs],
                "_elem": fl.extract(el, case["schema"]),
                "_env": fl.make_env(case["kinds"], texts, fl.observed_compounds(el, case["schema"])),
                "_applied": applied}

    def has_model(self, case):
        if is_tree(case):
            return not case.get("nomodel")
        return not fl.digit_sep(case["sep"])

    def model_input(self, case, obs):
        if is_tree(case):
            return case
        if not obs or "skip" in obs or "_elem" not in obs:
            return {"schema": case["schema"], "sep": case["sep"], "elem": {"leaf": ""}, "env": fl.make_env([], [], [])}
        return {"schema": case["schema"], "sep": case["sep"], "elem": obs["_elem"], "env": obs["_env"]}

    def compare(self, impl_obs, model_obs):
        if impl_obs and "skip" in impl_obs:
            return None
        if isinstance(model_obs, dict) and model_obs.get("unsupported"):
            return None
        if impl_obs and "steps" in impl_obs and isinstance(model_obs, dict) and "steps" in model_obs:
            # tree-history family: name the first step at which the tree model and the code part
            a, b = impl_obs["steps"], model_obs["steps"]
            for i, (x, y) in enumerate(zip(a, b)):
                if any("view_raises" in (st.get("view") or {}) for st in (x,)):
                    return "step %d: observing the real tree raised %s" % (i, x["view"]["view_raises"])
                for k in ("out",):
                    if canon(x[k]) != canon(y[k]):
                        return "step %d: call outcome impl=%s model=%s" % (i, canon(x[k])[:200], canon(y[k])[:200])
                for k in ("flatten", "flatten_code", "positional", "spec_agrees"):
                    if canon(x["view"].get(k)) != canon(y["view"].get(k)):
                        return "step %d: %s impl=%s model=%s" % (i, k, canon(x["view"].get(k))[:300], canon(y["view"].get(k))[:300])
            if len(a) != len(b):
                return "number of steps impl=%d model=%d" % (len(a), len(b))
            if model_obs.get("spec_agrees") is False:
                return "flattenTree differs from the positional spec on a positional tree (spec_agrees=false)"
            return None
        return super().compare(impl_obs, model_obs)

    def oracle(self, case):
        import flatland
        if is_tree(case):
            return list(self._run_tree(case)[1])
        el, applied = self._run(case)
        if el is None:
            return []
        sep, schema = case["sep"], case["schema"]
        fails = []
        got = el.flatten(sep)
        exp = expected_pairs(el, sep, [el.name] if el.name is not None else [])
        if Counter(got) != Counter(exp):
            fails.append({"clause": "keys-are-positions", "expected": sorted(map(list, exp)), "observed": sorted(map(list, got))})
        # compositionality at every container
        for e, s in fl.walk_elements(el, schema):
            own = [(e.flattened_name(sep), e.u)] if e.flattenable else []
            mine = e.flatten(sep)
            if e.children_flattenable:
                parts = list(own)
                for child in e.children:
                    parts += child.flatten(sep)
                if Counter(mine) != Counter(parts):
                    fails.append({"clause": "compositional", "at": path_names(e), "expected": sorted(map(list, parts)),
                                  "observed": sorted(map(list, mine))})
                    break
            elif mine != own:
                fails.append({"clause": "joined-opaque", "at": path_names(e), "expected": [list(p) for p in own],
                              "observed": [list(p) for p in mine]})
                break
        # uniqueness of keys except among the members of one Array / MultiValue — for EVERY separator; a
        # separator that overlaps with the names makes two different paths join to one key (KF-C07-a, the
        # flatten-side face of KF-C01-a), which is filed only when the same tree has unique keys under a
        # separator that occurs in no name
        names = fl.schema_names(schema)
        fresh = "\ue001"

        def first_dup(sp):
            seen = {}
            for e, s in fl.walk_elements(el, schema):
                if not e.flattenable:
                    continue
                # elements beneath a non-flattenable-children node are not emitted
                if any(not p.children_flattenable for p in e.parents):
                    continue
                key = e.flattened_name(sp)
                parent = e.parent
                owner = id(parent) if isinstance(parent, flatland.Array) and not isinstance(parent, flatland.JoinedString) else id(e)
                if key in seen and seen[key][0] != owner:
                    return key, seen[key][1], path_names(e)
                seen.setdefault(key, (owner, path_names(e)))
            return None

        dup = first_dup(sep)
        if dup:
            fails.append({"clause": "keys-unique", "key": dup[0], "paths": [dup[1], dup[2]],
                          "sep_overlaps": not fl.sep_safe(sep, names, nd_rule=False),
                          "unique_under_fresh_sep": first_dup(fresh) is None})
        return fails

    def classify(self, case, failure):
        if is_tree(case) and failure.get("clause") in ("keys-are-positions", "name-paths-unique", "slots-named-by-position"):
            # KF-C07-b: `List.insert(<non-integer index>, <element that already is a member>)` raises TypeError AFTER
            # `_new_slot()` re-parented the member to a fresh, never stored slot named str(len(self)).
            # KF-C07-c: `Sequence.__setitem__` / `Sequence.insert` (Array, MultiValue) set `value.parent = self` BEFORE
            # `list.__setitem__` / `list.insert` reject the index.
            # Class: such a rejected call (recognised by its shape when it ran: target class, op, index, argument is an
            # existing member) happened at or before the failing step.  A failure without such a call — e.g. after a
            # rejected item assignment on a LIST — is not in either class.
            causes = failure.get("causes") or []
            if "list-insert-nonint-index-of-member" in causes:
                return "KF-C07-b"
            if "array-rejected-placement-of-member" in causes:
                return "KF-C07-c"
        # KF-C07-a predicts: the separator overlaps with the names (decided from the schema alone), the two
        # elements sit on DIFFERENT name paths, and the very same tree has unique keys once the separator
        # is one that occurs in no name — so a key that loses a path component is still reported
        if (failure.get("clause") == "keys-unique" and failure.get("sep_overlaps")
                and failure.get("unique_under_fresh_sep") and failure["paths"][0] != failure["paths"][1]):
            return "KF-C07-a"
        return None

    def nontrivial(self, case, obs):
        if is_tree(case):
            # at least two calls changed what flatten() returns, and a key passes through a List slot
            views = [st["view"] for st in obs["steps"]]
            if any("view_raises" in v for v in views):
                return True
            changed = sum(1 for a, b in zip(views, views[1:]) if a["flatten"] != b["flatten"])
            return changed >= 2 and any(len(v["flatten"]) >= 2 for v in views)
        if "skip" in obs:
            return False
        return len(obs["flatten"]) >= 3 and case["schema"]["t"] not in ("leaf", "joined")

    def tags(self, case, obs):
        if is_tree(case):
            if any("view_raises" in st["view"] for st in obs["steps"]):
                return ["tree:view-raises"]
            t = ["family=tree-history", "tree:model=" + ("oracle-only" if case.get("nomodel") else "compared"),
                 "tree:root=" + case["schema"]["k"], "tree:route=" + case["init"]["route"], "tree:sep=%r" % case["sep"],
                 "tree:ops=%d" % len(case["ops"])]
            kinds = {x["k"] for x in G.walk_schemas(case["schema"])}
            nested = any(x["k"] == "list" and any(y["k"] == "list" for y in G.walk_schemas(x["subs"][0]))
                         for x in G.walk_schemas(case["schema"]))
            if nested:
                t.append("tree:nested-lists")
            for k in sorted(kinds):
                t.append("tree:has-" + k)
            prev = obs["steps"][0]["view"]
            for o, st in zip(case["ops"], obs["steps"][1:]):
                out = st["out"]
                if isinstance(out, dict) and "skip" in out:
                    t.append("tree:skip:" + out["skip"].split(":")[0])
                    prev = st["view"]
                    continue
                ran = st["view"].get("_ran")
                if ran:
                    res = out["exc"] if isinstance(out, dict) and "exc" in out else "ok"
                    moved = "changed" if st["view"]["flatten"] != prev["flatten"] else "same"
                    t.append("tree:ran:%s:%s" % (ran, "ok" if res == "ok" else "raised"))
                    t.append("tree:step:%s:%s" % (res, moved))
                    if moved == "changed":
                        t.append("tree:flatten-changed-by:" + ran)
                prev = st["view"]
            for o, st in zip(case["ops"], obs["steps"][1:]):
                sp = o.get("s") or {}
                if sp.get("op") == "sort" and sp.get("key") in G.SORT_CMP_FAILS and st["view"].get("_ran") == "seq:sort":
                    exc = st["out"].get("exc") if isinstance(st["out"], dict) else None
                    t.append("tree:sortfail:%s:%s" % (sp["key"], "raised-in-comparison:" + exc if exc else "sorted"))
            if G.has_sort_failure(case):
                t.append("tree:sortfail:case")
            t.append("tree:maxpairs=%d" % min(20, max(len(st["view"]["flatten"]) for st in obs["steps"])))
            return sorted(set(t))
        if "skip" in obs:
            return ["skipped-set-rejected"]
        t = ["pairs=%d" % min(len(obs["flatten"]), 20), "sep=%r" % case["sep"]]
        for s in fl.walk_schema(case["schema"]):
            t.append("has-" + s["t"])
        t = list(dict.fromkeys(t))
        for a in obs.get("_applied", []):
            t.append("mut-" + a)
        return list(dict.fromkeys(t))

    def shrink_candidates(self, case):
        if is_tree(case):
            for c in G.shrink_history(case):
                c["family"], c["sep"] = "tree-history", case["sep"]
                yield c
            if case["sep"] != "_":
                yield dict(copy.deepcopy(case), sep="_")
            return
        for i in range(len(case.get("muts", []))):
            c = copy.deepcopy(case)
            del c["muts"][i]
            yield c
        yield from _shrink_schema_value(case)


def _shrink_schema_value(case):
    """Generic (schema, value) shrinker: drop dict fields, shorten lists, replace subtrees by leaves."""
    def variants(s, v):
        # yields (schema', value') strictly smaller
        if isinstance(v, list) and s["t"] in ("list", "array"):
            for i in range(len(v)):
                yield s, v[:i] + v[i + 1:]
            for i in range(len(v)):
                for ms, mv in variants(s["member"], v[i]):
                    s2 = dict(s)
                    s2["member"] = ms
                    if ms is s["member"]:
                        yield s2, v[:i] + [mv] + v[i + 1:]
        if s["t"] == "dict" and isinstance(v, dict) and "d" in v:
            for i, f in enumerate(s["fields"]):
                if len(s["fields"]) > 1:
                    s2 = dict(s)
                    s2["fields"] = s["fields"][:i] + s["fields"][i + 1:]
                    yield s2, {"d": [p for p in v["d"] if p[0] != f["name"]]}
            for i, f in enumerate(s["fields"]):
                vals = dict((k, x) for k, x in v["d"])
                if f["name"] in vals:
                    for fs, fv in variants(f, vals[f["name"]]):
                        s2 = dict(s)
                        s2["fields"] = s["fields"][:i] + [fs] + s["fields"][i + 1:]
                        yield s2, {"d": [[k, (fv if k == f["name"] else x)] for k, x in v["d"]]}
        if s["t"] != "leaf" and s["t"] != "joined":
            yield {"t": "leaf", "name": s["name"], "opt": False, "k": 0}, {"s": "x"}
    for s2, v2 in variants(case["schema"], case["value"]):
        c = copy.deepcopy(case)
        c["schema"], c["value"] = copy.deepcopy(s2), copy.deepcopy(v2)
        if c["schema"]["t"] == "leaf" and c["schema"]["name"] is None:
            c["schema"]["name"] = "r"
        yield c


PROP = C07()
