"""C14 — path expressions select what the documented path syntax denotes."""
import copy
import itertools

from harness.core import Property
from harness.props import c13c14_common as cm


# ------------------------------------------------------------------ path generation

def _rand_int(rng):
    return rng.choice([0, 0, 1, 1, 2, 3, -1, -1, -2, -3, 5, -5, 10])


def _rand_opt_int(rng, p_none=0.55):
    return None if rng.random() < p_none else _rand_int(rng)


def _rand_slice(rng, nkids=0):
    if rng.random() < 0.7:
        # wide: bounds chosen around the actual number of children
        lo = rng.choice([None, None, None, 0, 0, 1, -nkids, -nkids - 1, -1])
        hi = rng.choice([None, None, None, nkids, nkids + 1, -1, max(nkids - 1, 0), 0])
        st = {"t": "slice", "a": lo, "b": hi, "sep": rng.random() < 0.25}
        r = rng.random()
        if r < 0.4:
            c = rng.choice([None, 1, 1, 2, -1, -1, -2, 0])
            if c is not None and c < 0:
                st["a"], st["b"] = rng.choice([None, nkids - 1, -1, nkids]), rng.choice([None, None, 0, -nkids - 1])
            st["c"] = {"v": c}
        return st
    st = {"t": "slice", "a": _rand_opt_int(rng), "b": _rand_opt_int(rng), "sep": rng.random() < 0.25}
    r = rng.random()
    if r < 0.45:
        c = rng.choice([None, 1, 2, -1, -2, 3, -3, 0])
        st["c"] = {"v": c}
    return st


def _rand_steps(rng, tree, start, nsteps, p_miss, canon):
    """random walk over the tree description: mostly steps that exist.  canon: all `..` first."""
    pm = cm.parent_map(tree)
    cur = start  # representative node (None when the walk fell off the tree)
    steps = []
    nups = 0
    if canon:
        nups = min(nsteps, rng.choice([0, 0, 0, 1, 1, 2, 3]))
    for i in range(nsteps):
        r = rng.random()
        kids = cur["kids"] if cur else []
        if (canon and i < nups) or (not canon and r < 0.15):
            steps.append({"t": "up"})
            if cur is not None and pm[cur["id"]] is not None:
                cur = pm[cur["id"]]
        elif r < 0.22:
            steps.append({"t": "here"})
        elif r < 0.45 and (not cur or cur["k"] != "s"):
            steps.append(_rand_slice(rng, len(kids)))
            cur = kids[0] if kids else None
        elif r < 0.51 and (not cur or cur["k"] != "s"):
            n = rng.choice([0, 1, 1, 2, 3, 5])
            steps.append({"t": "neg", "n": n, "sep": rng.random() < 0.25})
            cur = kids[-n] if 0 < n <= len(kids) else (kids[0] if kids and n == 0 else None)
        else:
            miss = rng.random() < p_miss
            nxt = None
            if cur is not None and cur["k"] in ("d", "c") and kids and not miss:
                k = rng.choice([x for x in kids if x["name"] is not None] or kids)
                s = k["name"]
                nxt = k
                if s is None:
                    # an unnamed field has no spelling as an AST name step (the empty step is reached through
                    # the malformed stream: '//')
                    s, nxt = "a", None
            elif cur is not None and cur["k"] in ("l", "a", "m", "j") and not miss:
                i = rng.randrange(0, len(kids) + 1) if rng.random() < 0.2 or not kids else rng.randrange(0, len(kids))
                if kids and rng.random() < 0.15:
                    j = rng.randrange(1, len(kids) + 1)
                    s = rng.choice(["-%d" % j, " %d" % (j - 1), "0%d" % (j - 1), "+%d" % (j - 1)])
                    nxt = kids[-j] if s.startswith("-") else kids[j - 1]
                else:
                    s = str(i)
                    nxt = kids[i] if i < len(kids) else None
            else:
                s = cm.pick_name(rng, 0.6)
            if not cm.good_name(s) and not (s != "" and i == nsteps - 1):
                # (a name ending in a backslash can only be spelled as the very last step)
                s = "a"
                nxt = None
            if nxt is None and cur is not None and cur["k"] in ("d", "c"):
                for k in kids:
                    if k["name"] == s:
                        nxt = k
            steps.append({"t": "name", "s": s, "br": rng.random() < 0.5, "sep": rng.random() < 0.25,
                          "escall": rng.random() < 0.2})
            cur = nxt
    return steps


def _rand_mixed(rng, tree, nodes):
    """(start node, ast): a strict path on which BOTH a failing lookup and a slice step written as 0 can be
    reached — a wide slice first, then names that exist below some of the selected children only, more wide
    slices, and a zero step at a random place among them (so that the two errors arise at equal or at
    different slice depths, in either sequence order)"""
    cands = [x for x in nodes if len(x["kids"]) >= 2 and any(k["kids"] for k in x["kids"])]
    start = rng.choice(cands) if cands else tree
    pool = []
    for k in start["kids"]:
        for j, g in enumerate(k["kids"]):
            s = g["name"] if k["k"] in ("d", "c") else str(j)
            if s and cm.good_name(s):
                pool.append(s)
        for g in k["kids"]:
            for j2, h in enumerate(g["kids"]):
                s = h["name"] if g["k"] in ("d", "c") else str(j2)
                if s and cm.good_name(s) and rng.random() < 0.3:
                    pool.append(s)
    pool = pool or ["a", "0"]
    follow = []
    for _ in range(rng.choice([1, 2, 2, 3])):
        r = rng.random()
        if r < 0.55:
            s = rng.choice(pool) if rng.random() < 0.85 else "nosuch"
            follow.append({"t": "name", "s": s, "br": False, "sep": rng.random() < 0.2, "escall": False})
        elif r < 0.9:
            follow.append({"t": "slice", "a": None, "b": None, "sep": False})
        else:
            follow.append({"t": "here"})
    follow.insert(rng.randrange(len(follow) + 1),
                  {"t": "slice", "a": rng.choice([None, None, 0, 1]), "b": None, "c": {"v": 0}, "sep": False})
    steps = [{"t": "slice", "a": None, "b": None, "sep": False}] + follow
    return start, {"top": False, "trail": False, "steps": steps}


def _make_canon(steps):
    """move every `..` to the front (the restriction of the main theorem)"""
    ups = [s for s in steps if s["t"] == "up"]
    rest = [s for s in steps if s["t"] != "up"]
    return ups + rest


MALFORMED_ALPHABET = ["/", ".", "[", "]", ":", "-", "0", "1", "2", "a", "b", "\\", "\n", " ", "_", "+", "٣", "x", "//", "//", "..", "[:]", "[-1]",
                      "\\/", "\\.", "\\[", "\\]", "[0]", "[x]", "é"]


def _rand_malformed(rng, tree):
    n = rng.choice([1, 2, 3, 3, 4, 5, 6, 8])
    parts = [rng.choice(MALFORMED_ALPHABET) for _ in range(n)]
    if rng.random() < 0.3:
        names = [x["name"] for x in cm.preorder(tree) if x["name"]]
        if names:
            parts[rng.randrange(len(parts))] = rng.choice(names)
    return "".join(parts)


EXH_ALPHABET = ["/", ".", "[", "]", ":", "-", "0", "1", "a", "\\"]
INT_ALPHABET = [" ", "+", "-", "_", "0", "1", "9", "\u0663", "\t", "x", "\u2003", "\x1f"]

# fixed tree of the exhaustive sub-space: names chosen so that many short paths select something
EXH_TREE = cm.number({
    "k": "d", "name": "root", "kids": [
        {"k": "s", "name": "a", "kids": []},
        {"k": "l", "name": "0", "member": {"k": "l", "name": "a", "member": {"k": "s", "name": None}}, "kids": [
            {"k": "l", "name": "a", "member": {"k": "s", "name": None}, "kids": [
                {"k": "s", "name": None, "kids": []}, {"k": "s", "name": None, "kids": []}]},
            {"k": "l", "name": "a", "member": {"k": "s", "name": None}, "kids": [
                {"k": "s", "name": None, "kids": []}]}]},
        {"k": "d", "name": "1", "kids": [
            {"k": "s", "name": "a", "kids": []}, {"k": "s", "name": "0", "kids": []},
            {"k": "s", "name": ".", "kids": []}, {"k": "s", "name": "a[", "kids": []}]},
        {"k": "s", "name": "a/", "kids": []},
        {"k": "s", "name": "a]", "kids": []},
        {"k": "s", "name": "[", "kids": []},
        {"k": "s", "name": "-1", "kids": []},
        {"k": "a", "name": "aa", "member": {"k": "s", "name": None}, "kids": [
            {"k": "s", "name": None, "kids": []}, {"k": "s", "name": None, "kids": []},
            {"k": "s", "name": None, "kids": []}]},
        {"k": "c", "name": "-", "set": False, "kids": [
            {"k": "s", "name": "year", "kids": []}, {"k": "s", "name": "month", "kids": []},
            {"k": "s", "name": "day", "kids": []}]},
    ]})
EXH_START = 3  # the first inner list `/0/0`


def _result_obs(label, fn):
    try:
        r = fn()
    except Exception as e:  # noqa: BLE001 — the exception class is the observation
        cm.reraise_timeout(e)
        return {"error": cm.exc_name(e)}
    return r


def _ops_obs(path):
    from flatland.schema import paths
    try:
        toks = paths.tokenize(path)
    except Exception as e:  # noqa: BLE001
        cm.reraise_timeout(e)
        return {"error": cm.exc_name(e)}
    out = []
    for op, data in toks:
        name = str(op)
        if op is paths.NAME:
            out.append(["NAME", cm.enc(data)])
        elif op is paths.SLICE:
            out.append(["SLICE", data.start, data.stop, data.step])
        elif op is paths.TOP:
            out.append(["TOP"])
        elif op is paths.UP:
            out.append(["UP"])
        elif op is paths.HERE:
            out.append(["HERE"])
        else:
            out.append([name])
    return out


def _find_obs(start, label, path, single, strict, as_segments=None):
    try:
        # find() also accepts an iterable of segments (pathexpr joins it with "/")
        arg = path  # a str, or a compiled PathExpression
        if as_segments == "tuple":
            arg = tuple(path.split("/"))
        elif as_segments == "list":
            arg = path.split("/")
        r = start.find(arg, single=single, strict=strict)
    except Exception as e:  # noqa: BLE001
        cm.reraise_timeout(e)
        return {"error": cm.exc_name(e)}
    if single:
        return {"one": None if r is None else label.get(id(r), "not-an-element")}
    return {"list": cm.labels(label, r)}


def _denote_obs(ast, start, label, single, strict):
    try:
        r = {"list": cm.labels(label, cm.doc_denote(ast, start, strict))}
    except LookupError:
        r = {"error": "LookupError"}
    except ValueError:
        r = {"error": "ValueError"}  # Python: slice step cannot be zero
    return cm.single_of(strict, r) if single else r


def _ordered_obs(path, start, label, strict):
    try:
        r = cm.ord_denote(path, start, strict)
    except Exception as e:  # noqa: BLE001 — tokenize() raising ValueError is the observation
        cm.reraise_timeout(e)
        return {"error": cm.exc_name(e)}
    if r[0] == "err":
        return {"error": r[2], "depth": r[1]}
    return {"list": cm.labels(label, r[1])}


def _removed_ids(case, byid):
    return frozenset(id(byid[r["id"]]) for r in case.get("removed", []))


def _expectation(ast, start, label, single, strict, removed=frozenset()):
    """what the documented reading allows find() to do: an exact observation, {"one-of": [...]} for a lax
    single lookup with several matches (documented as unspecified), or {"error-one-of": [...]} when some
    element raises: a real evaluation stops at the first error it meets, and with strict lookups AND a step
    written with stride 0 that may be either LookupError or ValueError depending on the order of evaluation"""
    els, kinds = cm.doc_outcomes(ast, start, strict, removed)
    if kinds:
        return {"error-one-of": sorted(kinds)}
    ids = cm.labels(label, els)
    if not single:
        return {"list": ids}
    if len(ids) > 1 and not strict:
        return {"one-of": ids}
    return cm.single_of(strict, {"list": ids})


def _matches(observed, exp):
    if "error-one-of" in exp:
        return observed.get("error") in exp["error-one-of"]
    if "one-of" in exp:
        return "one" in observed and observed["one"] in exp["one-of"]
    return observed == exp


def _asis_obs(ast, start, label, single, strict):
    """the reading that follows the raw parent pointers (prediction for removed members)"""
    try:
        r = {"list": cm.labels(label, cm.doc_denote(ast, start, strict, asis=True))}
    except LookupError:
        r = {"error": "LookupError"}
    except ValueError:
        r = {"error": "ValueError"}
    except NotImplementedError:
        r = {"error": "NotImplementedError"}
    return cm.single_of(strict, r) if single else r


class C14(Property):
    id = "C14"
    title = "Path expressions select what the documented path syntax denotes"
    proof_module = "Proofs.C14"
    theorems = [
        "Flatland.C14.Proofs.evalOps_denotes_gen",
        "Flatland.C14.Proofs.find_denotes_gen",
        "Flatland.C14.Proofs.denOrd_forget_of_uni",
        "Flatland.C14.Proofs.evalOps_denotes_cor",
        "Flatland.C14.Proofs.evalOps_denotes",
        "Flatland.C14.Proofs.find_error",
        "Flatland.C14.Proofs.find_denotes",
        "Flatland.C14.Proofs.single_spec",
        "Flatland.C14.Proofs.pySlice_negidx",
        "Flatland.C14.Proofs.denOps_compile",
        "Flatland.C14.Proofs.canonicalize_sound",
        "Flatland.C14.Proofs.eval_denotes",
        "Flatland.C14.Proofs.eval_denotes_raw",
        "Flatland.C14.Proofs.C14_full_fails",
        "Flatland.C14.Proofs.tokenize_print_names",
        "Flatland.C14.Proofs.tokenize_print",
        "Flatland.C14.Proofs.find_print_denotes",
        "Flatland.C14.Proofs.eval_cancel_denotes",
        "Flatland.C14.Proofs.find_print_cancel",
        "Flatland.C14.Proofs.denote_sorted",
        "Flatland.C14.Proofs.find_sorted",
        "Flatland.C14.Proofs.lax_never_raises",
        "Flatland.C14.Proofs.find_lax_never_lookup",
        "Flatland.C14.Proofs.strict_ok_eq_lax",
        "Flatland.C14.Proofs.no_names_never_raises",
        "Flatland.C14.Proofs.zero_stride_stays_zero",
        "Flatland.C14.Proofs.zero_step_raises",
        "Flatland.C14.Proofs.C14_zero_step_ok",
        "Flatland.C14.Proofs.find_print_denotes_lax",
        # k4: pySlice = the documented index arithmetic of slicing (Proofs/Lemmas/C14SliceSpec, Proofs/C14SliceSpec)
        "Flatland.C14.Proofs.pySlice_spec",
        "Flatland.C14.Proofs.adjust_eq_sliceIx",
        "Flatland.C14.Proofs.countUp_eq_ceil",
        "Flatland.C14.Proofs.countDown_eq_ceil",
        "Flatland.C14.Proofs.pySlice_getElem?",
        "Flatland.C14.Proofs.pySlice_length",
        "Flatland.C14.Proofs.pySlice_lt",
        "Flatland.C14.Proofs.pySlice_ascending",
        "Flatland.C14.Proofs.pySlice_descending",
        "Flatland.C14.Proofs.getSlice_eq_pySlice",
        "Flatland.C14.Proofs.pySlice_step_one",
        "Flatland.C14.Proofs.pySlice_reverse",
        "Flatland.C14.Proofs.pySlice_all",
        "Flatland.C14.Proofs.slice_children_python",
        "Flatland.C14.Proofs.C14_slice_is_python_slice",
        "Flatland.C14.Proofs.stepDen_slice_is_python_slice",
        # k4: the AST level without UniSteps (Proofs/C14Ranked)
        "Flatland.C14.Proofs.canonicalize_soundR",
        "Flatland.C14.Proofs.denOrd_step",
        "Flatland.C14.Proofs.denoteStepsR_compile",
        "Flatland.C14.Proofs.denoteR_compile",
        "Flatland.C14.Proofs.denoteR_forget_of_uni",
        "Flatland.C14.Proofs.denOrd_canonicalize",
        "Flatland.C14.Proofs.eval_denotes_gen",
        "Flatland.C14.Proofs.eval_denotes_raw_gen",
        "Flatland.C14.Proofs.eval_cancel_denotes_gen",
        "Flatland.C14.Proofs.denoteR_cancel_canon",
        "Flatland.C14.Proofs.find_print_cancel_gen",
        "Flatland.C14.Proofs.find_print_denotes_gen",
        "Flatland.C14.Proofs.find_print_denotes_cor",
        "Flatland.C14.Proofs.find_print_cancel_cor",
        "Flatland.C14.Proofs.eval_denotes_cor",
        "Flatland.C14.Proofs.denOps_compile_cor",
    ]
    # the modules the k4 theorems live in (Proofs.C14Ranked imports Proofs.C14 and Proofs.C14SliceSpec)
    extra_proof_modules = ["Proofs.C14Ranked"]
    generated_obligations = []
    trusted_base = [
        "Python's int(str) grammar, list slicing and `re` semantics of the two pinned regexes are reproduced as "
        "executable Lean functions (pyInt, pySlice, scan) validated by correspondence, not proved against CPython; "
        "pySlice is PROVED equal to the index arithmetic of slice.indices / PySlice_AdjustIndices as written out in "
        "Flatland.PyList.adjust (pySlice_spec, getSlice_eq_pySlice) — what stays trusted about slicing is that "
        "transcription of the CPython documentation (shared with C09, compared there with the real list type)",
        "Unicode Nd decades / int() whitespace / int digit limit are generated from the running interpreter",
        "element identity = position in a functional tree; parent pointers are C08's subject, not C14's",
    ]
    assumptions = [
        "the expression cache (expression_cache, max 1024) is transparent: compiled paths are pure values",
        "Dict children iterate in insertion order (field order for Dict, set() order for SparseDict; 15% of the "
        "generated Dicts are SparseDicts); every mapping child is stored under its own name (key = name)",
        "a slice step written as 0 raises ValueError when it is reached (9884fd3; zero_step_raises, "
        "find_print_denotes_lax); with strict lookups AND such a step a path can raise LookupError or ValueError, "
        "and the property text does not say which: the op-list theorems (evalOps_denotes_gen, find_denotes_gen) state "
        "the precedence the code has (slice depth, then sequence order), and so do the AST-level theorems "
        "(find_print_denotes_gen, find_print_cancel_gen over the ranked reading denoteR of spec B; the older ones "
        "with UniSteps are corollaries), the oracle accepts either error kind that some element raises, the "
        "correspondence is exact",
        "a start element that was removed from its List (popped / deleted / replaced) is outside model A: oracle "
        "only (expected: it is the root of its own tree); the expression cache is emptied by the oracle when full",
    ]
    level_text = "proof"
    level_note = ""
    technique = "Lean 4 model + refinement proofs; differential correspondence; exhaustive short paths"
    rule = ""
    exhaustive_note = ""
    quick_n = 70000
    thorough_n = 500000
    case_timeout = 120  # cases take microseconds; the alarm only guards against a hung interpreter

    # -------------------------------------------------------------- cases
    def _case(self, tree, start, path, strict, single, ast=None, as_segments=None, init=None, history=None):
        c = {"tree": tree, "start": start, "path": path, "strict": strict, "single": single}
        if history:
            c["init"] = init
            c["history"] = history
            removed = cm.removed_subjects(init, history, tree)
            if removed:
                c["removed"] = removed
        if as_segments:
            c["as_segments"] = as_segments
        if ast is not None:
            c["ast"] = ast
        return c

    def corpus(self):
        out = []
        # fixed: 7d8d8a4 — stop 0 was read as None
        lst = cm.number({"k": "l", "name": "l", "member": {"k": "s", "name": None},
                         "kids": [{"k": "s", "name": None, "kids": []} for _ in range(3)]})
        for a, b in ((0, 0), (None, 0), (1, 0)):
            ast = {"top": False, "trail": False, "steps": [{"t": "slice", "a": a, "b": b, "sep": False}]}
            out.append(self._case(lst, 0, cm.print_path(ast), True, False, ast))
        # fixed: 4d7cd69 — `..` from a member of a falsy (unset) compound
        comp = cm.number({"k": "c", "name": "d", "set": False, "kids": [
            {"k": "s", "name": n, "kids": []} for n in ("year", "month", "day")]})
        ast = {"top": False, "trail": False, "steps": [{"t": "up"}]}
        out.append(self._case(comp, 1, "..", True, False, ast))
        # fixed: a59ca1d — `..` from a List member landed on the ListSlot; `../1` raised NotImplementedError
        lst2 = cm.number({"k": "l", "name": "l", "member": {"k": "s", "name": None},
                          "kids": [{"k": "s", "name": None, "kids": []} for _ in range(2)]})
        out.append(self._case(lst2, 1, "..", True, False, ast))
        ast2 = {"top": False, "trail": False, "steps": [{"t": "up"}, {"t": "name", "s": "1", "br": False, "sep": False, "escall": False}]}
        out.append(self._case(lst2, 1, "../1", True, False, ast2))
        # open: KF-C14-a — X/.. is cancelled before evaluation
        d = cm.number({"k": "d", "name": "r", "kids": [{"k": "s", "name": "a", "kids": []}, dict(copy.deepcopy(lst), name="l")]})
        ast3 = {"top": False, "trail": False, "steps": [
            {"t": "name", "s": "nosuch", "br": False, "sep": False, "escall": False}, {"t": "up"}]}
        out.append(self._case(d, 0, "nosuch/..", True, False, ast3))
        ast4 = {"top": False, "trail": False, "steps": [
            {"t": "name", "s": "l", "br": False, "sep": False, "escall": False},
            {"t": "slice", "a": None, "b": None, "sep": False}, {"t": "up"}]}
        out.append(self._case(d, 0, "l[:]/..", True, False, ast4))
        # fixed cca5199: tuple path, single+strict, several matches raised TypeError from the message formatting
        out.append(self._case(d, 0, "l/[:]", True, True, None, "tuple"))
        out.append(self._case(d, 0, "l/[:]", True, True, None, "list"))
        # seeded mutation C14-root-lazy-property: '/' from an element that was queried while detached and grafted
        # afterwards starts at the root of the tree it is in now
        for dc in cm.root_lazy_demo_cases():
            for st in dc["starts"]:
                for pth, a in (("/", {"top": True, "trail": False, "steps": []}),
                               ("/[:]", {"top": True, "trail": False, "steps": [{"t": "slice", "a": None, "b": None, "sep": False}]}),
                               ("/0", {"top": True, "trail": False, "steps": [{"t": "name", "s": "0", "br": False, "sep": False, "escall": False}]})):
                    out.append(self._case(dc["tree"], st, pth, False, False, a, None, dc["init"], dc["history"]))
        # fixed 7fae77d: '..' from a member whose slot was popped from its list yielded [None]; it stays put
        l2 = cm.number({"k": "l", "name": "m", "member": {"k": "s", "name": None},
                        "kids": [{"k": "s", "name": None, "kids": []}, {"k": "s", "name": None, "kids": []}]})
        hp = [{"at": [], "op": "pop", "i": 0}]
        for pth, a in (("..", {"top": False, "trail": False, "steps": [{"t": "up"}]}),
                       ("../..", {"top": False, "trail": False, "steps": [{"t": "up"}, {"t": "up"}]}),
                       (".", {"top": False, "trail": False, "steps": [{"t": "here"}]})):
            out.append(self._case(cm.simulate(l2, hp), 1, pth, True, False, a, None, l2, hp))
        # open KF-C14-d: '/' from the popped member is its old ListSlot
        out.append(self._case(cm.simulate(l2, hp), 1, "/", True, False, {"top": True, "trail": False, "steps": []}, None, l2, hp))
        # fixed 9884fd3 (was KF-C14-b): a slice step written as zero was read as 1; it now raises ValueError
        astz = {"top": False, "trail": False, "steps": [{"t": "slice", "a": None, "b": None, "c": {"v": 0}, "sep": False}]}
        out.append(self._case(lst, 0, "[::0]", True, False, astz))
        astz2 = {"top": False, "trail": False, "steps": [
            {"t": "name", "s": "l", "br": False, "sep": False, "escall": False},
            {"t": "slice", "a": 1, "b": None, "c": {"v": 0}, "sep": False}]}
        out.append(self._case(d, 0, "l[1::0]", False, False, astz2))
        # strict lookups AND a zero step on the same path (evalOps_denotes_gen; the two `example`s beside it):
        # equal depth -> the earlier one in sequence order (ValueError below x/a before LookupError below y);
        # different depths -> the shallower one (LookupError at depth 1 before ValueError at depth 2)
        mixed = cm.number({"k": "d", "name": "r", "kids": [
            {"k": "d", "name": "x", "kids": [{"k": "l", "name": "a", "member": {"k": "s", "name": None},
                                              "kids": [{"k": "s", "name": None, "kids": []}]}]},
            {"k": "d", "name": "y", "kids": [{"k": "s", "name": "b", "kids": []}]}]})
        nm_a = {"t": "name", "s": "a", "br": False, "sep": False, "escall": False}
        sl_all = {"t": "slice", "a": None, "b": None, "sep": False}
        sl_zero = {"t": "slice", "a": None, "b": None, "c": {"v": 0}, "sep": False}
        for steps in ([sl_all, nm_a, sl_zero], [sl_all, nm_a, sl_all, sl_zero], [sl_all, sl_zero, nm_a]):
            astm = {"top": False, "trail": False, "steps": copy.deepcopy(steps)}
            for strict_ in (True, False):
                out.append(self._case(mixed, 0, cm.print_path(astm), strict_, False, astm))
        # a name ending in a backslash as the very last step (spellable there only)
        dbs = cm.number({"k": "d", "name": "r", "kids": [{"k": "s", "name": "x\\", "kids": []},
                                                          {"k": "d", "name": "a", "kids": [{"k": "s", "name": "\\", "kids": []}]}]})
        for nm, top_, pre in (("x\\", True, []), ("\\", False, [{"t": "name", "s": "a", "br": False, "sep": False, "escall": False}])):
            astb = {"top": top_, "trail": False, "steps": pre + [{"t": "name", "s": nm, "br": False, "sep": False, "escall": False}]}
            out.append(self._case(dbs, 0, cm.print_path(astb), True, True, astb))
        # tokenizer quirks kept as regression cases (no AST: correspondence only)
        for p in ["a/[x]", "a\\/b[x]", "[1][x]", "x[a\\]b]", "[1]\n", "[1]\n\n", "[-]", "[1:2-3]", "//", "a//", "[::0]",
                  "[" + "0" * 4301 + "]", "[-" + "0" * 4301 + "]", "l/" + "0" * 4301, "l/" + "0" * 4300, "[0:٣]", "l[ 1]", "l/ 1 ",
                  "l/1_0", "l/-1", "l/+1", "", ".", "/..", "../..", "l/./..", "./.", "[:]/.", "l[:][:]", "l\\[0]", "\\.", "a\\"]:
            out.append(self._case(d, 0, p, True, False))
            out.append(self._case(d, 0, p, False, True))
        return out

    def exhaustive(self, tier):
        maxlen = 4 if tier == "quick" else 5
        bound = 3 if tier == "quick" else 5
        self.exhaustive_note = (
            "(1) every string of length <= %d over the alphabet %s evaluated strict and non-strict from the inner list "
            "/0/0 of a fixed 20-node tree (tokens and result compared with the model); (2) every slice [a:b], [a:b:c] "
            "and index [-n] with a, b, c in {omitted, -%d..%d} on arrays of 0..%d members (Python's own slicing is the "
            "oracle); (3) every string of length <= %d over sign/space/underscore/digit characters (incl. an Arabic-"
            "Indic digit, EM SPACE, U+001F) as the index name of a 12-member List (Python's int() grammar)"
            % (maxlen, "".join(EXH_ALPHABET), bound, bound, bound + 1, 3 if tier == "quick" else 4))
        # (2) slices against Python's list slicing
        vals = [None] + list(range(-bound, bound + 1))
        for n in range(0, bound + 2):
            arr = cm.number({"k": "a", "name": "arr", "member": {"k": "s", "name": None},
                             "kids": [{"k": "s", "name": None, "kids": []} for _ in range(n)]})
            for a in vals:
                for b in vals:
                    ast = {"top": False, "trail": False, "steps": [{"t": "slice", "a": a, "b": b, "sep": False}]}
                    yield self._case(arr, 0, cm.print_path(ast), True, False, ast)
                    for c in vals:
                        ast = {"top": False, "trail": False,
                               "steps": [{"t": "slice", "a": a, "b": b, "c": {"v": c}, "sep": False}]}
                        # c == 0: Python's slice raises ValueError, and so does find() since 9884fd3
                        yield self._case(arr, 0, cm.print_path(ast), True, False, ast)
            for k in range(0, bound + 3):
                ast = {"top": False, "trail": False, "steps": [{"t": "neg", "n": k, "sep": False}]}
                yield self._case(arr, 0, cm.print_path(ast), True, False, ast)
        # (3) Python's int() grammar as a sequence index: every short string over sign/space/underscore/digits
        arr12 = cm.number({"k": "l", "name": "l", "member": {"k": "s", "name": None},
                           "kids": [{"k": "s", "name": None, "kids": []} for _ in range(12)]})
        for n in range(1, (3 if tier == "quick" else 4) + 1):
            for chars in itertools.product(INT_ALPHABET, repeat=n):
                s = "".join(chars)
                if s in (".", ".."):
                    continue
                yield self._case(arr12, 0, s, True, False)
                if all(ch in "0123456789-:" for ch in s):
                    yield self._case(arr12, 0, "[" + s + "]", True, False)
        for n in range(0, maxlen + 1):
            for chars in itertools.product(EXH_ALPHABET, repeat=n):
                p = "".join(chars)
                yield self._case(EXH_TREE, EXH_START, p, True, False)
                if n <= 4:
                    yield self._case(EXH_TREE, EXH_START, p, False, len(p) % 2 == 1)

    def generate(self, rng, n, tier):
        made = 0
        while made < n:
            hostile = rng.choice([0.0, 0.3, 0.6])
            pools = [cm.DIGITS, cm.PUNCT, cm.PUNCT, cm.BACKSLASH_OK, cm.BACKSLASH_BAD, cm.BACKSLASH_END, cm.UNICODE]
            depth = rng.choice([2, 2, 3, 3, 4])
            schema = cm.rand_schema(rng, depth, rng.choice(["root", None, "r/"]), hostile, pools, top=True)
            tree = cm.number(cm.instantiate(rng, schema))
            init, history = None, None
            if rng.random() < 0.25:
                final, history = cm.rand_history(rng, tree, rng.choice([1, 2, 3]), rejected=rng.choice([0.0, 0.3]))
                if history:
                    init, tree = tree, final
            nodes = list(cm.preorder(tree))
            # elements queried while detached and grafted afterwards: evaluate from them, absolute paths too
            grafted = [x for x in nodes if x["id"] in set(cm.grafted_ids(history))]
            removed = cm.removed_subjects(init, history, tree) if history else []
            per_tree = rng.choice([4, 8, 12])
            for _ in range(per_tree):
                if made >= n:
                    break
                if removed and rng.random() < 0.35:
                    # start from (inside) a member that was popped / deleted / replaced: it is the root of its
                    # own tree now; Canon paths without zero strides, walked along the removed subtree
                    rec = rng.choice(removed)
                    sub = rec["node"]
                    start = rng.choice(list(cm.preorder(sub)))
                    top = rng.random() < 0.5
                    steps = _rand_steps(rng, sub, sub if top else start, rng.choice([0, 1, 1, 2, 3]),
                                        p_miss=rng.choice([0.0, 0.1]), canon=True)
                    for st in steps:
                        if st["t"] == "slice" and "c" in st and st["c"]["v"] == 0:
                            st["c"]["v"] = 1
                    ast = {"top": top, "trail": False, "steps": steps}
                    yield self._case(tree, start["id"], cm.print_path(ast), rng.random() < 0.5, rng.random() < 0.3,
                                     ast, None, init, history)
                    made += 1
                    continue
                containers = [x for x in nodes if x["kids"]]
                r0 = rng.random()
                from_grafted = bool(grafted) and rng.random() < 0.5
                if from_grafted:
                    start = rng.choice(grafted)
                elif r0 < 0.5 and containers:
                    start = rng.choice(containers)
                elif r0 < 0.8:
                    start = rng.choice(nodes)
                else:
                    start = tree
                strict = rng.random() < 0.5
                single = rng.random() < 0.3
                r = rng.random()
                if r < 0.15:
                    path = _rand_malformed(rng, tree)
                    yield self._case(tree, start["id"], path, strict, single, None, rng.choice([None] * 9 + ["list"]), init, history)
                elif r < 0.21:
                    start, ast = _rand_mixed(rng, tree, nodes)
                    yield self._case(tree, start["id"], cm.print_path(ast), rng.random() < 0.9, single, ast, None, init, history)
                else:
                    top = rng.random() < (0.7 if from_grafted else 0.3)
                    walk_from = tree if top else start
                    steps = _rand_steps(rng, tree, walk_from, rng.choice([0, 1, 1, 2, 2, 3, 3, 4, 5, 6]),
                                        p_miss=rng.choice([0.0, 0.0, 0.1, 0.3]), canon=rng.random() < 0.75)
                    ast = {"top": top, "trail": rng.random() < 0.2, "steps": steps}
                    if steps and steps[-1]["t"] == "name" and steps[-1]["s"].endswith("\\"):
                        ast["trail"] = False
                    yield self._case(tree, start["id"], cm.print_path(ast), strict, single, ast, rng.choice([None] * 17 + ["list", "list", "tuple"]), init, history)
                made += 1

    def has_model(self, case):
        # model A is one tree; a start element that was removed from its list is outside it (oracle only)
        return any(n["id"] == case["start"] for n in cm.preorder(case["tree"]))

    # -------------------------------------------------------------- implementation
    def run_impl(self, case):
        try:
            root, byid, label = cm.build_case(case)
        except cm.ShapeMismatch as e:
            # a rejected list operation of the pre-history left something behind: no labels, the observation
            # disagrees with the model's (what that does to fq_name()/find() is C13's and C09's subject)
            return {"ops": _ops_obs(case["path"]), "result": {"error": "harness:tree-shape-after-rejected-operation"},
                    "_shape_mismatch": e.msg}
        start = byid[case["start"]]
        obs = {
            "ops": _ops_obs(case["path"]),
            "result": _find_obs(start, label, case["path"], case["single"], case["strict"], case.get("as_segments")),
        }
        if self.has_model(case):
            # spec `denOrd` (depth-first reading, errors ranked by slice depth then sequence order) transcribed
            # over the documented navigation of the real elements; the model returns Lean's `denOrd`
            obs["ordered"] = _ordered_obs(case["path"], start, label, case["strict"])
        ast = case.get("ast")
        if ast is not None and cm.ast_spellable(ast):
            obs["_kinds"] = sorted(cm.doc_outcomes(ast, start, case["strict"], _removed_ids(case, byid))[1])
        if ast is not None:
            obs["printed"] = cm.enc(cm.print_path(ast))
            obs["denoted"] = _denote_obs(ast, start, label, case["single"], case["strict"])
            obs["canon"] = cm.canon_ast(ast)
            if cm.ast_wf(ast):
                obs["cancelled"] = _denote_obs(cm.cancel_ups(ast), start, label, case["single"], case["strict"])
        return obs

    # -------------------------------------------------------------- oracle (spec B on the real code)
    def oracle(self, case):
        try:
            root, byid, label = cm.build_case(case)
        except cm.ShapeMismatch:
            return []   # see run_impl: nothing C14 can be checked against
        start = byid[case["start"]]
        path, strict, single = case["path"], case["strict"], case["single"]
        fails = []
        removed = _removed_ids(case, byid)
        observed = _find_obs(start, label, path, single, strict)
        as_list = _find_obs(start, label, path, False, strict)
        # the expression cache is transparent: the same string evaluated again (now served from the cache, as
        # long as fewer than max_cache_size strings were compiled in this process) and the compiled expression
        # object give the same outcome
        from flatland.schema import paths as _paths
        again = _find_obs(start, label, path, single, strict)
        try:
            compiled = _paths.pathexpr(path)
            via_object = _find_obs(start, label, compiled, single, strict)
        except ValueError:
            via_object = {"error": "ValueError"}
        if again != observed or via_object != observed:
            fails.append({"clause": "cache-transparent", "expected": observed, "observed": [again, via_object]})
        if len(_paths.expression_cache) >= _paths.max_cache_size:
            # the cache never evicts: once full, every new string is compiled afresh for good; empty it so that
            # later cases go through the cache-hit path again (as in a fresh process)
            _paths.expression_cache.clear()
        # the single= table, stated on the list result of the same call
        if single:
            want = cm.single_of(strict, as_list)
            several = len(as_list.get("list", [])) > 1
            if not strict and several:
                # documented as "an unspecified element from the result set"
                if observed.get("one") not in as_list["list"]:
                    fails.append({"clause": "single-table", "expected": {"one-of": as_list["list"]}, "observed": observed})
            elif observed != want:
                fails.append({"clause": "single-table", "expected": want, "observed": observed})
        # results are elements of this tree (never slots or foreign objects)
        got = as_list.get("list", [])
        if any(x == "not-an-element" for x in got):
            fails.append({"clause": "results-are-elements", "expected": "labels", "observed": got})
        if not strict and as_list.get("error") == "LookupError":
            fails.append({"clause": "non-strict-never-raises-LookupError", "expected": "a list", "observed": as_list})
        # an iterable of segments is the same path as the "/"-joined string
        if case.get("as_segments"):
            via_segments = _find_obs(start, label, path, single, strict, case["as_segments"])
            if via_segments != observed:
                fails.append({"clause": "segments-equal-string", "expected": observed, "observed": via_segments})
        # find() raises LookupError, or ValueError from int() while compiling a malformed bracket; nothing else
        for r in (observed, as_list):
            if r.get("error") not in (None, "LookupError", "ValueError"):
                fails.append({"clause": "unexpected-exception", "expected": "a result or LookupError", "observed": r})
                break
        ast = case.get("ast")
        if ast is not None and cm.ast_spellable(ast):
            if cm.print_path(ast) != path:
                fails.append({"clause": "harness-printing", "expected": cm.print_path(ast), "observed": path})
            # "in sequence order": ascending slices on a Canon path select strictly increasing elements
            # (document order = preorder rank in the tree)
            ascending = all(not (st["t"] == "slice" and "c" in st and (st["c"]["v"] or 1) < 0) for st in ast["steps"])
            if cm.canon_ast(ast) and ascending and "list" in as_list:
                order = list(cm.preorder(case["tree"]))
                for rec in case.get("removed", []):
                    order += list(cm.preorder(rec["node"]))
                rank = {n["id"]: i for i, n in enumerate(order)}
                ids = as_list["list"]
                ranks = [rank.get(x, -1) for x in ids]
                if any(r < 0 for r in ranks) or any(a >= b for a, b in zip(ranks, ranks[1:])):
                    fails.append({"clause": "sequence-order", "expected": "strictly increasing preorder ranks",
                                  "observed": ids})
            want = _expectation(ast, start, label, single, strict, removed)
            if not _matches(observed, want):
                fails.append({"clause": "denotation", "expected": want, "observed": observed, "path": path})
        return fails

    def classify(self, case, failure):
        ast = case.get("ast")
        if ast is None:
            return None
        try:
            root, byid, label = cm.build_case(case)
        except cm.ShapeMismatch:
            return None
        start = byid[case["start"]]
        single, strict = case["single"], case["strict"]
        if not self.has_model(case):
            # KF-C14-d: the start element was removed from its List (popped / deleted / replaced) but still
            # points at its old slot: the implementation evaluates the path along the raw parent pointers
            if failure.get("clause") not in ("denotation", "unexpected-exception", "results-are-elements", "sequence-order"):
                return None
            observed = _find_obs(start, label, case["path"], single, strict)
            if observed == _asis_obs(ast, start, label, single, strict) and not _matches(
                    observed, _expectation(ast, start, label, single, strict, _removed_ids(case, byid))):
                return "KF-C14-d"
            return None
        if failure.get("clause") != "denotation":
            return None
        observed = failure.get("observed")
        # KF-C14-a: the path has an `X/..` pair (X a name, index or slice step, `.` steps ignored) and the
        # implementation returns exactly the denotation of the path with those pairs deleted
        if cm.canon_ast(ast):
            return None
        if _matches(observed, _expectation(cm.cancel_ups(ast), start, label, single, strict)):
            return "KF-C14-a"
        return None

    # -------------------------------------------------------------- evidence
    def nontrivial(self, case, obs):
        r = obs["result"]
        if case.get("ast") is not None:
            return len(case["ast"]["steps"]) >= 2
        return isinstance(obs["ops"], list) and len(obs["ops"]) >= 2 or "error" in r

    def tags(self, case, obs):
        t = []
        r = obs["result"]
        ast = case.get("ast")
        stream = "grammar" if ast is not None else "malformed"
        t.append("stream=%s" % stream)
        t.append("strict=%s" % case["strict"])
        t.append("single=%s" % case["single"])
        if "error" in r:
            t.append("result=%s" % r["error"])
        elif "one" in r:
            t.append("result=one:%s" % ("none" if r["one"] is None else "element"))
        else:
            t.append("result=list:%d" % min(len(r["list"]), 6))
            t.append("%s:list:%d" % (stream, min(len(r["list"]), 6)))
        if isinstance(obs["ops"], list):
            t.append("ops=%d" % min(len(obs["ops"]), 8))
            for o in obs["ops"]:
                t.append("op:%s" % o[0])
        else:
            t.append("ops=%s" % obs["ops"]["error"])
        if ast is not None:
            t.append("steps=%d" % min(len(ast["steps"]), 6))
            t.append("canon=%s" % cm.canon_ast(ast))
            for s in ast["steps"]:
                t.append("step:%s" % s["t"])
            if cm.has_zero_step(ast):
                t.append("zero-stride")
                if case["strict"]:
                    t.append("zero-stride+strict")
            kinds = obs.get("_kinds") or []
            if len(kinds) == 2:
                # a strict lookup fails on one element AND a zero step is reached on another: the territory of
                # evalOps_denotes_gen / find_denotes_gen (the old theorems assumed it away)
                t.append("both-error-kinds-possible")
                t.append("both-error-kinds-possible:raised=%s" % r.get("error"))
                o = obs.get("ordered") or {}
                if "depth" in o:
                    t.append("both-error-kinds-possible:depth=%d" % min(o["depth"], 3))
            if ast["steps"] and ast["steps"][-1]["t"] == "name" and ast["steps"][-1]["s"].endswith("\\"):
                t.append("last-name-ends-in-backslash")
            if ast["top"]:
                t.append("absolute")
        nodes = list(cm.preorder(case["tree"]))
        t.append("nodes=%d" % min(len(nodes), 30))
        for k in sorted({n["k"] for n in nodes}):
            t.append("kind:%s" % k)
        if any(n["k"] == "c" and not n.get("set") for n in nodes):
            t.append("has-unset-compound")
        if any("sparse" in n for n in nodes):
            t.append("has-sparse-dict")
        if case["start"] != case["tree"]["id"]:
            t.append("start-below-root")
        if case.get("as_segments"):
            t.append("path-as-%s" % case["as_segments"])
        if not self.has_model(case):
            rec = [r for r in case.get("removed", []) if any(n["id"] == case["start"] for n in cm.preorder(r["node"]))]
            t.append("start-in-removed-member:%s" % (rec[0]["how"] if rec else "?"))
        if case.get("history"):
            t.append("tree-after-list-history")
            if any(op["op"] == "query" for op in case["history"]):
                t.append("history-with-queries")
            for op in case["history"]:
                if op["op"] == "rejected":
                    t.append("history-with-rejected-op")
                    t.append("rejected:%s" % op["kind"])
            if case["start"] in cm.grafted_ids(case["history"]):
                t.append("start-queried-before-graft")
        return sorted(set(t))

    def shrink_candidates(self, case):
        ast = case.get("ast")
        if ast is not None:
            for i in range(len(ast["steps"])):
                a = copy.deepcopy(ast)
                del a["steps"][i]
                yield dict(case, ast=a, path=cm.print_path(a))
            if ast["trail"] or ast["top"]:
                a = dict(copy.deepcopy(ast), trail=False)
                yield dict(case, ast=a, path=cm.print_path(a))
            for i, s in enumerate(ast["steps"]):
                for key in ("br", "sep", "escall"):
                    if s.get(key):
                        a = copy.deepcopy(ast)
                        a["steps"][i][key] = False
                        yield dict(case, ast=a, path=cm.print_path(a))
        else:
            p = case["path"]
            for i in range(len(p)):
                yield dict(case, path=p[:i] + p[i + 1:])
        if not case.get("history"):
            for t in cm.shrink_tree_variants(case["tree"], keep_ids=(case["start"],)):
                yield dict(case, tree=t)
        if case["single"]:
            yield dict(case, single=False)


C14.rule = (
    "random schemas over Dict/List(nested)/DateYYYYMMDD(set and unset)/Array/MultiValue/JoinedString/String with hostile "
    "names (path punctuation, digits-only, non-ASCII, backslashes), instantiated with random list lengths; per tree 4-12 "
    "(start element, path, strict, single) cases (start biased to containers); 85% paths are printed from a random AST walked along the tree (names "
    "mostly existing, index spellings `n`/`[n]`/`-n`/` n`/`0n`/`+n`, every slice form, `..`/`.` anywhere, leading/"
    "trailing slash, optional escapes), 75% of them with all `..` first (the theorem's Canon domain); 15% malformed "
    "strings over path punctuation for the tokenizer; 25% of the trees are reached through a history of List operations "
    "(a third of them with rejected operations in between — see C13 —, each caught) with path evaluations in between and with members that are built detached, queried and then grafted (such "
    "elements are preferred start elements, 70% absolute paths); 6% of the cases are 'mixed' paths (a wide slice, then "
    "names that exist below some of the selected children only, more slices and a slice step written as 0 at a random "
    "place, 90% strict) so that a failing lookup and a zero step are reachable in one evaluation, at equal and at "
    "different slice depths (tags both-error-kinds-possible:*); non-trivial = AST of >= 2 steps, or >= 2 ops, or an error")
C14.level_note = (
    "Proved in Lean for all trees/starts/single/strict and EVERY op list (h5, no Uni hypothesis): the FIFO work list "
    "= the depth-first reading with the precedence of errors made explicit (evalOps_denotes_gen, spec `denOrd`: every "
    "error carries the number of slice steps passed before it; the smallest depth wins, on a tie the first in sequence "
    "order — the evaluator finishes all matches of one slice step before continuing below any of them); find = the "
    "single-table of that reading of tokenize(path) for every string that compiles (find_denotes_gen); when only one "
    "kind of error can arise (Uni: no slice step written as 0, or non-strict lookups) the precedence is immaterial "
    "and `denOrd` forgets to the plain reading `denOps` (denOrd_forget_of_uni, proved directly; evalOps_denotes_cor, "
    "evalOps_denotes, find_denotes; single_spec restates the match of the model's find, i.e. holds by construction); "
    "spec B's step-by-step `denote` meets errors in yet another order (step-major), so the AST level has a ranked "
    "reading too (k4): `denoteStepsR`/`denoteR` read the AST one element at a time with the same precedence as "
    "`denOrd` (depth = bracket steps passed); the compiled AST under `denOrd` IS that reading (denoteR_compile, no "
    "hypothesis), `_canonicalize` preserves it on the Canon domain (canonicalize_soundR) and is the cancelled path "
    "off it (denOrd_canonicalize), hence find(print p) = findSpecR p on the Canon domain and = findSpecR (cancel p) "
    "for every spellable path — strict or not, zero steps or not, including WHICH exception is raised "
    "(find_print_denotes_gen, find_print_cancel_gen, eval_denotes_gen); where one error kind only can arise the ranked "
    "reading forgets to `denote` (denoteR_forget_of_uni) and the UniSteps theorems follow (find_print_denotes_cor, "
    "find_print_cancel_cor, eval_denotes_cor, denOps_compile_cor) — with strict lookups AND a zero step the "
    "documentation does not say which exception is "
    "raised, so the oracle accepts either kind that some element raises, while the correspondence compares the "
    "exception exactly (key `result`) and compares Lean's `denOrd` (outcome and error depth) with a Python "
    "transcription of `denOrd` over the documented navigation of the real elements (key `ordered`); compiled AST "
    "= spec denotation incl. [-n], slice defaults, zero strides (denOps_compile); tokenizer∘printer for the whole "
    "concrete grammar incl. zero strides and a name ending in a backslash as last step (tokenize_print); end to "
    "end find(print p) = denote p on the Canon domain (find_print_denotes, find_print_denotes_lax) and = denote "
    "(cancel p) for every path (find_print_cancel, the exact content of KF-C14-a; C14_full_fails is its negation "
    "witness); a step written as 0 raises ValueError when reached, strict or not (zero_step_raises, "
    "C14_zero_step_ok — KF-C14-b is closed by 9884fd3); results strictly increasing in document order "
    "(find_sorted). Slicing (k4): for every length and every start/stop/nonzero step, pySlice n a b c = "
    "[start + k*step | k < count] with (start, stop, step) = slice(a,b,c).indices(n) written out as "
    "PySlice_AdjustIndices does (PyList.adjust, the reference list of C08-C10) and count = max 0 ceil((stop-start)/step) "
    "(pySlice_spec, adjust_eq_sliceIx, countUp_eq_ceil, countDown_eq_ceil); strictly increasing / decreasing positions "
    "inside the list (pySlice_ascending, pySlice_descending, pySlice_lt); list[a:b:c] of the reference list = the "
    "elements at these positions, ValueError for step 0 (getSlice_eq_pySlice); step 1 = drop/take (pySlice_step_one), "
    "[::-1] = reverse (pySlice_reverse), [:] = identity (pySlice_all); the evaluator's SLICE op and spec B's slice "
    "step select exactly children[a:b:c] (C14_slice_is_python_slice, stepDen_slice_is_python_slice). Tied to the "
    "code by correspondence "
    "only: scan = _tokenize_re.findall (regex text pinned; exhaustive over all strings of length <= 4/5 over "
    "`/.[]:-01a\\`), pyInt = int(); pySlice = list slicing is additionally compared exhaustively on small scopes "
    "against Python itself (now redundant with pySlice_spec up to the transcription of slice.indices), the "
    "element-tree navigation (_index, parent, root, children) of the real classes; start elements removed from "
    "their List are checked by the oracle only (KF-C14-d).")

PROP = C14()
