"""Shared by the C04 and C18 checks: JSON natives, scalar kinds -> flatland classes, the opaque
float()/Decimal() tables, input menagerie."""
import datetime
import decimal
import struct
import sys

MAXD = sys.get_int_max_str_digits()


class Other:
    """An arbitrary object: only str() and bool() are defined."""

    def __init__(self, text, truthy):
        self.text, self.truthy = text, truthy

    def __str__(self):
        return self.text

    def __bool__(self):
        return self.truthy

    def __eq__(self, other):
        return isinstance(other, Other) and (self.text, self.truthy) == (other.text, other.truthy)

    def __hash__(self):
        return hash((self.text, self.truthy))


# ---------------------------------------------------------------- natives of unusual but legitimate TYPES
# (extension round h15).  Every one is described in the case JSON by a tagged dict; `exotic_to_nat` /
# `exotic_from_nat` are exact inverses.  None of the pools used by `random_native` contains them (C18 / C20 draw
# from it and their models know the plain natives only): `random_exotic` is a separate stream.

class TextSub(str):
    """A str SUBCLASS with its own __str__ (shows something else than its characters) and a strip() that
    keeps the class (as markupsafe.Markup does).  It IS text: isinstance(x, str)."""

    def __new__(cls, s, shown="<TextSub>"):
        o = str.__new__(cls, s)
        o.shown = shown
        return o

    def __str__(self):
        return self.shown

    def strip(self, chars=None):
        return TextSub(str.strip(self, chars), self.shown)


class IntSub(int):
    """An int subclass with its own __str__ (an ORM id, a unit-carrying count)."""

    def __new__(cls, v, shown="<IntSub>"):
        o = int.__new__(cls, v)
        o.shown = shown
        return o

    def __str__(self):
        return self.shown


class FloatSub(float):
    def __new__(cls, v, shown="<FloatSub>"):
        o = float.__new__(cls, v)
        o.shown = shown
        return o

    def __str__(self):
        return self.shown


class DecSub(decimal.Decimal):
    def __new__(cls, v, shown="<DecSub>"):
        o = decimal.Decimal.__new__(cls, v)
        o.shown = shown
        return o

    def __str__(self):
        return self.shown


class DateSub(datetime.date):
    def __new__(cls, y, m, d, shown="<DateSub>"):
        o = datetime.date.__new__(cls, y, m, d)
        o.shown = shown
        return o

    def __str__(self):
        return self.shown


_ENUMS = {}


def int_enum(v):
    """The member of an IntEnum class whose value is v (one cached class per value)."""
    import enum
    if v not in _ENUMS:
        _ENUMS[v] = enum.IntEnum("Level", {"MEMBER": v})
    return _ENUMS[v].MEMBER


def is_exotic(v):
    import collections
    import enum
    import fractions
    return (type(v) in (TextSub, IntSub, FloatSub, DecSub, DateSub, bytes, bytearray, collections.UserString, fractions.Fraction)
            or isinstance(v, enum.IntEnum)
            or (type(v) is datetime.time and v.tzinfo is not None))


def exotic_to_nat(v):
    import collections
    import enum
    import fractions
    if type(v) is collections.UserString:
        return {"t": "userstring", "s": v.data}
    if type(v) is TextSub:
        return {"t": "strsub", "s": str.__str__(v), "shown": v.shown}
    if type(v) is IntSub:
        return {"t": "intsub", "v": hex(int(v)), "shown": v.shown}
    if isinstance(v, enum.IntEnum):
        return {"t": "intenum", "v": hex(int(v))}
    if type(v) is FloatSub:
        return {"t": "floatsub", "id": "f:" + struct.pack(">d", float(v)).hex(), "shown": v.shown}
    if type(v) is DecSub:
        return {"t": "decsub", "s": decimal.Decimal.__str__(v), "shown": v.shown}
    if type(v) is fractions.Fraction:
        return {"t": "fraction", "n": hex(v.numerator), "d": hex(v.denominator)}
    if type(v) is DateSub:
        return {"t": "datesub", "v": [v.year, v.month, v.day], "shown": v.shown}
    if type(v) is datetime.time:
        return {"t": "timetz", "v": [v.hour, v.minute, v.second, v.microsecond],
                "off": int(v.utcoffset().total_seconds() // 60)}
    if type(v) is bytes:
        return {"t": "bytes", "b": v.decode("latin-1")}
    if type(v) is bytearray:
        return {"t": "bytearray", "b": bytes(v).decode("latin-1")}
    raise AssertionError(type(v))


EXOTIC_TAGS = ("userstring", "strsub", "intsub", "intenum", "floatsub", "decsub", "fraction", "datesub", "timetz", "bytes",
               "bytearray")


def exotic_from_nat(j):
    import collections
    import fractions
    t = j["t"]
    if t == "userstring":
        return collections.UserString(j["s"])
    if t == "strsub":
        return TextSub(j["s"], j["shown"])
    if t == "intsub":
        return IntSub(int(j["v"], 16), j["shown"])
    if t == "intenum":
        return int_enum(int(j["v"], 16))
    if t == "floatsub":
        return FloatSub(struct.unpack(">d", bytes.fromhex(j["id"][2:]))[0], j["shown"])
    if t == "decsub":
        return DecSub(j["s"], j["shown"])
    if t == "fraction":
        return fractions.Fraction(int(j["n"], 16), int(j["d"], 16))
    if t == "datesub":
        return DateSub(*j["v"], shown=j["shown"])
    if t == "timetz":
        return datetime.time(*j["v"], tzinfo=datetime.timezone(datetime.timedelta(minutes=j["off"])))
    if t == "bytes":
        return j["b"].encode("latin-1")
    if t == "bytearray":
        return bytearray(j["b"].encode("latin-1"))
    raise AssertionError(t)


def unsub(v):
    """The same value without the subclass identity of v (what `==` of the base type sees).  Values that are
    not subclass instances of a plain native (UserString, Fraction, bytes, an aware time) stay as they are."""
    import enum
    if type(v) is TextSub:
        return str.__str__(v)
    if type(v) is IntSub or isinstance(v, enum.IntEnum):
        return int(v)
    if type(v) is FloatSub:
        return float(v)
    if type(v) is DecSub:
        return decimal.Decimal(decimal.Decimal.__str__(v))
    if type(v) is DateSub:
        return datetime.date(v.year, v.month, v.day)
    return v


def model_view(v):
    """What the Lean scalar model can hold of a STORED value / raw (its natives are the plain ones): the
    subclass identity and a tzinfo are dropped; text-likes and other objects are seen through str() / bool()."""
    v = unsub(v)
    if type(v) is datetime.time and v.tzinfo is not None:
        return v.replace(tzinfo=None)
    if is_exotic(v):
        return Other(str(v), bool(v))
    return v


def projections(kind, x):
    """Candidate plain natives standing for the exotic x in front of a scalar of this kind: what the kind's
    documented treatment looks at (type identity, then str(x) / int(x) / float(x) / bool(x) / the fields of a
    temporal).  The caller keeps the first candidate whose DOCUMENTED outcome equals that of x (c04.ref_set);
    if none does, the case runs through the real code and the oracle only."""
    import collections
    import fractions
    bk = base_kind(kind)["k"]
    cands = []
    if type(x) is TextSub:
        cands.append(str.__str__(x))
    elif bk in ("integer", "float", "decimal"):
        if type(x) is collections.UserString and bk != "decimal":
            cands.append(x.data)
        elif type(x) in (bytes, bytearray) and bk != "decimal":
            cands.append(bytes(x).decode("latin-1"))
        elif type(x) is fractions.Fraction:
            if bk == "integer":
                cands.append(int(x))
            elif bk == "float":
                cands.append(float(x))
        elif unsub(x) is not x:
            cands.append(unsub(x))
    elif bk in ("date", "time", "datetime"):
        ty = {"date": datetime.date, "time": datetime.time, "datetime": datetime.datetime}[bk]
        if isinstance(x, ty):
            cands.append(model_view(x))
    try:
        cands.append(Other(str(x), bool(x)))
    except Exception:  # noqa: BLE001
        pass
    return cands


PADS = ["", "", " ", "  ", "\t", "\n", " ", "　", " ", "\x1c", "\x85", " "]


SAFE_PADS = [p for p in PADS if p not in ("\x85", "\u2028", "\u2029")]      # for checks whose driver output carries raw text lines


def random_exotic(rng, kind=None, pads=None):
    """A native of an unusual but legitimate type, mostly one that suits the kind (any when kind is None):
    text-likes for every kind (their text suiting the kind), numeric subclasses for numbers / booleans / strings,
    temporal subclasses for temporals; often padded with ASCII / non-ASCII whitespace."""
    import collections
    import fractions
    bk = base_kind(kind)["k"] if kind is not None else rng.choice(["string", "integer", "float", "decimal", "boolean", "date",
                                                                     "time", "datetime"])
    text = {
        "string": ["Biff", "a", "b", "x", "", "a b", "1"],
        "integer": ["12", "-5", "0", "7", "42", "1_0", "+3", "x"],
        "float": ["1.5", "-2.25", "1e3", "nan", "7", "x"],
        "decimal": ["1.50", "-2.25", "1E+3", "NaN", "7", "x"],
        "boolean": ["on", "off", "1", "", "0", "true", "yes", "no", "x"],
        "boolean_default": ["on", "off", "1", "", "0", "true", "False", "x"],
        "date": ["2020-01-02", "2021-02-29", "1999-12-31"],
        "time": ["03:04:05", "23:59:59", "24:00:00"],
        "datetime": ["2020-01-02 03:04:05", "1999-12-31 23:59:59"],
    }[bk]
    pads = pads or PADS
    _padded = lambda rng, s: rng.choice(pads) + s + rng.choice(pads)
    shown = lambda base: _padded(rng, rng.choice([base, base, "shown", "<obj>", ""]))
    r = rng.random()
    if r < 0.36:
        s = _padded(rng, rng.choice(text))
        q = rng.random()
        if q < 0.35:
            return collections.UserString(s)
        if q < 0.6:
            return Other(s, rng.random() < 0.8)
        if q < 0.85:
            return TextSub(s, shown(s))
        try:
            b = s.encode("ascii")
        except UnicodeEncodeError:
            b = s.strip().encode("ascii", "replace")
        return b if rng.random() < 0.6 else bytearray(b)
    if bk in ("date", "time", "datetime") and r < 0.8:
        y, mo, d = rng.choice([(2020, 1, 2), (1, 1, 1), (9999, 12, 31), (2020, 2, 29)])
        q = rng.random()
        if q < 0.3:
            return DateSub(y, mo, d, shown("%04d-%02d-%02d" % (y, mo, d)))
        if q < 0.55:
            return datetime.time(rng.choice([0, 1, 23]), rng.choice([0, 2, 59]), rng.choice([0, 3, 59]), rng.choice([0, 0, 5]),
                                 tzinfo=datetime.timezone(datetime.timedelta(minutes=rng.choice([0, 60, -330, 765]))))
        if q < 0.8:
            return datetime.datetime(y, mo, d, rng.choice([0, 3]), rng.choice([0, 4]), rng.choice([0, 5]), rng.choice([0, 0, 6]))
        return datetime.date(y, mo, d)
    v = rng.choice([0, 1, 2, 7, 42, -5, 3, 10 ** 6, -1])
    q = rng.random()
    if q < 0.12:
        return rng.choice([True, False])
    if q < 0.34:
        return IntSub(v, shown(str(v)))
    if q < 0.5:
        return int_enum(v)
    if q < 0.66:
        f = rng.choice([0.0, 1.5, -2.25, 3.7, 7.0, float("nan"), float("inf"), 1e22])
        return FloatSub(f, shown(repr(f)))
    if q < 0.82:
        dd = rng.choice(["0", "1.50", "-2.25", "7", "NaN", "1E+3", "Infinity"])
        return DecSub(dd, shown(dd))
    return fractions.Fraction(rng.choice([0, 1, 7, -7, 3, 22]), rng.choice([1, 2, 3, 7]))


# ---------------------------------------------------------------- natives <-> JSON

def tok_of(x):
    """What the library can do with a float / Decimal, computed by the standard library only."""
    if isinstance(x, float):
        ident = "f:" + struct.pack(">d", x).hex()
    else:
        ident = "d:" + str(x)
    try:
        fmt = "%f" % x
    except (ValueError, ArithmeticError):
        fmt = None
    try:
        neg = bool(x < type(x)())
    except ArithmeticError:
        neg = None
    try:
        as_int = hex(int(x))
    except (ValueError, OverflowError):
        as_int = None
    return {"id": ident, "str": str(x), "fmt": fmt, "neg": neg, "truthy": bool(x), "int": as_int}


def py_to_nat(v, full=True):
    """Canonical JSON of a native value.  full=False: floats/decimals by identity only (the form
    the model prints)."""
    if v is None:
        return None
    if is_exotic(v):
        return exotic_to_nat(v)
    if isinstance(v, bool):
        return {"t": "bool", "v": v}
    if isinstance(v, int):
        return {"t": "int", "v": hex(v)}
    if isinstance(v, str):
        return {"t": "str", "v": v}
    if isinstance(v, float):
        return {"t": "float", "tok": tok_of(v)} if full else {"t": "float", "id": tok_of(v)["id"]}
    if isinstance(v, decimal.Decimal):
        return {"t": "decimal", "tok": tok_of(v)} if full else {"t": "decimal", "id": tok_of(v)["id"]}
    if isinstance(v, datetime.datetime):
        return {"t": "datetime", "v": [v.year, v.month, v.day, v.hour, v.minute, v.second, v.microsecond]}
    if isinstance(v, datetime.date):
        return {"t": "date", "v": [v.year, v.month, v.day]}
    if isinstance(v, datetime.time):
        return {"t": "time", "v": [v.hour, v.minute, v.second, v.microsecond]}
    if isinstance(v, Other):
        return {"t": "other", "v": v.text, "truthy": v.truthy}
    return {"t": "unmodelled", "v": type(v).__name__}


def cps(s):
    """Text as a list of code points (the form the model prints; immune to str.splitlines())."""
    return [ord(c) for c in s]


def out_nat(v):
    """A native value in the form the model prints it."""
    j = py_to_nat(v, full=False)
    if j is not None and j["t"] in ("str", "other"):
        j = dict(j, v=cps(j["v"]))
    return j


def nat_to_py(j):
    if j is None:
        return None
    t = j["t"]
    if t == "str":
        return j["v"]
    if t == "int":
        return int(j["v"], 16)
    if t == "bool":
        return j["v"]
    if t == "date":
        return datetime.date(*j["v"])
    if t == "time":
        return datetime.time(*j["v"])
    if t == "datetime":
        return datetime.datetime(*j["v"])
    if t == "float":
        return struct.unpack(">d", bytes.fromhex(j["tok"]["id"][2:]))[0]
    if t == "decimal":
        return decimal.Decimal(j["tok"]["id"][2:])
    if t == "other":
        return Other(j["v"], j["truthy"])
    if t in EXOTIC_TAGS:
        return exotic_from_nat(j)
    raise AssertionError(t)


# ---------------------------------------------------------------- kinds

def kind_cls(kind):
    import flatland
    k = kind["k"]
    if k == "string":
        return flatland.String.using(strip=kind["strip"])
    if k == "integer":
        base = flatland.Long if kind.get("long") else flatland.Integer
        kw = {"signed": kind["signed"]}
        if kind["width"]:
            kw["format"] = "%%0%di" % kind["width"]
        return base.using(**kw)
    if k == "float":
        return flatland.Float.using(signed=kind["signed"])
    if k == "decimal":
        return flatland.Decimal.using(signed=kind["signed"])
    if k == "boolean_default":
        return flatland.Boolean
    if k == "boolean":
        return flatland.Boolean.using(true=kind["true"], false=kind["false"],
                                      true_synonyms=tuple(kind["tsyn"]), false_synonyms=tuple(kind["fsyn"]))
    if k in ("date", "time", "datetime"):
        base = {"date": flatland.Date, "time": flatland.Time, "datetime": flatland.DateTime}[k]
        return base.using(strip=kind["strip"])
    if k == "constrained":
        child = kind_cls(kind["child"])
        valid = kind["valid"]
        if kind.get("enum"):
            assert valid["v"] == "oneof"
            return flatland.Enum.using(child_type=child).valued(*[nat_to_py(v) for v in valid["vals"]])
        if valid["v"] == "never":
            return flatland.Constrained.using(child_type=child)
        if valid["v"] == "always":
            return flatland.Constrained.using(child_type=child, valid_value=lambda el, v: True)
        vals = tuple(nat_to_py(v) for v in valid["vals"])
        return flatland.Constrained.using(child_type=child, valid_value=lambda el, v: v in vals)
    raise AssertionError(k)


def base_kind(kind):
    while kind["k"] == "constrained":
        kind = kind["child"]
    return kind


def kinds_inside(kind):
    out = [kind]
    while kind["k"] == "constrained":
        kind = kind["child"]
        out.append(kind)
    return out


# ---------------------------------------------------------------- opaque conversion table

def _conv(dec, x):
    ty = decimal.Decimal if dec else float
    try:
        return tok_of(ty(x))
    except (ValueError, TypeError, ArithmeticError):
        return None


def conv_entries(kind, x):
    """float()/Decimal() results the model needs for `set(x)` and for re-setting the resulting
    text: stripped input, and the '%f' / str() texts of the result."""
    bk = base_kind(kind)
    if bk["k"] not in ("float", "decimal"):
        return []
    dec = bk["k"] == "decimal"
    out = []
    seen = set()

    def add(key):
        js = py_to_nat(key)
        ident = repr(js)
        if ident in seen:
            return None
        seen.add(ident)
        tok = _conv(dec, key)
        out.append({"dec": dec, "key": js, "tok": tok})
        return tok

    add("")            # the empty text is always recorded: it must not convert (hypothesis OpaqueStable)
    if x is None or isinstance(x, (datetime.date, datetime.time, Other)):
        return out
    key = x.strip() if isinstance(x, str) else x
    todo = [add(key)]
    # close the table under "text of a recorded result": '%f' text (or str() when the format raises),
    # plus the str() text that a failed first set() would leave in .u
    while todo:
        tok = todo.pop()
        if tok is None:
            continue
        for text in (tok["fmt"], tok["str"]):
            if text is not None and repr(py_to_nat(text.strip())) not in seen:
                todo.append(add(text.strip()))
    return out


# ---------------------------------------------------------------- input menagerie

TEXTS = [
    "", " ", "\t\n", "0", "1", "-1", "+1", "007", " 42 ", "4 2", "1_000", "_1", "1_", "1__0", "0_7", "+", "-", "+-1", "- 1",
    "１２", "١٢٣", "1２", "-٣", "1e3", "1E-3", "1.5", ".5", "5.", "-0", "-0.0", "nan", "NaN", "-nan", "inf", "-Infinity", "sNaN",
    "NaN123", "infinity", "1e400", "-1e-400", "1_0.5", "0x10", "1" * MAXD, "1" * (MAXD + 1), "0" * (MAXD + 1),
    "-" + "9" * MAXD, "1_" * (MAXD - 1) + "1", "on", "true", "True", "off", "false", "False", "yes", "no", "x", "None", "ON",
    "2020-01-02", "2020-02-29", "2021-02-29", "0000-01-01", "0001-01-01", "9999-12-31", "10000-01-01", "2020-13-01",
    "2020-00-10", "2020-01-00", "2020-04-31", "1900-02-29", "2000-02-29", "2020-1-2", "2020-01-02\n", "2020-01-02\n\n",
    " 2020-01-02 ", "２０２０-０１-０２", "2020-01-02 03:04:05", "2020-01-02T03:04:05", "2020-01-02 24:00:00",
    "2020-01-02 03:04:60", "2020-01-02  03:04:05", "2020-01-02 03:04:05\n", "03:04:05", "23:59:59", "24:00:00", "00:60:00",
    "3:4:5", "03:04:05\n", "03:04:05.5", "٠٣:٠٤:٠٥", "03-04-05", "2020:01:02", "  7 ", "\x1c5\x1f", "a", " a ", "a b",
    "b", "　x　", "\x85y",
]
INTS = [0, 1, -1, 7, 42, -5, 10 ** 6, -10 ** 6, 10 ** 30, 10 ** 400, -(10 ** 400), 10 ** (MAXD - 1), 10 ** MAXD - 1,
        10 ** MAXD, -(10 ** MAXD), 10 ** 5000, -(10 ** 5000), 2020, 12, 31]
FLOATS = [0.0, -0.0, 1.5, -2.25, 1e22, 1e23, 1e308, 1e-300, float("nan"), float("inf"), float("-inf"), 3.7, -3.7, 0.1,
          -1e-9, 123456789.123456789, 5e-7]
DECIMALS = ["0", "-0", "1.50", "1E+3", "1E+400", "-1.234567891", "NaN", "-NaN", "sNaN", "Infinity", "-Infinity", "NaN123",
            "0.0000004", "1E-400", "12345678901234567890.123456789"]
TEMPORALS = [datetime.date(2020, 1, 2), datetime.date(1, 1, 1), datetime.date(9999, 12, 31), datetime.date(2020, 2, 29),
             datetime.datetime(2020, 1, 2, 3, 4, 5), datetime.datetime(2020, 1, 2, 3, 4, 5, 6), datetime.datetime(2020, 1, 2),
             datetime.datetime(999, 12, 31, 23, 59, 59), datetime.time(1, 2, 3), datetime.time(0, 0, 0),
             datetime.time(23, 59, 59, 999999), datetime.time(1, 2, 3, 5)]
OTHERS = [Other("thing", True), Other("", False), Other(" 12 ", True), Other("2020-01-02", False)]

ALPHABET = list("0123456789") * 3 + list("+-_.eE: \t\n") * 2 + list("１２٣٠۵५") + [" ", " ", "\x1c", "\x85", "　"] + \
    list("aonxT/") + list("-:") * 3


def random_codepoint(rng):
    r = rng.random()
    if r < 0.4:
        c = rng.randrange(0x20, 0x7F)
    elif r < 0.7:
        c = rng.randrange(0x0, 0x3100)
    elif r < 0.9:
        c = rng.randrange(0x0, 0x20000)
    else:
        c = rng.randrange(0x0, 0x110000)
    if 0xD800 <= c <= 0xDFFF:
        c = 0x2028
    return chr(c)


def random_text(rng):
    n = rng.choice([0, 1, 2, 3, 4, 5, 6, 8, 10, 12, 19, 20])
    if rng.random() < 0.25:      # arbitrary Unicode, not only the characters the grammars care about
        return "".join(random_codepoint(rng) for _ in range(n))
    return "".join(rng.choice(ALPHABET) for _ in range(n))


def mutate_text(rng, s):
    if not s:
        return rng.choice(ALPHABET)
    i = rng.randrange(len(s))
    r = rng.random()
    if r < 0.3:
        return s[:i] + rng.choice(ALPHABET) + s[i + 1:]
    if r < 0.55:
        return s[:i] + s[i + 1:]
    if r < 0.8:
        return s[:i] + rng.choice(ALPHABET) + s[i:]
    ws = rng.choice([" ", "\n", "\t", " ", " ", "\x1f"])
    return rng.choice([ws + s, s + ws, ws + s + ws])


def translit(rng, s, zeros):
    """Replace ASCII digits by digits of random Nd decades."""
    out = []
    for ch in s:
        if "0" <= ch <= "9" and rng.random() < 0.6:
            out.append(chr(rng.choice(zeros) + ord(ch) - 48))
        else:
            out.append(ch)
    return "".join(out)


def random_native(rng):
    r = rng.random()
    if r < 0.08:
        return None
    if r < 0.50:
        return rng.choice(TEXTS)
    if r < 0.60:
        return random_text(rng)
    if r < 0.70:
        return rng.choice(INTS)
    if r < 0.74:
        return rng.choice([True, False])
    if r < 0.82:
        return rng.choice(FLOATS)
    if r < 0.88:
        return decimal.Decimal(rng.choice(DECIMALS))
    if r < 0.96:
        return rng.choice(TEMPORALS)
    return rng.choice(OTHERS)
