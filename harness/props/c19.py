"""C19 — markup options resolve tag > block > generator > default and unwind on end()."""
import copy
import itertools
import re

from harness.core import Property, CaseTimeout
from harness.props import markup_common as mc
from harness.props.markup_common import S, B, I, MAYBE

OPTION_KEYS = ["auto_name", "auto_value", "auto_domid", "auto_for", "auto_tabindex", "auto_filter"]
FIVE = OPTION_KEYS[:5]
OBSERVED = OPTION_KEYS + ["tabindex", "domid_format", "ordered_attributes", "filters"]
NO_FILTERS = {"t": "o", "v": "()"}
KNOWN_KEYS = set(OBSERVED) | {"markup_wrapper", "filters"}
DEFAULTS = {"auto_name": True, "auto_value": True, "auto_domid": False, "auto_for": False, "auto_tabindex": False,
            "auto_filter": False}
AUTO_TAGS = {"auto_name": {"input", "button", "select", "textarea", "form"},
             "auto_value": {"button", "input", "option", "textarea"},
             "auto_domid": {"input", "button", "select", "textarea"},
             "auto_for": {"label"},
             "auto_tabindex": {"input", "button", "select", "textarea"}}
YES = {"1", "true", "t", "on", "yes"}
NO = {"0", "false", "nil", "off", "no"}
TAGS = ["form", "input", "textarea", "button", "select", "option", "label"]
FREE_TAGS = ["div", "span", "INPUT", "Label", "p"]
VOIDS = ["area", "base", "br", "col", "embed", "hr", "img", "input", "link", "meta", "param", "source", "track", "wbr"]
TROOL_VALUES = [S("on"), S("off"), S("auto"), B(True), B(False), S("bogus"), MAYBE, S("ON"), S("Off"), S("yes"), S("no"),
                S("1"), S("0"), S("t"), S("nil"), S("True"), S("False"), S("AUTO"), S(""), S("oK"), S("İ")]
ID_INVALID = re.compile(r"[^A-Za-z0-9_:.\-]")
PRE_ATTRS = ["name", "value", "id", "for", "tabindex", "checked", "selected"]
TYPES = ["text", "checkbox", "radio", "password", "hidden", "submit", "file", "image", "", "CHECKBOX", "Radio", "Password"]


# ------------------------------------------------------------------ reference (spec B in Python)

def trool(v):
    """documented reading of an option value: True / False / None (auto; unknown text counts as auto)"""
    if v["t"] == "b":
        return bool(v["v"])
    if v["t"] in ("s", "m"):
        low = v["v"].lower()
        if low in YES:
            return True
        if low in NO:
            return False
    return None


def spec_resolve(option, tag_value, levels):
    """the four-level rule of the statement: tag > innermost block/set giving on/off > generator > default;
    'auto' defers to the next level.  levels: innermost first, dicts key -> encoded value."""
    t = trool(tag_value) if tag_value is not None else None
    if t is not None:
        return t, t is True
    for lv in levels:
        if option in lv:
            d = trool(lv[option])
            if d is not None:
                return d, False
    return DEFAULTS[option], False


def shadow_resolve(option, tag_value, levels):
    """KF-C19-a: what flat-copied frames do — the innermost level that mentions the option decides,
    and if it says auto the built-in default applies (outer on/off is hidden)"""
    t = trool(tag_value) if tag_value is not None else None
    if t is not None:
        return t, t is True
    for lv in levels:
        if option in lv:
            d = trool(lv[option])
            return (d, False) if d is not None else (DEFAULTS[option], False)
    return DEFAULTS[option], False


def shadowed_options(tag_kwargs, levels):
    """class predicate of KF-C19-a for one tag call: options without tag-level on/off whose innermost
    explicit setting is auto-like while some outer level says on/off"""
    out = []
    for option in OPTION_KEYS:
        tv = tag_kwargs.get(option)
        if tv is not None and trool(tv) is not None:
            continue
        mentions = [lv[option] for lv in levels if option in lv]
        if mentions and trool(mentions[0]) is None and any(trool(m) is not None for m in mentions[1:]):
            out.append(option)
    return out


def no_shadowing_auto(option, levels):
    """Lean `Spec.noShadowingAuto DEFAULTS[option]` on the level readings (the hypothesis of toggle_resolution): the
    innermost level that mentions the option says on/off, or says auto and the first on/off further out is absent or
    equals the built-in default.  Second value: every value given is an option value (Lean `troolValued`)."""
    mentions = [lv[option] for lv in levels if option in lv]
    valued = all(m["t"] in ("b", "s", "m", "maybe") for m in mentions)
    if not mentions or trool(mentions[0]) is not None:
        return True, valued
    outer = next((trool(m) for m in mentions[1:] if trool(m) is not None), None)
    return outer is None or outer == DEFAULTS[option], valued


def lookup(levels, key, default):
    for lv in levels:
        if key in lv:
            return lv[key]
    return default


# ------------------------------------------------------------------ filters (round h9)
# A case may carry "filters": [[name, [filter description, ...]], ...]; a setting {"t":"o","v":name} stands for THAT list
# object (one per case, so that generator["filters"] can be read back by identity).  A description is
#   {"tags": None | [tag, ...], "dels": [attr, ...], "sets": [[attr, value], ...], "act": {"kind": keep|append|replace|drop|appendtag, ...}}

def make_filter(d):
    """the real Python callable for a filter description (what Lean `Filter.apply` models)"""
    dels, sets, act, tags = d["dels"], d["sets"], d["act"], d["tags"]

    def fn(tagname, attributes, contents, context, bind):
        for k in dels:
            attributes.pop(k, None)
        for k, v in sets:
            attributes[k] = mc.to_py(v)
        kind = act["kind"]
        if kind == "keep":
            return contents
        if kind == "append":
            return act["m"] if contents is None else contents + act["m"]
        if kind == "replace":
            return mc.to_py(act["v"])
        if kind == "drop":
            return None
        if kind == "appendtag":
            return tagname if contents is None else contents + tagname
        raise ValueError(kind)
    if tags is not None:
        fn.tags = list(tags)
    return fn


class Env:
    """the filter lists of one case as live objects"""

    def __init__(self, case):
        self.descr = dict((name, fs) for name, fs in case.get("filters", []))
        self.lists = dict((name, [make_filter(d) for d in fs]) for name, fs in self.descr.items())
        self.ids = dict((id(lst), name) for name, lst in self.lists.items())

    def to_py(self, v):
        if v["t"] == "o":
            return () if v["v"] == "()" else self.lists[v["v"]]
        return mc.to_py(v)

    def kwargs_of(self, pairs):
        return {k: self.to_py(v) for k, v in pairs}

    def from_py(self, x):
        name = self.ids.get(id(x))
        return {"t": "o", "v": name} if name is not None else mc.from_py(x)


NO_ENV = Env({})


def filters_ref(tag, attrs, cur, descrs):
    """SPEC of the filter stage, in Python, independent of Lean: the filters in force run in order; one with a non-empty
    `tags` runs only on those tags; each is handed the contents the previous one returned; it changes the attributes it
    names and nothing else.  Returns (contents, indices that ran, attribute names the running filters wrote)."""
    ran, wrote = [], set()
    for i, d in enumerate(descrs):
        if d["tags"] and tag not in d["tags"]:
            continue
        ran.append(i)
        for k in d["dels"]:
            attrs.pop(k, None)
        for k, v in d["sets"]:
            attrs[k] = v["v"]
            wrote.add(k)
        kind = d["act"]["kind"]
        if kind == "append":
            cur = d["act"]["m"] if cur is None else cur + d["act"]["m"]
        elif kind == "replace":
            cur = d["act"]["v"]["v"]
        elif kind == "drop":
            cur = None
        elif kind == "appendtag":
            cur = tag if cur is None else cur + tag
    return cur, ran, wrote


# The documentation's table (docs/source/markup.rst, "Transformations"): per transform its default, the tags it acts
# on by itself, the attribute it writes and whether it needs a bound element.
DOC = {
    "auto_name": {"attr": "name", "tags": AUTO_TAGS["auto_name"], "needs_bind": True},
    "auto_domid": {"attr": "id", "tags": AUTO_TAGS["auto_domid"], "needs_bind": False},
    "auto_for": {"attr": "for", "tags": AUTO_TAGS["auto_for"], "needs_bind": True},
    "auto_tabindex": {"attr": "tabindex", "tags": AUTO_TAGS["auto_tabindex"], "needs_bind": False},
}


def applies(option, tag, forced, given):
    """THE APPLIES TABLE: once the option resolves to on, the attribute is generated iff it is forced on the tag, or
    the tag is one of the transform's own tags and the author did not give the attribute"""
    return forced or (not given and tag in DOC[option]["tags"])


def value_effect(tag, attrs, contents, u, forced):
    """documented per-tag meaning of auto-value ("the semantics of value vary by tag"); returns the new text or None"""
    if tag == "input":
        kind = attrs.get("type", "").lower()      # type keywords are case-insensitive
        if kind in ("checkbox", "radio"):
            # checked iff value= matches the element; a checkbox without value= is left alone (bind is not a Boolean
            # here), a radio without value= counts as value=""
            cur = attrs.get("value") if kind == "checkbox" else attrs.get("value", "")
            if cur == u:
                attrs["checked"] = "checked"
            else:
                attrs.pop("checked", None)
            return None
        if kind in ("password", "file", "image"):
            if forced:
                attrs["value"] = u          # "No value is added unless forced"
            return None
    elif tag == "option":
        lit = attrs["value"] if "value" in attrs else (contents.strip() if contents is not None else "")
        if lit == u:
            attrs["selected"] = "selected"
        else:
            attrs.pop("selected", None)
        return None
    elif tag == "textarea":
        return u if (contents is None or forced) else None     # explicit contents are preferred unless forced
    if "value" not in attrs or forced:
        attrs["value"] = u
    return None


def expected_tag(op, levels, resolver, tb, env=NO_ENV, info=None):
    """Expected attributes / text of one tag call: option resolution (`resolver`) + the documentation's applies table.
    Returns (tag, attrs dict, text, tabindex handed out or None).  tb = generator["tabindex"] before the call."""
    tag = op["tag"].lower() if op["via"] == "tag" else op["tag"]
    kw = {}
    contents = None
    for k, v in op["kwargs"]:
        if k == "contents":
            contents = v["v"]
        else:
            kw[k.rstrip("_")] = v
    attrs = {k: v["v"] for k, v in kw.items() if k not in OPTION_KEYS}
    bind = op["bind"]
    dec = {o: resolver(o, kw.get(o), levels) for o in OPTION_KEYS}
    text = contents if contents is not None else ""
    cur = contents
    fmt = lookup(levels, "domid_format", S("f_%s"))["v"]

    def raw_id():
        # documented: ids derive from the bound element's flattened name (or the name attribute when unbound);
        # checkbox/radio inputs and labels given a value get the sanitised value appended
        basis = bind["name"] if bind is not None else attrs.get("name")
        if not basis:
            return None
        suffix = None
        if (tag == "input" and attrs.get("type", "").lower() in ("checkbox", "radio")) or tag == "label":
            suffix = ID_INVALID.sub("", attrs.get("value", ""))
        return basis + "_" + suffix if suffix else basis

    handed = None
    for option in FIVE:                      # the order in which the transforms run
        on, forced = dec[option]
        if option == "auto_value":
            if on and bind is not None and (forced or tag in AUTO_TAGS["auto_value"]):
                new_text = value_effect(tag, attrs, contents, bind["u"], forced)
                if new_text is not None:
                    text = cur = new_text
            continue
        doc = DOC[option]
        if on and (bind is not None or not doc["needs_bind"]) and applies(option, tag, forced, doc["attr"] in attrs):
            if option == "auto_name":
                if bind["name"]:
                    attrs["name"] = bind["name"]
            elif option == "auto_tabindex":
                if tb != 0:                  # "A tabindex value of 0 will block the assignment"
                    attrs["tabindex"] = str(tb)
                    handed = tb
            else:
                raw = raw_id()
                if raw:
                    attrs[doc["attr"]] = fmt % raw
        if option == "auto_for" and tag == "label":
            attrs.pop("value", None)         # a label's value= only selects the control it points to
    # the filter stage: last, iff auto_filter resolves to on, with the `filters` setting in force
    fv = lookup(levels, "filters", NO_FILTERS)
    if dec["auto_filter"][0] and fv["t"] == "o" and fv["v"] != "()":
        cur, ran, wrote = filters_ref(tag, attrs, cur, env.descr[fv["v"]])
        text = cur if cur is not None else ""
        if info is not None:
            info.update(ran=ran, wrote=wrote, n=len(env.descr[fv["v"]]))
    elif info is not None and fv["t"] == "o" and fv["v"] != "()":
        info.update(off=True)
    if tag in VOIDS:
        text = ""
    return tag, attrs, text, handed


def int_valued_option(op, levels):
    """an option (in transform order) not decided on the tag whose value in force is an int"""
    kw = {k.rstrip("_"): v for k, v in op["kwargs"]}
    for k in OPTION_KEYS:
        tv = kw.get(k)
        if tv is not None and trool(tv) is not None:
            continue
        for lv in levels:
            if k in lv:
                if lv[k]["t"] == "i":
                    return k
                break
    return None


def bad_filters_value(op, levels, resolver):
    """the filter toggle is on and the `filters` value in force cannot be iterated / called (outside the declared domain):
    the tag call raises TypeError, after the five attribute transforms ran"""
    kw = {k.rstrip("_"): v for k, v in op["kwargs"]}
    if not resolver("auto_filter", kw.get("auto_filter"), levels)[0]:
        return False
    fv = lookup(levels, "filters", NO_FILTERS)
    return fv["t"] in ("i", "b", "maybe") or (fv["t"] in ("s", "m") and fv["v"] != "")


def snapshot(gen, env=NO_ENV):
    return [[k, env.from_py(gen[k])] for k in OBSERVED]


def apply_op(gen, op, pool=None, env=NO_ENV):
    """perform one op on the real generator; returns (exception class name or None, markup or None, contents or None)"""
    from flatland.out.markup import Tag
    try:
        kind = op["op"]
        if kind == "begin":
            gen.begin(**env.kwargs_of(op["settings"]))
        elif kind == "end":
            gen.end()
        elif kind == "set":
            gen.set(**env.kwargs_of(op["settings"]))
        elif kind == "setitem":
            gen[op["key"]] = env.to_py(op["value"])
        elif kind == "update":
            gen.update(**env.kwargs_of(op["settings"]))
        elif kind == "tag":
            bind = mc.make_bind(op["bind"])
            kwargs = mc.kwargs_of(op["kwargs"])
            if pool is not None and (op.get("handle") is not None or op.get("how", "call") != "call"):
                # through a (held) Tag object: call / open / close / open + contents + close
                out, contents = pool.render(op, bind, kwargs)
                return None, out, contents
            if op["via"] == "prop":
                out = getattr(gen, op["tag"])(bind, **kwargs)
            else:
                out = gen.tag(op["tag"], bind, **kwargs)
                if isinstance(out, Tag):
                    out = out()
            return None, str(out), None
        else:
            raise ValueError(kind)
    except AssertionError:
        raise
    except CaseTimeout:
        raise
    except Exception as e:  # noqa
        return type(e).__name__, None, None
    return None, None, None


def make_generator(init, env=NO_ENV):
    from flatland.out.markup import Generator
    return Generator(init["markup"], **env.kwargs_of(init["settings"]))


def settings_of(op):
    if op["op"] == "setitem":
        return [[op["key"], op["value"]]]
    return op.get("settings", [])


# what a fresh Generator() reads back (docs/source/markup.rst: transformation defaults; "Numbering starts at the scope's
# tabindex", 0 = no numbering; ids are formatted with 'f_%s'; attributes are emitted in a fixed order)
DEFAULT_READS = dict([(k, B(v)) for k, v in DEFAULTS.items()] +
                     [("tabindex", I(0)), ("domid_format", S("f_%s")), ("ordered_attributes", B(True)),
                      ("filters", NO_FILTERS)])


def expected_snapshot(levels):
    """what generator[key] must read: the innermost level that sets the key, else the default.  The tabindex counter is
    one of those keys: begin() inherits it, an explicit tabindex= sets it at its level, every positive value handed out
    advances it by one AT THE CURRENT LEVEL, end() drops the level (the outer counter resumes where it was)."""
    return [[k, lookup(levels, k, DEFAULT_READS[k])] for k in OBSERVED]


def run_reference(case, resolver=spec_resolve, stop_before=None):
    """Replay the case on the real generator next to the reference; yields failures.  Independent of Lean.
    The reference keeps its OWN settings stack, tabindex counter included; the real generator is only ever compared with
    it (after every op: `generator-reads-back` / `tabindex-counter`), never read to form an expectation."""
    fails = []
    env = Env(case)
    init = case["init"]
    bad_init = [k for k, _ in init["settings"] if k not in KNOWN_KEYS]
    try:
        gen = make_generator(init, env)
    except CaseTimeout:
        raise
    except Exception as e:  # noqa
        cls = type(e).__name__
        want = "TypeError" if init["markup"] not in ("xml", "xhtml", "html") else ("KeyError" if bad_init else None)
        if cls != want:
            fails.append({"clause": "constructor", "expected": want, "observed": cls})
        return fails
    if bad_init or init["markup"] not in ("xml", "xhtml", "html"):
        return [{"clause": "constructor", "expected": "exception", "observed": None}]
    pool = mc.TagPool(gen)
    levels = [dict((k, v) for k, v in init["settings"])]      # innermost first
    restore = []                                               # snapshots taken at each successful begin
    scopes = [[]]                                              # tabindex values handed out per open scope

    def reading(k, v):
        # an option reads back as on / off / auto in any of its documented spellings (set() stores the parsed value,
        # begin / update / []= what they were given); everything else reads back as it was given
        if k in OPTION_KEYS and v["t"] in ("b", "s", "m", "maybe"):
            return trool(v)
        return v

    def read_back(i):
        """the real generator against the reference, key by key; after a reported difference the reference adopts the
        observed value (one defect, one report: what follows is judged relative to it)"""
        got, want = snapshot(gen, env), expected_snapshot(levels)
        diff = [k for (k, g), (_, w) in zip(got, want) if reading(k, g) != reading(k, w)]
        if not diff:
            return
        clause = "tabindex-counter" if diff == ["tabindex"] else "generator-reads-back"
        fails.append({"clause": clause, "op": i, "keys": diff,
                      "expected": [kv for kv in want if kv[0] in diff], "observed": [kv for kv in got if kv[0] in diff]})
        for k, g in got:
            if k in diff:
                levels[0][k] = g

    read_back("init")

    def step(i, op):
        before = snapshot(gen, env)
        tb = lookup(levels, "tabindex", I(0)).get("v", 0)          # the REFERENCE's counter
        err, out, contents = apply_op(gen, op, pool, env)
        after = snapshot(gen, env)
        kind = op["op"]
        if kind in ("begin", "set", "setitem", "update"):
            unknown = [k for k, _ in settings_of(op) if k not in KNOWN_KEYS]
            if unknown:
                want = "TypeError" if kind == "set" else "KeyError"
                if err != want:
                    fails.append({"clause": "unknown-rejected", "op": i, "expected": want, "observed": err})
                if after != before:
                    fails.append({"clause": "unknown-leaves-stack", "op": i, "expected": before, "observed": after})
                return
            if err is not None:
                fails.append({"clause": "valid-settings-accepted", "op": i, "expected": None, "observed": err})
                return
            if kind == "begin":
                restore.append(before)
                levels.insert(0, {})
                scopes.append([])
            for k, v in settings_of(op):
                levels[0][k] = v
            if any(k == "tabindex" for k, _ in settings_of(op)):
                scopes[-1] = []      # an explicit tabindex restarts the sequence of the scope
        elif kind == "end":
            if len(levels) == 1:
                if err != "RuntimeError":
                    fails.append({"clause": "unbalanced-end-raises", "op": i, "expected": "RuntimeError", "observed": err})
                if after != before:
                    fails.append({"clause": "unbalanced-end-leaves-stack", "op": i, "expected": before, "observed": after})
            else:
                if err is not None:
                    fails.append({"clause": "end-accepted", "op": i, "expected": None, "observed": err})
                    return
                levels.pop(0)
                scopes.pop()
                want = restore.pop()
                if after != want:
                    fails.append({"clause": "end-restores", "op": i, "expected": want, "observed": after})
        elif kind == "tag":
            how = op.get("how", "call")
            void = (op["tag"].lower() if op["via"] == "tag" else op["tag"]) in VOIDS
            if how != "call" and void:
                # Tag.open()/close() refuse void elements, before touching anything
                if err != "ValueError":
                    fails.append({"clause": "tag-renders", "op": i, "expected": "ValueError (open/close of a void element)", "observed": err})
                if after != before:
                    fails.append({"clause": "rejected-leaves-stack", "op": i, "expected": before, "observed": after})
                return
            if how == "close":
                if err is not None or out != "</%s>" % (op["tag"].lower() if op["via"] == "tag" else op["tag"]):
                    fails.append({"clause": "tag-renders", "op": i, "expected": "closing tag", "observed": [err, out]})
                return
            bad = int_valued_option(op, levels)
            if bad is not None:
                # an int stored for an option (outside the declared domain): resolving it raises AttributeError
                if err != "AttributeError":
                    fails.append({"clause": "tag-renders", "op": i, "expected": "AttributeError (int value of %s)" % bad, "observed": err})
                if bad == "auto_filter":
                    # the last transform: the five before it ran, the tabindex one included
                    handed = expected_tag(op, levels, resolver, tb, env)[3]
                    if handed is not None and handed > 0:
                        levels[0]["tabindex"] = I(handed + 1)
                return
            if bad_filters_value(op, levels, resolver):
                if err != "TypeError":
                    fails.append({"clause": "tag-renders", "op": i, "expected": "TypeError (filters value is not a sequence of callables)", "observed": err})
                handed = expected_tag(op, levels, resolver, tb, env)[3]
                if handed is not None and handed > 0:
                    levels[0]["tabindex"] = I(handed + 1)
                return
            if err is not None:
                fails.append({"clause": "tag-renders", "op": i, "expected": "markup", "observed": err})
                return
            finfo = {}
            tag, attrs, text, handed = expected_tag(op, levels, resolver, tb, env, finfo)
            if handed is not None and handed > 0:
                levels[0]["tabindex"] = I(handed + 1)     # "subsequent assignments will increment by one"
            if how == "open":
                # what the template prints: the opening half, tag.contents, later the closing half
                out = out + (contents or "") + "</%s>" % tag
            el = mc.single_element(mc.parse_events(out), VOIDS)
            if el is None:
                fails.append({"clause": "tag-renders", "op": i, "expected": "one element", "observed": out})
                return
            got = dict((k, v) for k, v in el["attrs"])
            # an option name may only show if a filter that RAN wrote it itself
            leaked = [k for k in got if k.lower() in OPTION_KEYS and k not in finfo.get("wrote", ())]
            if leaked:
                fails.append({"clause": "options-never-emitted", "op": i, "expected": [], "observed": leaked})
            if got != attrs or el["tag"] != tag or el["text"] != text:
                fails.append({"clause": "resolution", "op": i, "expected": {"tag": tag, "attrs": attrs, "text": text},
                              "observed": el})
            if handed is not None and got.get("tabindex") == str(handed):
                # an automatically handed-out value: strictly above the previous one of this scope
                if scopes[-1] and not scopes[-1][-1] < handed:
                    fails.append({"clause": "tabindex-increasing", "op": i, "expected": "> %d" % scopes[-1][-1], "observed": handed,
                                  "previous": scopes[-1][-1]})
                scopes[-1].append(handed)

    for i, op in enumerate(case["ops"]):
        if stop_before is not None and i == stop_before:
            return fails, levels, lookup(levels, "tabindex", I(0)).get("v", 0)
        step(i, op)
        read_back(i)
    # drain: exactly the open blocks can be ended
    opened = 0
    while opened < 64:
        err, _, _ = apply_op(gen, {"op": "end"}, None, env)
        if err is not None:
            if err != "RuntimeError":
                fails.append({"clause": "unbalanced-end-raises", "op": "drain", "expected": "RuntimeError", "observed": err})
            break
        opened += 1
    if opened != len(levels) - 1:
        fails.append({"clause": "stack-depth", "expected": len(levels) - 1, "observed": opened})
    if stop_before is not None:
        return fails, levels, None
    return fails


# ------------------------------------------------------------------ generation

FILTER_ATTRS = ["class", "data-f", "name", "value", "id", "auto_name", "auto_filter", "tabindex"]
FILTER_TAG_SETS = [None, None, [], ["input", "textarea"], ["label"], ["div", "option", "select"], ["form", "button", "input"]]


def _rand_filter(rng, i):
    sets = []
    for _ in range(rng.choice([0, 1, 1, 2])):
        k = rng.choice(FILTER_ATTRS)
        if k not in [x[0] for x in sets]:
            sets.append([k, S(rng.choice(["f%d" % i, "x y", "zz", ""]))])
    dels = [rng.choice(FILTER_ATTRS + ["type", "checked"])] if rng.random() < 0.25 else []
    r = rng.random()
    if r < 0.3:
        act = {"kind": "keep"}
    elif r < 0.65:
        act = {"kind": "append", "m": "[%d]" % i}
    elif r < 0.8:
        act = {"kind": "replace", "v": rng.choice([S("R%d" % i), mc.M("M%d" % i), S("")])}
    elif r < 0.9:
        act = {"kind": "drop"}
    else:
        act = {"kind": "appendtag"}
    return {"tags": rng.choice(FILTER_TAG_SETS), "dels": dels, "sets": sets, "act": act}


def _rand_filter_env(rng):
    """0-3 named filter lists of 0-3 filters each"""
    out = []
    for j in range(rng.choice([1, 1, 2, 3])):
        out.append(["L%d" % j, [_rand_filter(rng, 10 * j + i) for i in range(rng.choice([0, 1, 1, 2, 2, 3]))]])
    return out


def _rand_settings(rng, allow_unknown=True, allow_int=False, fnames=()):
    out = []
    used = set()
    if fnames:
        # a history that has filters: the toggle and the lists are given (at this level) much more often
        if rng.random() < 0.45:
            out.append(["filters", {"t": "o", "v": rng.choice(list(fnames) + ["()"])}])
            used.add("filters")
        if rng.random() < 0.45:
            out.append(["auto_filter", rng.choice([S("on"), B(True), S("on"), S("off"), S("auto"), B(False)])])
            used.add("auto_filter")
        rng.shuffle(out)
    for _ in range(rng.choice([0, 1, 1, 1, 2, 2, 3])):
        r = rng.random()
        if allow_int and r < 0.02:
            # outside the declared domain (option values are str/bool/Maybe): stored raw by begin/update/[]=, makes
            # the next tag call raise AttributeError — after the tabindex counter write when it is auto_filter
            k, v = rng.choice(["auto_filter", "auto_filter", "auto_name"]), I(5)
        elif r < 0.72:
            k = rng.choice(OPTION_KEYS if rng.random() < 0.85 else ["auto_name", "auto_value"])
            v = rng.choice(TROOL_VALUES)
        elif r < 0.82:
            k, v = "tabindex", I(rng.choice([0, 1, 1, 5, 10, 100, -1]))
        elif r < 0.88:
            k, v = "domid_format", S(rng.choice(["f_%s", "%s", "id-%s", "x%sx"]))
        elif r < 0.92:
            k, v = "ordered_attributes", B(rng.random() < 0.5)
        elif allow_unknown:
            k, v = rng.choice(["bogus", "auto_bogus", "Auto_name", "auto_name_", "name", ""]), rng.choice(TROOL_VALUES)
        else:
            continue
        if k in used:
            continue
        used.add(k)
        out.append([k, v])
    return out


def _rand_tag(rng):
    via = "prop" if rng.random() < 0.8 else "tag"
    tag = rng.choice(TAGS) if via == "prop" or rng.random() < 0.5 else rng.choice(FREE_TAGS)
    bind = None if rng.random() < 0.2 else {"kind": "scalar", "name": rng.choice(["fld", "a_0_b", "n"]),
                                            "u": rng.choice(["val", "", "x y", "1"])}
    kwargs = []
    if tag.lower() == "input" and rng.random() < 0.8:
        kwargs.append(["type", S(rng.choice(TYPES))])
    for a in PRE_ATTRS:
        if rng.random() < 0.18:
            val = rng.choice(["val", "pre", "", "x y", "7", "1"])
            kwargs.append([a, S(val)])
    for k in OPTION_KEYS:
        if rng.random() < 0.22:
            kwargs.append([k, rng.choice(TROOL_VALUES)])
    if rng.random() < 0.1:
        kwargs.append(["contents", S(rng.choice(["val", " val ", "other", ""]))])
    rng.shuffle(kwargs)
    op = {"op": "tag", "via": via, "tag": tag, "bind": bind, "kwargs": kwargs}
    r = rng.random()
    if r < 0.3:
        # through a HELD Tag object (one per tag name and access path for the whole history), possibly open()/close()
        op["handle"] = "%s/%s" % (via, tag.lower())
        op["how"] = rng.choice(["call", "call", "openclose", "openclose", "open", "close"])
    elif r < 0.36:
        op["how"] = rng.choice(["openclose", "open", "close"])       # on a fresh object
    return op


def _rand_case(rng):
    fenv = _rand_filter_env(rng) if rng.random() < 0.45 else []
    fnames = tuple(n for n, _ in fenv)
    c = _rand_case_with(rng, fnames)
    if fenv:
        c["filters"] = fenv
    return c


def _rand_bad_filters_case(rng):
    """hostile stream: a `filters` value that is not a sequence of callables, the toggle decided by on/off only"""
    el = {"kind": "scalar", "name": "fld", "u": "val"}
    bad = rng.choice([S("ab"), S(""), I(5), B(True), MAYBE, mc.M("x"), mc.M("")])
    init = [["auto_filter", rng.choice([B(True), S("on"), B(False)])], ["tabindex", I(rng.choice([0, 4, -2]))],
            ["auto_tabindex", B(True)]]
    how = rng.choice(["init", "begin", "setitem", "set", "update"])
    ops = []
    if how == "init":
        init.append(["filters", bad])
    elif how == "setitem":
        ops.append({"op": "setitem", "key": "filters", "value": bad})
    else:
        ops.append({"op": how, "settings": [["filters", bad]]})
    for _ in range(rng.choice([1, 2, 3])):
        kw = [["type", S("text")]]
        if rng.random() < 0.4:
            kw.append(["auto_filter", rng.choice([S("on"), S("off"), B(True), B(False)])])
        ops.append({"op": "tag", "via": "prop", "tag": rng.choice(["input", "textarea", "label"]), "bind": el, "kwargs": kw})
    if how == "begin" and rng.random() < 0.7:
        ops.append({"op": "end"})
        ops.append({"op": "tag", "via": "prop", "tag": "input", "bind": el, "kwargs": []})
    return {"init": {"markup": "xhtml", "settings": init}, "ops": ops}


def _rand_case_with(rng, fnames):
    init = {"markup": rng.choice(["xml", "xhtml", "html"]),
            "settings": _rand_settings(rng, allow_unknown=rng.random() < 0.03, fnames=fnames)}
    if rng.random() < 0.01:
        init["markup"] = "sgml"
    ops = []
    depth = 0
    for _ in range(rng.choice([1, 2, 3, 4, 6, 8, 12, 12, 20, 30])):
        r = rng.random()
        if r < 0.2 and depth < 5:
            s = _rand_settings(rng, allow_unknown=rng.random() < 0.15, allow_int=True, fnames=fnames)
            ops.append({"op": "begin", "settings": s})
            if all(k in KNOWN_KEYS for k, _ in s):
                depth += 1
        elif r < 0.35:
            if depth > 0 or rng.random() < 0.25:
                ops.append({"op": "end"})
                depth = max(0, depth - 1)
        elif r < 0.47:
            ops.append({"op": "set", "settings": _rand_settings(rng, allow_unknown=rng.random() < 0.15, fnames=fnames if rng.random() < 0.5 else ())})
        elif r < 0.52:
            s = _rand_settings(rng, allow_unknown=rng.random() < 0.15, allow_int=True, fnames=fnames if rng.random() < 0.5 else ())
            if s:
                ops.append({"op": "setitem", "key": s[0][0], "value": s[0][1]})
        elif r < 0.57:
            ops.append({"op": "update", "settings": _rand_settings(rng, allow_unknown=rng.random() < 0.15, allow_int=True, fnames=fnames if rng.random() < 0.5 else ())})
        else:
            ops.append(_rand_tag(rng))
    if not any(o["op"] == "tag" for o in ops):
        ops.append(_rand_tag(rng))
    return {"init": init, "ops": ops}


class C19(Property):
    id = "C19"
    title = "markup options resolve tag > block > generator > default and unwind on end()"
    proof_module = "Proofs.C19Writes"     # top of the chain C19 <- C19Exact <- C19Filters <- C19Writes
    theorems = [
        "Flatland.C19.Proofs.toggle_resolution",
        "Flatland.C19.Proofs.C19_full_fails",
        "Flatland.C19.Proofs.matches_run",
        "Flatland.C19.Proofs.popToggle_forced",
        "Flatland.C19.Proofs.popToggle_off",
        "Flatland.C19.Proofs.forced_name",
        "Flatland.C19.Proofs.forced_value",
        "Flatland.C19.Proofs.forced_domid",
        "Flatland.C19.Proofs.options_never_emitted",
        "Flatland.C19.Proofs.options_never_rendered",
        "Flatland.C19.Proofs.end_restores",
        "Flatland.C19.Proofs.begin_unknown_rejected",
        "Flatland.C19.Proofs.set_unknown_rejected",
        "Flatland.C19.Proofs.update_unknown_rejected",
        "Flatland.C19.Proofs.setItem_unknown_rejected",
        "Flatland.C19.Proofs.unbalanced_end_raises",
        "Flatland.C19.Proofs.init_depth",
        "Flatland.C19.Proofs.tabindex_increasing",
        "Flatland.C19.Proofs.scope_tabindex_increasing",
        "Flatland.C19.Proofs.tag_given_step",
        "Flatland.C19.Proofs.scope_tabindex_exact",
        "Flatland.C19.Proofs.scopeGiven_eq_scopeHanded",
        "Flatland.C19.Proofs.scope_tabindex_increasing_of_exact",
        "Flatland.C19.Proofs.scope_tabindex_stop_number",
        "Flatland.C19.Proofs.prepareTag_handed",
        "Flatland.C19.Proofs.codeResolve_ne_rule",
        "Flatland.C19.Proofs.transformName_decision",
        "Flatland.C19.Proofs.transformDomid_skips",
        "Flatland.C19.Proofs.transformDomid_applies",
        "Flatland.C19.Proofs.transformFor_skips",
        "Flatland.C19.Proofs.transformFor_applies",
        "Flatland.C19.Proofs.transformTabindex_skips",
        "Flatland.C19.Proofs.transformTabindex_applies",
        "Flatland.C19.Proofs.transformValue_skips",
        "Flatland.C19.Proofs.label_value_dropped",
        "Flatland.C19.Proofs.afterFailedTag_ctx",
        # round h9 — exact resolution (no noShadowingAuto), code vs statement as an iff
        "Flatland.C19.Proofs.toggle_resolution_exact",
        "Flatland.C19.Proofs.toggle_resolution_code",
        "Flatland.C19.Proofs.code_ne_doc_iff",
        "Flatland.C19.Proofs.toggle_doc_iff",
        "Flatland.C19.Proofs.toggle_resolution_doc",
        "Flatland.C19.Proofs.noShadowingAuto_false_iff",
        "Flatland.C19.Proofs.C19_full_fails_of_iff",
        "Flatland.C19.Proofs.setting_in_force",
        # filters
        "Flatland.C19.Proofs.runFilters_eq_foldlM",
        "Flatland.C19.Proofs.transformFiltersF_decision",
        "Flatland.C19.Proofs.filters_resolution",
        "Flatland.C19.Proofs.optionsF_never_emitted",
        "Flatland.C19.Proofs.stepF_gen",
        "Flatland.C19.Proofs.runF_gen",
        "Flatland.C19.Proofs.transformF_no_filters",
        # decision table + tabindex in full
        "Flatland.C19.Proofs.applies_table",
        "Flatland.C19.Proofs.transformName_table",
        "Flatland.C19.Proofs.transformDomid_table_skips",
        "Flatland.C19.Proofs.transformDomid_table_writes",
        "Flatland.C19.Proofs.transformFor_table_skips",
        "Flatland.C19.Proofs.transformFor_table_writes",
        "Flatland.C19.Proofs.transformValue_table_skips",
        "Flatland.C19.Proofs.transformTabindex_exact",
        "Flatland.C19.Proofs.handOut_twice",
    ]
    generated_obligations = ["Flatland.C19.Proofs.defaults_ok", "Flatland.C19.Proofs.autoTags_doc",
                             "Flatland.C19.Proofs.filters_default_ok"]
    level_text = "proof"
    level_note = ("round h9: (0) toggle_resolution_exact — _pop_toggle = codeRule(tag option, LAST explicit assignment among the "
                  "open levels) for ALL histories and stored values, no side condition; toggle_doc_iff: the code returns the "
                  "statement's decision iff not (tag silent and ShadowingAuto) — KF-C19-a as an exact class, C19_full_fails_of_iff "
                  "an instance; transform_filters is inside the model (C19Filters.lean) and compared with real callables: "
                  "runFilters_eq_foldlM (order, tags gating, threading), filters_resolution (run iff the toggle resolves on, list = "
                  "last explicit `filters`), optionsF_never_emitted (whole pipeline incl. filters: an option name survives only if a "
                  "running filter writes it), stepF_gen/runF_gen (filters never touch the generator, so the history theorems hold "
                  "for the filter-aware runner); the decision table attrWritten (rows from the property text) + docTags "
                  "(documentation) vs regenerated _auto_tags (autoTags_doc) replace the by-construction reading of applies; "
                  "transformTabindex_exact states the counter for every int (0 blocks, >0 advances, <0 handed out and kept: "
                  "KF-C19-b exactly).  Settings keys other than the six auto_* toggles (filters, domid_format, tabindex, "
                  "ordered_attributes, markup_wrapper) are NOT consumed when given on a tag: they are ordinary attributes and are "
                  "rendered (observed, modelled, not a finding: the property's options are the toggles).  "
                  "Earlier rounds: (1) the resolution theorem toggle_resolution needs noShadowingAuto — now exactly the condition under which code and "
                  "rule agree on the level readings (codeResolve_ne_rule: where it fails they differ), refuted in general by "
                  "C19_full_fails (KF-C19-a); (2) resolution is proved for _pop_toggle's return value; decision => attribute is "
                  "proved against the applies table for name (equation), id/for/tabindex (skips + applies) and the skip half of "
                  "value; the per-tag value semantics (checked/selected/textarea) are C12 theorems for the non-forced path and "
                  "otherwise rest on correspondence + oracle; the transform*_applies / _skips / transformName_decision theorems and "
                  "guard_eq_applies are BY CONSTRUCTION (Spec.applies and the model's guard are the same expression over the "
                  "same regenerated _auto_tags table: the assurance for the applies table is the correspondence with the real "
                  "code plus the oracle's own hard-coded AUTO_TAGS from the documentation); (3) tabindex: positive counters "
                  "only (KF-C19-b: negative 'stop numbers' are test-pinned); the VALUE of the counter (explicit per level, "
                  "inherited by begin, +1 per positive hand-out at the current level, outer counter resumes after end) is "
                  "kept by the oracle's own reference and compared with generator['tabindex'] after every op (clause "
                  "tabindex-counter; generator-reads-back for the other keys, `filters` included by identity of the list object)")
    technique = ("invariant (flat-copied frames = levels replayed) by induction over histories; decision-table resolver; "
                 "tables YES/NO/MAYBE, _default_context, _auto_tags regenerated from the source")
    trusted_base = [
        "filters are the finite descriptions of harness/props/c19.py:make_filter (delete / set attributes, keep / append / "
        "replace / drop contents, append the tag name, optional `tags`); a filter that mutates the context or raises is not "
        "modelled; markup_wrapper is always Markup",
        "str.lower() replaced by ASCII lower-casing for YES/NO/MAYBE lookups (equivalence checked by the extractor over all code points)",
    ]
    assumptions = [
        "option values are str, bool or Maybe (an int stored raw by begin/update/[]= is generated for auto_filter/auto_name only, "
        "to exercise a tag call that raises after the counter write); tabindex is an int; domid_format is a str with %s / %% only",
        "Context.push/pop are not called directly (only through begin/end)",
    ]
    rule = ("histories of 1-30 Generator calls (1, 2, 3, 4, 6, 8, 12, 12, 20 or 30; the `ops=` tag is capped at 12): begin/end/set/[]=/update (nesting depth <= 5, unbalanced end() and unknown option "
            "names interleaved) and tag calls (7 tag properties + tag(), input types, every subset of pre-existing "
            "name/value/id/for/tabindex/checked/selected, tag-level options); option values from on/off/auto/True/False/Maybe/"
            "unknown text/upper-case/Kelvin-sign spellings; 45 % of the histories carry 1-3 named filter lists of 0-3 filters "
            "given at generator / begin / set / []= / update level with auto_filter at every level incl. the tag; every 50th case "
            "is from the hostile `filters`-value stream (str / int / bool / Maybe).  non-trivial = at least one tag call made under >= 2 explicit levels or "
            "a tag-level option, or a rejected call; distinct = distinct canonical case JSON")
    exhaustive_note = ("every combination of (generator setting, block setting, set() inside the block, tag option) in "
                       "{absent,on,off,auto} for each of the five auto_* options on a tag the transform applies to, with and "
                       "without a pre-existing attribute")
    quick_n = 30000
    case_timeout = 60      # the machine is shared: a stalled worker must not look like a hang of the library
    thorough_n = 400000

    # ------------------------------------------------------------------ cases
    def corpus(self):
        el = {"kind": "scalar", "name": "fld", "u": "val"}
        inp = {"op": "tag", "via": "prop", "tag": "input", "bind": el, "kwargs": [["type", S("text")]]}
        return [
            # fixed: property=C19 9ee56a7 — set() with one valid and one bogus key must not apply the valid one
            {"init": {"markup": "xhtml", "settings": []},
             "ops": [{"op": "set", "settings": [["auto_name", S("off")], ["bogus", I(1)]]}, inp]},
            {"init": {"markup": "xhtml", "settings": []},
             "ops": [{"op": "update", "settings": [["auto_name", S("off")], ["bogus", I(1)]]}, inp]},
            # open KF-C19-a: an inner 'auto' hides the generator's 'off'
            {"init": {"markup": "xhtml", "settings": [["auto_name", S("off")]]},
             "ops": [{"op": "begin", "settings": [["auto_name", S("auto")]]}, inp, {"op": "end"}, inp]},
            # planned drill: tag-level on with a pre-existing attribute
            {"init": {"markup": "html", "settings": [["auto_name", S("off")]]},
             "ops": [{"op": "tag", "via": "prop", "tag": "input", "bind": el,
                      "kwargs": [["name", S("pre")], ["auto_name", S("on")]]}]},
            {"init": {"markup": "xhtml", "settings": [["auto_tabindex", B(True)], ["tabindex", I(5)]]},
             "ops": [inp, {"op": "begin", "settings": []}, inp, inp, {"op": "end"}, inp, {"op": "end"}]},
            # a tag call that raises AFTER the tabindex counter write (int stored for auto_filter): the counter stays advanced
            {"init": {"markup": "xhtml", "settings": [["auto_tabindex", B(True)], ["tabindex", I(5)]]},
             "ops": [{"op": "setitem", "key": "auto_filter", "value": I(5)}, inp, {"op": "setitem", "key": "auto_filter", "value": B(False)}, inp]},
            # one held Tag object across a history: filled body, then empty; open()/contents/close(); a void element
            {"init": {"markup": "xhtml", "settings": [["auto_tabindex", B(True)], ["tabindex", I(3)]]},
             "ops": [{"op": "tag", "via": "prop", "tag": "textarea", "bind": {"kind": "scalar", "name": "a", "u": "val"}, "kwargs": [], "handle": "t", "how": "call"},
                     {"op": "begin", "settings": [["auto_name", S("off")]]},
                     {"op": "tag", "via": "prop", "tag": "textarea", "bind": {"kind": "scalar", "name": "b", "u": ""}, "kwargs": [], "handle": "t", "how": "openclose"},
                     {"op": "tag", "via": "prop", "tag": "textarea", "bind": {"kind": "scalar", "name": "c", "u": "x y"}, "kwargs": [], "handle": "t", "how": "open"},
                     {"op": "tag", "via": "prop", "tag": "textarea", "bind": None, "kwargs": [], "handle": "t", "how": "close"},
                     {"op": "end"},
                     {"op": "tag", "via": "prop", "tag": "textarea", "bind": {"kind": "scalar", "name": "d", "u": ""}, "kwargs": [], "handle": "t", "how": "call"},
                     {"op": "tag", "via": "prop", "tag": "input", "bind": None, "kwargs": [], "how": "open"}]},
            # round h9 — filters: generator-level list, toggle switched on by a block; order (append [0] then [1]); `tags`
            # gating (the third one only on labels); a filter that writes an OPTION name itself; end() switches them off
            {"filters": [["L0", [{"tags": None, "dels": [], "sets": [["class", S("f0")]], "act": {"kind": "append", "m": "[0]"}},
                                 {"tags": [], "dels": ["class"], "sets": [["auto_name", S("zz")]], "act": {"kind": "append", "m": "[1]"}},
                                 {"tags": ["label"], "dels": [], "sets": [["data-f", S("lab")]], "act": {"kind": "replace", "v": mc.M("Lab")}}]],
                         ["L1", [{"tags": ["input", "textarea"], "dels": [], "sets": [], "act": {"kind": "appendtag"}}]]],
             "init": {"markup": "xhtml", "settings": [["filters", {"t": "o", "v": "L0"}]]},
             "ops": [{"op": "tag", "via": "prop", "tag": "textarea", "bind": el, "kwargs": []},
                     {"op": "begin", "settings": [["auto_filter", S("on")]]},
                     {"op": "tag", "via": "prop", "tag": "textarea", "bind": el, "kwargs": []},
                     {"op": "tag", "via": "prop", "tag": "label", "bind": el, "kwargs": [["contents", S("x")]]},
                     {"op": "tag", "via": "prop", "tag": "textarea", "bind": el, "kwargs": [["auto_filter", S("off")]]},
                     {"op": "set", "settings": [["filters", {"t": "o", "v": "L1"}]]},
                     {"op": "tag", "via": "prop", "tag": "textarea", "bind": el, "kwargs": [["contents", S("c")]]},
                     {"op": "tag", "via": "prop", "tag": "select", "bind": el, "kwargs": []},
                     {"op": "end"},
                     {"op": "tag", "via": "prop", "tag": "textarea", "bind": el, "kwargs": [["auto_filter", S("on")]]}]},
            # a `filters` value that is not a sequence of callables: TypeError only when the toggle is on; the counter advanced
            {"init": {"markup": "xhtml", "settings": [["auto_tabindex", B(True)], ["tabindex", I(5)], ["filters", S("ab")]]},
             "ops": [inp, {"op": "set", "settings": [["auto_filter", B(True)]]}, inp, {"op": "setitem", "key": "filters", "value": S("")}, inp]},
            # open KF-C19-b: a negative counter is handed out unchanged and never advances (tabindex=-1 twice): the "stop
            # numbers" pinned by tests/markup/test_transforms.py::test_tabindex_stop_numbers; a violation of "increasing"
            {"init": {"markup": "xhtml", "settings": [["auto_tabindex", B(True)], ["tabindex", I(-1)]]}, "ops": [inp, inp]},
        ]

    def exhaustive(self, tier):
        el = {"kind": "scalar", "name": "fld", "u": "val"}
        vals = [None, S("on"), S("off"), S("auto")]
        tags = {"auto_name": "input", "auto_value": "button", "auto_domid": "select", "auto_for": "label", "auto_tabindex": "textarea"}
        attr = {"auto_name": "name", "auto_value": "value", "auto_domid": "id", "auto_for": "for", "auto_tabindex": "tabindex"}
        for opt in FIVE:
            for g, b, s, t in itertools.product(vals, repeat=4):
                for pre in (False, True):
                    init = [["tabindex", I(3)]] + ([[opt, g]] if g else [])
                    kwargs = ([[attr[opt], S("pre")]] if pre else []) + ([[opt, t]] if t else [])
                    ops = [{"op": "begin", "settings": [[opt, b]] if b else []}]
                    if s:
                        ops.append({"op": "set", "settings": [[opt, s]]})
                    ops.append({"op": "tag", "via": "prop", "tag": tags[opt], "bind": el, "kwargs": kwargs})
                    ops.append({"op": "end"})
                    ops.append({"op": "tag", "via": "prop", "tag": tags[opt], "bind": el, "kwargs": kwargs})
                    yield {"init": {"markup": "xhtml", "settings": init}, "ops": ops}

    def generate(self, rng, n, tier):
        for i in range(n):
            yield _rand_bad_filters_case(rng) if i % 50 == 49 else _rand_case(rng)

    # ------------------------------------------------------------------ real implementation
    def run_impl(self, case):
        env = Env(case)
        try:
            gen = make_generator(case["init"], env)
        except CaseTimeout:
            raise
        except Exception as e:  # noqa
            return {"init_err": type(e).__name__, "steps": [], "open": None}
        obs = {"init_err": None, "init_ctx": snapshot(gen, env), "steps": []}
        pool = mc.TagPool(gen)
        for op in case["ops"]:
            err, out, contents = apply_op(gen, op, pool, env)
            obs["steps"].append({"err": err, "out": mc.safe(out), "contents": mc.safe(contents), "ctx": snapshot(gen, env)})
        opened = 0
        while opened < 64:
            err, _, _ = apply_op(gen, {"op": "end"}, None, env)
            if err is not None:
                break
            opened += 1
        obs["open"] = opened
        return obs

    # ------------------------------------------------------------------ oracle
    def oracle(self, case):
        return run_reference(case)

    def classify(self, case, failure):
        """KF-C19-a iff the failure is a resolution mismatch on a tag call some of whose options satisfy the class
        predicate (innermost explicit setting is auto-like, an outer level says on/off, no tag-level on/off) AND the
        observed attributes are exactly what the documented behaviour gives once those options fall to the built-in
        default.  Any other deviation is not explained by the finding and stays a violation."""
        if failure.get("clause") == "tabindex-increasing":
            # KF-C19-b: a non-positive counter is handed out unchanged by every call (documented for 0 = "blocks";
            # negative values keep their HTML meaning "not reachable by tabbing")
            h, prev = failure.get("observed"), failure.get("previous")
            return "KF-C19-b" if isinstance(h, int) and h < 0 and h == prev else None
        if failure.get("clause") not in ("resolution", "tabindex-counter") or not isinstance(failure.get("op"), int):
            return None
        i = failure["op"]
        if case["ops"][i]["op"] != "tag":
            return None
        # replay the prefix to get the levels and the tabindex in force just before op i
        try:
            _, levels, tb = run_reference(case, stop_before=i)
        except CaseTimeout:
            raise
        except Exception:  # noqa
            return None
        op = case["ops"][i]
        kw = {k.rstrip("_"): v for k, v in op["kwargs"]}
        if not shadowed_options(kw, levels):
            return None
        tag, attrs, text, handed = expected_tag(op, levels, shadow_resolve, tb, Env(case))
        if failure["clause"] == "tabindex-counter":
            # the counter side of the same finding: with the shadowed options at their built-in default the call hands
            # out (or does not hand out) a value, and the counter after the call is exactly what that gives
            predicted = handed + 1 if handed is not None and handed > 0 else tb
            return "KF-C19-a" if failure.get("observed") == [["tabindex", I(predicted)]] else None
        obs = failure.get("observed") or {}
        if dict((k, v) for k, v in obs.get("attrs", [])) == attrs and obs.get("text") == text and obs.get("tag") == tag:
            return "KF-C19-a"
        return None

    # ------------------------------------------------------------------ coverage
    def nontrivial(self, case, obs):
        if obs.get("init_err"):
            return True
        depth = 0
        for op, st in zip(case["ops"], obs["steps"]):
            if st["err"]:
                return True
            if op["op"] == "begin":
                depth += 1
            elif op["op"] == "end":
                depth -= 1
            elif op["op"] == "tag" and (depth >= 1 or any(k in OPTION_KEYS for k, _ in op["kwargs"])):
                return True
        return False

    def tags(self, case, obs):
        t = ["ops=%d" % min(len(case["ops"]), 12), "init_err=%s" % obs.get("init_err")]
        depth = maxd = 0
        for op, st in zip(case["ops"], obs["steps"]):
            t.append("op=%s" % op["op"])
            if st["err"]:
                t.append("err=%s:%s" % (op["op"], st["err"]))
            if op["op"] == "begin" and not st["err"]:
                depth += 1
                maxd = max(maxd, depth)
            if op["op"] == "end" and not st["err"]:
                depth -= 1
            if op["op"] == "tag":
                t.append("tag=%s" % op["tag"].lower())
                for k, v in op["kwargs"]:
                    if k in OPTION_KEYS:
                        t.append("tagopt=%s" % {True: "on", False: "off", None: "auto"}[trool(v)])
                    if k in PRE_ATTRS:
                        t.append("pre=%s" % k)
        t.append("maxdepth=%d" % maxd)
        # how often the hypotheses of the resolution theorem hold: per (tag call, option) pair, summarised per case
        levels = [dict((k, v) for k, v in case["init"]["settings"])]
        pairs = holds = two = two_holds = unvalued = 0
        if not obs.get("init_err"):
            for op, st in zip(case["ops"], obs["steps"]):
                if st["err"]:
                    continue
                kind = op["op"]
                if kind == "begin":
                    levels.insert(0, {})
                if kind in ("begin", "set", "setitem", "update"):
                    for k, v in settings_of(op):
                        levels[0][k] = v
                elif kind == "end" and len(levels) > 1:
                    levels.pop(0)
                elif kind == "tag" and op.get("how", "call") != "close":
                    for option in FIVE:
                        ok, valued = no_shadowing_auto(option, levels)
                        n = sum(1 for lv in levels if option in lv)
                        pairs += 1
                        holds += ok
                        unvalued += not valued
                        if n >= 2:
                            two += 1
                            two_holds += ok
        t += self._filter_tags(case, obs)
        if pairs:
            t.append("noShadowingAuto=%s" % ("all" if holds == pairs else "some-fail"))
            t.append("two-level-decision=%s" % ("none" if not two else ("holds" if two_holds == two else "some-fail")))
            if unvalued:
                t.append("troolValued=fails")
        if obs.get("open"):
            t.append("left-open")
        return sorted(set(t))

    def _filter_tags(self, case, obs):
        """coverage of the filter stage: per tag call that rendered, how many filters ran / were gated away, whether
        filters were set but the toggle off, at which kind of level the list in force was given, what they did"""
        t = []
        if obs.get("init_err"):
            return t
        env = Env(case)
        levels = [dict((k, v) for k, v in case["init"]["settings"])]
        src = [dict((k, "init") for k, _ in case["init"]["settings"])]
        for op, st in zip(case["ops"], obs["steps"]):
            kind = op["op"]
            if kind == "tag":
                if st["err"]:
                    if bad_filters_value(op, levels, shadow_resolve):
                        t.append("filters=bad-value:%s" % st["err"])
                    continue
                if op.get("how", "call") == "close":
                    continue
                fv = lookup(levels, "filters", NO_FILTERS)
                if fv["t"] != "o" or fv["v"] == "()":
                    continue
                info = {}
                try:
                    expected_tag(op, levels, shadow_resolve, 0, env, info)
                except Exception:  # noqa
                    continue
                if info.get("off"):
                    t.append("filters=set-but-toggle-off")
                if "ran" in info:
                    t.append("filters-ran=%d" % len(info["ran"]))
                    if len(info["ran"]) < info["n"]:
                        t.append("filters=gated-by-tags")
                    if len(info["ran"]) >= 2:
                        t.append("filters=chain>=2")
                    if any(k in OPTION_KEYS for k in info["wrote"]):
                        t.append("filters=writes-option-name")
                    for i in info["ran"]:
                        t.append("filter-act=%s" % env.descr[fv["v"]][i]["act"]["kind"])
                    t.append("filters-level=%s" % lookup(src, "filters", "default"))
                    kw = [k.rstrip("_") for k, _ in op["kwargs"]]
                    t.append("filter-toggle-from=%s" % ("tag" if "auto_filter" in kw else lookup(src, "auto_filter", "default")))
                continue
            if st["err"]:
                continue
            if kind == "begin":
                levels.insert(0, {})
                src.insert(0, {})
            if kind in ("begin", "set", "setitem", "update"):
                for k, v in settings_of(op):
                    levels[0][k] = v
                    src[0][k] = kind
            elif kind == "end" and len(levels) > 1:
                levels.pop(0)
                src.pop(0)
        return t

    # ------------------------------------------------------------------ shrinking
    def shrink_candidates(self, case):
        ops = case["ops"]
        extra = {"filters": case["filters"]} if case.get("filters") else {}
        for i in range(len(ops)):
            yield dict(extra, init=case["init"], ops=ops[:i] + ops[i + 1:])
        for j, (name, fs) in enumerate(case.get("filters", [])):
            for i in range(len(fs)):
                c = copy.deepcopy(case)
                del c["filters"][j][1][i]
                yield c
            for i, d in enumerate(fs):
                for fld in ("sets", "dels"):
                    for q in range(len(d[fld])):
                        c = copy.deepcopy(case)
                        del c["filters"][j][1][i][fld][q]
                        yield c
                if d["tags"] is not None:
                    c = copy.deepcopy(case)
                    c["filters"][j][1][i]["tags"] = None
                    yield c
        if case["init"]["settings"]:
            for i in range(len(case["init"]["settings"])):
                c = copy.deepcopy(case)
                del c["init"]["settings"][i]
                yield c
        for i, op in enumerate(ops):
            for fld in ("settings", "kwargs"):
                if op.get(fld):
                    for j in range(len(op[fld])):
                        c = copy.deepcopy(case)
                        del c["ops"][i][fld][j]
                        yield c
            if op["op"] == "tag" and op["bind"] is not None:
                c = copy.deepcopy(case)
                c["ops"][i]["bind"] = None
                yield c
        if case["init"]["markup"] != "xhtml":
            c = copy.deepcopy(case)
            c["init"]["markup"] = "xhtml"
            yield c


PROP = C19()
