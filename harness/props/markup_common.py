"""Shared by the markup properties C11 / C19 / C12: value encoding, bind construction on the real
library, hostile string pools, html.parser event capture."""
from html.parser import HTMLParser

HOSTILE_CHARS = ['"', "'", "<", ">", "&", ";", "#", "\n", "\r", "\t", "\0", " ", "=", "/", "\\", "%", "_",
                 "a", "b", "Z", "1", "0", "-", ":", ".", "é", "İ", "K", "\U0001f600", " ", "\x0c", "\xa0"]
HOSTILE_TOKENS = ["</textarea>", "<!--", "-->", "]]>", "&lt", "&amp;", "&quot;", "&#10;", "&#x3c;", "<script>", "</",
                  "\" onclick=\"x", "' x='", "><", "&", "&&", "&#", "&;", "%s", "%%", "javascript:", "<![CDATA[",
                  "\"/>", " />", "=\"", "&gt", "&apos;", "&#0;", "&#13;", "\r\n"]
BENIGN = ["", "a", "x", "abc", "hello world", "1", "0", "on", "yes", "checked", "text", "v1", "A-b_c:d.e"]


def hostile(rng, maxlen=8):
    """a string over the hostile alphabet (often short, sometimes empty)"""
    r = rng.random()
    if r < 0.15:
        return rng.choice(BENIGN)
    n = rng.choice([0, 1, 1, 2, 2, 3, 4, 6, maxlen])
    parts = []
    for _ in range(n):
        parts.append(rng.choice(HOSTILE_TOKENS) if rng.random() < 0.3 else rng.choice(HOSTILE_CHARS))
    return "".join(parts)


# ------------------------------------------------------------------ line-safe output strings

_UNSAFE = {0x85, 0x2028, 0x2029, 0xE000}


def safe(s):
    """core splits the driver's output with str.splitlines(), which also splits at U+0085/U+2028/U+2029;
    Lean prints them raw.  Both sides therefore write them as U+E000 + hex + ';' in OUTPUT strings."""
    if s is None or not any(ord(c) in _UNSAFE for c in s):
        return s
    return "".join("\ue000%x;" % ord(c) if ord(c) in _UNSAFE else c for c in s)


# ------------------------------------------------------------------ value encoding

def S(s):
    return {"t": "s", "v": s}


def M(s):
    return {"t": "m", "v": s}


def B(b):
    return {"t": "b", "v": bool(b)}


MAYBE = {"t": "maybe"}


def I(n):
    return {"t": "i", "v": int(n)}


def to_py(v):
    from flatland.out.generic import Markup
    from flatland.util import Maybe
    t = v["t"]
    if t == "s":
        return v["v"]
    if t == "m":
        return Markup(v["v"])
    if t == "b":
        return bool(v["v"])
    if t == "maybe":
        return Maybe
    if t == "i":
        return int(v["v"])
    raise ValueError(t)


def from_py(x):
    """context values back to the case encoding (for generator[key] observations)"""
    from flatland.out.generic import Markup
    from flatland.util import Maybe
    if x is True or x is False:
        return B(x)
    if x is Maybe:
        return dict(MAYBE)
    if isinstance(x, int):
        return I(x)
    if isinstance(x, Markup):
        return M(safe(str(x)))
    if isinstance(x, str):
        return S(safe(x))
    if x is Markup:
        return {"t": "o", "v": "Markup"}
    if x == ():
        return {"t": "o", "v": "()"}
    return {"t": "?", "v": type(x).__name__}


def kwargs_of(pairs):
    return {k: to_py(v) for k, v in pairs}


# ------------------------------------------------------------------ binds

def array_u(members):
    return "[%s]" % ", ".join(repr(m if m is not None else "") for m in members)


def make_bind(b):
    """Build a real element for the bind description; asserts that it has exactly the
    flattened name / u / members the case (and hence the model) assumes."""
    import flatland
    if b is None:
        return None
    kind = b["kind"]
    if kind == "scalar":
        el = flatland.String.using(strip=False).named(b["name"])()
        el.set(b["u"])
    elif kind == "bool":
        el = flatland.Boolean.using(true=b["true"]).named(b["name"])()
        el.set(b["u"])
    elif kind == "array":
        el = flatland.Array.named(b["name"]).of(flatland.String.using(strip=b["strip"]))()
        el.set(list(b["members"]))
        assert [m.value for m in el] == list(b["members"]), "harness: array members differ"
    else:
        raise ValueError(kind)
    assert el.flattened_name() == b["name"], "harness: flattened_name differs from the case"
    assert el.u == b["u"], "harness: u differs from the case (%r vs %r)" % (el.u, b["u"])
    return el


# ------------------------------------------------------------------ html.parser

class Events(HTMLParser):
    def __init__(self):
        super().__init__(convert_charrefs=True)
        self.events = []

    def handle_starttag(self, tag, attrs):
        self.events.append(["start", tag, [list(a) for a in attrs]])

    def handle_startendtag(self, tag, attrs):
        self.events.append(["startend", tag, [list(a) for a in attrs]])

    def handle_endtag(self, tag):
        self.events.append(["end", tag])

    def handle_data(self, data):
        if self.events and self.events[-1][0] == "data":
            self.events[-1][1] += data
        else:
            self.events.append(["data", data])

    def handle_comment(self, data):
        self.events.append(["comment", data])

    def handle_decl(self, decl):
        self.events.append(["decl", decl])

    def handle_pi(self, data):
        self.events.append(["pi", data])

    def unknown_decl(self, data):
        self.events.append(["unknown_decl", data])


def parse_events(markup):
    p = Events()
    p.feed(markup)
    p.close()
    return p.events


def single_element(events, voids):
    """{"tag","attrs","text"} when the events are exactly one element (void or not), else None."""
    if not events:
        return None
    first = events[0]
    if first[0] == "startend" and len(events) == 1:
        return {"tag": first[1], "attrs": first[2], "text": ""}
    if first[0] != "start":
        return None
    if len(events) == 1:
        return {"tag": first[1], "attrs": first[2], "text": ""} if first[1] in voids else None
    if first[1] in voids:
        return None
    rest = events[1:]
    text = ""
    if rest and rest[0][0] == "data":
        text = rest[0][1]
        rest = rest[1:]
    if len(rest) == 1 and rest[0] == ["end", first[1]]:
        return {"tag": first[1], "attrs": first[2], "text": text}
    return None


# ------------------------------------------------------------------ Tag objects: fresh, held, open/close

PROP_TAGS = ("form", "input", "textarea", "button", "select", "option", "label")


class TagPool:
    """Renders through Tag OBJECTS the way templates do: `gen.<tag>(...)` on a fresh object, a held reference used for
    several renderings (`ta = gen.textarea; ta(a); ta(b)`), `open()` / `.contents` / `close()`.  An entry names its
    object by "handle" (None = fresh) and the method by "how" (call | open | close | openclose)."""

    def __init__(self, gen):
        self.gen = gen
        self.held = {}

    def tag_object(self, entry):
        tag, via = entry["tag"], entry.get("via", "prop")

        def fresh():
            if via == "prop" and tag in PROP_TAGS:
                return getattr(self.gen, tag)
            return self.gen.tag(tag)          # without bind/attributes: the Tag object
        h = entry.get("handle")
        if h is None:
            return fresh()
        if h not in self.held:
            self.held[h] = fresh()            # (if a tag of that name is open, the generator hands back that one)
        return self.held[h]

    def render(self, entry, bind, kwargs):
        """-> (markup, contents-after-open or None)"""
        t = self.tag_object(entry)
        how = entry.get("how", "call")
        if how == "call":
            return str(t(bind, **kwargs)), None
        if how == "open":
            o = str(t.open(bind, **kwargs))
            return o, str(t.contents)
        if how == "close":
            return str(t.close()), None
        if how == "openclose":
            o = str(t.open(bind, **kwargs))
            c = str(t.contents)
            return o + c + str(t.close()), None
        raise ValueError(how)
