"""C04 — set() reports one coherent outcome: return, value, u and signal agree."""
import copy
import datetime
import decimal
import unicodedata

from harness.core import Property
from harness.props import scalars_g6 as S

ZEROS = [c for c in range(0x110000) if unicodedata.category(chr(c)) == "Nd" and unicodedata.digit(chr(c)) == 0]
WS = [c for c in range(0x110000) if chr(c).isspace()]


# ---------------------------------------------------------------- kinds used by the generator

def K_string(strip=True):
    return {"k": "string", "strip": strip}


def K_int(signed=True, width=0, long=False):
    d = {"k": "integer", "signed": signed, "width": width}
    if long:
        d["long"] = True
    return d


def K_enum(child, vals):
    return {"k": "constrained", "enum": True, "child": child, "valid": {"v": "oneof", "vals": [S.py_to_nat(v) for v in vals]}}


def K_con(child, how, vals=()):
    v = {"v": how}
    if how == "oneof":
        v["vals"] = [S.py_to_nat(x) for x in vals]
    return {"k": "constrained", "child": child, "valid": v}


BOOL_CUSTOM = [
    {"k": "boolean", "true": "yes", "false": "no", "tsyn": ["y", "1", "on"], "fsyn": ["n", "0", ""]},
    {"k": "boolean", "true": "T", "false": "F", "tsyn": [], "fsyn": []},
    {"k": "boolean", "true": "1", "false": "", "tsyn": ["on", "x", " a "], "fsyn": ["off", "b", "None"]},
    # incoherent configurations (KF-C04-c): the false text is also recognised as true
    {"k": "boolean", "true": "1", "false": "", "tsyn": ["", "yes"], "fsyn": ["no"]},
    {"k": "boolean", "true": "x", "false": "x", "tsyn": [], "fsyn": []},
    {"k": "boolean", "true": "1", "false": "on", "tsyn": ["on", "true"], "fsyn": ["off"]},
]


def all_kinds():
    ks = [K_string(True), K_string(False), K_int(True), K_int(False), K_int(True, long=True), K_int(True, 4), K_int(False, 2),
          {"k": "float", "signed": True}, {"k": "float", "signed": False},
          {"k": "decimal", "signed": True}, {"k": "decimal", "signed": False},
          {"k": "boolean_default"}] + BOOL_CUSTOM
    for k in ("date", "time", "datetime"):
        ks += [{"k": k, "strip": True}, {"k": k, "strip": False}]
    ks += [
        K_enum(K_string(True), ["a", "b", ""]), K_enum(K_string(False), [" a ", "x"]), K_enum(K_string(True), ["a", None]),
        K_enum(K_int(True), [1, 2, True, 0]), K_enum(K_int(False), [7, 42]), K_enum({"k": "boolean_default"}, [True]),
        K_enum({"k": "boolean_default"}, [0, 1]), K_enum({"k": "date", "strip": True}, [datetime.date(2020, 1, 2), None]),
        K_enum({"k": "time", "strip": True}, [datetime.time(3, 4, 5)]), K_enum(K_string(True), []),
        K_con(K_string(True), "never"), K_con(K_int(True), "always"), K_con(K_string(True), "oneof", ["x", "1"]),
        K_con({"k": "datetime", "strip": True}, "always"), K_enum(K_enum(K_string(True), ["a", "b"]), ["a"]),
        K_con({"k": "float", "signed": True}, "always"), K_con({"k": "decimal", "signed": False}, "always"),
    ]
    return ks


KINDS = all_kinds()


def kind_tag(kind):
    k = kind["k"]
    if k == "constrained":
        return ("enum(" if kind.get("enum") else "constrained(") + kind_tag(kind["child"]) + ")"
    if k == "integer":
        return "integer%s%s" % ("" if kind["signed"] else "-unsigned", "-w%d" % kind["width"] if kind["width"] else "")
    if k in ("float", "decimal"):
        return k + ("" if kind["signed"] else "-unsigned")
    if k in ("string", "date", "time", "datetime"):
        return k + ("" if kind["strip"] else "-nostrip")
    return k


def appropriate_input(rng, kind):
    """An input that is mostly valid for the kind."""
    bk = S.base_kind(kind)["k"]
    r = rng.random()
    if bk == "string":
        return rng.choice(["a", "b", " a ", "x", "", "1", " padded text ", "a b", None, "\tq\n"])
    if bk == "integer":
        if r < 0.5:
            s = str(rng.choice([0, 1, 2, 7, 42, -5, 123456, -(10 ** 20), 2020]))
            if rng.random() < 0.3:
                s = S.translit(rng, s, ZEROS)
            if rng.random() < 0.3:
                s = rng.choice([" ", "\n", "　", ""]) + s + rng.choice([" ", "\t", ""])
            if rng.random() < 0.15:
                s = "+" + s if not s.strip().startswith("-") else s
            if rng.random() < 0.15 and len(s) > 2:
                s = s[:1] + "_" + s[1:]
            return s
        return rng.choice([0, 1, -1, 7, 42, True, False, 3.7, -2.25, decimal.Decimal("12.9"), None, 10 ** 30])
    if bk in ("float", "decimal"):
        if r < 0.6:
            return rng.choice(["0", "1.5", "-2.25", " 3 ", "1e3", "1E-3", "nan", "inf", "-inf", ".5", "1_0", "-0.0", "sNaN",
                               "12345678.123456789", "1e400", "1２.５", "0.0000004"])
        return rng.choice(S.FLOATS + [decimal.Decimal(d) for d in S.DECIMALS] + [0, 1, -3, True, None])
    if bk in ("boolean", "boolean_default"):
        k = S.base_kind(kind)
        pool = ["1", "", "on", "off", "true", "false", "True", "False", "0", True, False, None, 0, 1, 2, 0.0, "x"]
        if k["k"] == "boolean":
            pool += [k["true"], k["false"]] + k["tsyn"] + k["fsyn"]
        return rng.choice(pool)
    if bk == "date":
        if r < 0.6:
            d = datetime.date(rng.randint(1, 9999), rng.randint(1, 12), rng.randint(1, 28))
            s = d.isoformat()
        else:
            return rng.choice([t for t in S.TEMPORALS if isinstance(t, datetime.date)] + [None])
    elif bk == "time":
        if r < 0.6:
            s = "%02d:%02d:%02d" % (rng.randint(0, 23), rng.randint(0, 59), rng.randint(0, 59))
        else:
            return rng.choice([t for t in S.TEMPORALS if isinstance(t, datetime.time)] + [None])
    else:
        if r < 0.6:
            s = "%04d-%02d-%02d %02d:%02d:%02d" % (rng.randint(1, 9999), rng.randint(1, 12), rng.randint(1, 28),
                                                 rng.randint(0, 23), rng.randint(0, 59), rng.randint(0, 59))
        else:
            return rng.choice([t for t in S.TEMPORALS if isinstance(t, datetime.datetime)] + [None])
    rr = rng.random()
    if rr < 0.25:
        s = S.translit(rng, s, ZEROS)
    elif rr < 0.5:
        s = S.mutate_text(rng, s)
    elif rr < 0.6:
        s = rng.choice([" ", "\n", ""]) + s + rng.choice(["\n", " ", ""])
    return s


def scalar_case(kind, x):
    return {"mode": "scalar", "kind": kind, "x": S.py_to_nat(x), "conv": S.conv_entries(kind, x)}


# ---------------------------------------------------------------- running the real code

class _Recorder:
    """Receiver for element_set: (sender, adapted, value and u at the time of the signal)."""

    def __init__(self):
        self.events = []

    def __call__(self, sender, adapted=None, **kw):
        try:
            val = S.py_to_nat(sender.value, full=False) if not _is_container(sender) else None
            u = sender.u if not _is_container(sender) else None
        except Exception as e:  # noqa: BLE001
            val, u = {"t": "raised", "v": type(e).__name__}, None
        self.events.append((sender, adapted, val, u))


def _is_container(el):
    from flatland.schema.containers import Container
    from flatland.schema.scalars import Scalar
    return isinstance(el, Container) and not isinstance(el, Scalar)


def observe_set(el, x):
    from flatland.signals import element_set
    rec = _Recorder()
    with element_set.connected_to(rec):
        try:
            flag = el.set(x)
            exc = None
        except Exception as e:  # noqa: BLE001 - class name is the observation
            flag, exc = None, type(e).__name__
    return flag, exc, rec.events


def scalar_obs(el, x):
    flag, exc, events = observe_set(el, x)
    if exc:
        return {"exc": exc, "flag": None, "value": None, "u": None, "signals": None}, events
    own = [adapted for sender, adapted, _, _ in events if sender is el]
    return {"exc": None, "flag": flag, "value": S.out_nat(el.value), "u": S.cps(el.u), "signals": own,
            "_foreign_signals": sum(1 for e in events if e[0] is not el)}, events


def exact_kind(kind):
    """Kinds whose text form determines the value (the 'exactly-serialising types')."""
    return S.base_kind(kind)["k"] not in ("float", "decimal")


def bool_incoherent(kind):
    for k in S.kinds_inside(kind):
        if k["k"] == "boolean" and (k["false"] == k["true"] or k["false"] in k["tsyn"]):
            return True
    return False


def inexact_temporal(kind, x):
    bk = S.base_kind(kind)["k"]
    if bk == "date" and isinstance(x, datetime.datetime):
        return True
    if bk in ("time", "datetime") and isinstance(x, (datetime.time, datetime.datetime)) and x.microsecond:
        return True
    return False


class C04(Property):
    id = "C04"
    title = "set() reports one coherent outcome: return, value, u and signal agree"
    proof_module = "Proofs.C04"
    theorems = [
        "Flatland.C04.Proofs.set_coherent",
        "Flatland.C04.Proofs.set_flag",
        "Flatland.C04.Proofs.set_success",
        "Flatland.C04.Proofs.set_failure",
        "Flatland.C04.Proofs.set_signals",
        "Flatland.C04.Proofs.set_total_partial",
        "Flatland.C04.Proofs.set_total_text",
        "Flatland.C04.Proofs.C04_total_fails",
        "Flatland.C04.Proofs.reset_text_partial",
        "Flatland.C04.Proofs.reset_value_partial",
        "Flatland.C04.Proofs.C04_reset_u_fails",
        "Flatland.C04.Proofs.C04_reset_value_fails",
    ]
    generated_obligations = ["Flatland.C04.Proofs.pyTables_ok"]
    trusted_base = [
        "CPython str.strip, int(str), '%i'/'%0Ni', str(obj), re (three Temporal regexes), datetime.date/time validity are re-implemented "
        "as Lean functions over tables regenerated from the running interpreter (Unicode whitespace, Nd decades, int digit limit); "
        "fidelity is by correspondence",
        "float and decimal.Decimal are opaque: float()/Decimal(), '%f', comparison with zero, bool(), int() of such values are "
        "precomputed by the standard library and handed to the model as tokens/tables",
        "blinker dispatch modelled as appending to a log",
    ]
    assumptions = [
        "inputs are None, str, int, bool, float, Decimal, naive date/time/datetime, or an object with only str() and bool(); "
        "bytes, tz-aware times, subclasses with overridden dunder methods are outside the model",
        "a None value has text '' by documentation, so 'same .value after re-setting .u' is claimed for values other than None",
        "Enum/Constrained valid_values contain None/str/int/bool/date/time natives (Python == on them)",
    ]
    rule = "see generate()"
    quick_n = 20000
    thorough_n = 200000

    # ------------------------------------------------------------ cases

    def corpus(self):
        D = decimal.Decimal
        cases = [
            # fixed 168934b (property C04/C02): Decimal NaNs must not raise
            scalar_case({"k": "decimal", "signed": True}, "sNaN"),
            scalar_case({"k": "decimal", "signed": False}, "NaN"),
            scalar_case({"k": "decimal", "signed": False}, D("sNaN")),
            # open KF-C04-a: int beyond CPython's int->str digit limit
            scalar_case(K_int(True), 10 ** 5000),
            scalar_case(K_string(True), 10 ** 5000),
            scalar_case({"k": "date", "strip": True}, 10 ** 5000),
            # open KF-C04-b: native temporal values whose text form drops a part
            scalar_case({"k": "time", "strip": True}, datetime.time(1, 2, 3, 5)),
            scalar_case({"k": "date", "strip": True}, datetime.datetime(2020, 1, 2, 3, 4)),
            # open KF-C04-c: Boolean whose false text is also a true synonym
            scalar_case(BOOL_CUSTOM[3], False),
            scalar_case(BOOL_CUSTOM[5], None),
            # assorted pinned behaviours
            scalar_case({"k": "boolean_default"}, None),
            scalar_case(K_enum(K_string(True), ["a", "b"]), None),
            scalar_case(K_int(True), "1" * (S.MAXD + 1)),
            scalar_case({"k": "date", "strip": False}, "2020-01-02\n"),
        ]
        return cases

    def exhaustive(self, tier):
        # every Nd character as an Integer text and inside a date; every whitespace character around
        # String / Integer / Date texts
        for z in ZEROS:
            for i in range(10):
                yield scalar_case(K_int(True), chr(z + i))
            yield scalar_case({"k": "date", "strip": True}, "".join(chr(z + ord(c) - 48) if c.isdigit() else c for c in "2019-08-27"))
            yield scalar_case({"k": "time", "strip": False}, "".join(chr(z + ord(c) - 48) if c.isdigit() else c for c in "19:08:27"))
        for w in WS:
            yield scalar_case(K_string(True), chr(w) + "x" + chr(w))
            yield scalar_case(K_int(True), chr(w) + "1" + chr(w))
            yield scalar_case(K_int(True), "1" + chr(w) + "2")
            yield scalar_case({"k": "date", "strip": True}, chr(w) + "2020-01-02" + chr(w))
            yield scalar_case({"k": "date", "strip": False}, "2020-01-02" + chr(w))
        for kind in KINDS:
            for x in [None, "", True, False, 0, 1]:
                yield scalar_case(kind, x)

    exhaustive_note = ("all 680 Nd characters as Integer text, every Nd decade inside a Date and a Time text, all 29 whitespace "
                       "characters around String/Integer/Date texts, every kind configuration x {None, '', True, False, 0, 1}")

    def generate(self, rng, n, tier):
        for _ in range(n):
            kind = rng.choice(KINDS)
            if rng.random() < 0.6:
                x = appropriate_input(rng, kind)
            else:
                x = S.random_native(rng)
            yield scalar_case(kind, x)

    # ------------------------------------------------------------ implementation runner

    def run_impl(self, case):
        cls = S.kind_cls(case["kind"])
        x = S.nat_to_py(case["x"])
        el = cls()
        first, _ = scalar_obs(el, x)
        reset = None
        if first["exc"] is None and first["flag"]:
            el2 = cls()
            reset, _ = scalar_obs(el2, el.u)
        return {"set": first, "reset": reset}

    def compare(self, impl_obs, model_obs):
        # private keys inside nested observations are not compared
        def scrub(o):
            if isinstance(o, dict):
                return {k: scrub(v) for k, v in o.items() if not k.startswith("_")}
            return o
        return Property.compare(self, scrub(impl_obs), model_obs)

    # ------------------------------------------------------------ oracle

    def oracle(self, case):
        from flatland.exc import AdaptationError
        fails = []
        kind = case["kind"]
        cls = S.kind_cls(kind)
        x = S.nat_to_py(case["x"])
        el = cls()
        flag, exc, events = observe_set(el, x)
        if exc:
            fails.append({"clause": "set-raises", "expected": None, "observed": exc})
            return fails
        # returned flag <=> the input was adapted
        probe = cls()
        try:
            adapted_value = probe.adapt(x)
            adapted = True
        except AdaptationError:
            adapted, adapted_value = False, None
        if flag is not adapted:
            fails.append({"clause": "flag-iff-adapted", "expected": adapted, "observed": flag})
        if flag is True:
            if not _same(el.value, adapted_value):
                fails.append({"clause": "value-is-adapted", "expected": _show(adapted_value), "observed": _show(el.value)})
            want_u = "" if el.value is None else probe.serialize(el.value)
            if el.u != want_u or not isinstance(el.u, str):
                fails.append({"clause": "success-u-is-text-of-value", "expected": want_u, "observed": el.u})
        else:
            want_u = "" if x is None else (x if isinstance(x, str) else str(x))
            if el.value is not None:
                fails.append({"clause": "failure-value-none", "expected": None, "observed": _show(el.value)})
            if el.u != want_u:
                fails.append({"clause": "failure-u-is-input-text", "expected": want_u, "observed": el.u})
        # exactly one signal for this element, last, adapted == flag, sent after value/u are final
        own = [e for e in events if e[0] is el]
        if len(own) != 1 or events[-1][0] is not el:
            fails.append({"clause": "signal-exactly-once-last", "expected": 1, "observed": len(own)})
        else:
            _, adapted_sig, val_at, u_at = own[0]
            if adapted_sig is not flag:
                fails.append({"clause": "signal-adapted-is-flag", "expected": flag, "observed": adapted_sig})
            if val_at != S.py_to_nat(el.value, full=False) or u_at != el.u:
                fails.append({"clause": "signal-after-final", "expected": [_show(el.value), el.u], "observed": [val_at, u_at]})
        # re-setting the text
        if flag is True:
            el2 = cls()
            flag2, exc2, _ = observe_set(el2, el.u)
            if exc2:
                fails.append({"clause": "reset-raises", "expected": None, "observed": exc2})
            else:
                if el2.u != el.u:
                    fails.append({"clause": "reset-u", "expected": el.u, "observed": el2.u})
                if exact_kind(kind) and el.value is not None and not _same(el2.value, el.value):
                    fails.append({"clause": "reset-value", "expected": _show(el.value), "observed": _show(el2.value)})
        return fails

    def classify(self, case, failure):
        kind = case["kind"]
        x = S.nat_to_py(case["x"])
        clause = failure.get("clause")
        if clause == "set-raises" and failure.get("observed") == "ValueError":
            if isinstance(x, int) and not isinstance(x, bool) and abs(x) >= 10 ** S.MAXD:
                return "KF-C04-a"
        if clause == "reset-value" and inexact_temporal(kind, x):
            return "KF-C04-b"
        if clause in ("reset-u", "reset-value") and bool_incoherent(kind):
            return "KF-C04-c"
        return None

    # ------------------------------------------------------------ coverage, shrinking

    def nontrivial(self, case, obs):
        s = obs["set"]
        return s["exc"] is None and case["x"] is not None

    def tags(self, case, obs):
        s = obs["set"]
        x = case["x"]
        t = ["kind=" + kind_tag(case["kind"]), "input=" + ("none" if x is None else x["t"])]
        if s["exc"]:
            t.append("exc=" + s["exc"])
        else:
            t.append("flag=%s" % s["flag"])
            if s["flag"] and obs["reset"] is not None:
                t.append("reset-flag=%s" % obs["reset"]["flag"])
        if x is not None and x["t"] == "str":
            v = x["v"]
            if v != v.strip():
                t.append("text-padded")
            if any(ord(c) > 127 and c.isdigit() for c in v):
                t.append("text-unicode-digits")
            if "_" in v:
                t.append("text-underscore")
            if len(v) > 1000:
                t.append("text-huge")
        if x is not None and x["t"] == "int" and len(x["v"]) > 3000:
            t.append("int-huge")
        return t

    def shrink_candidates(self, case):
        x = case["x"]
        kind = case["kind"]
        if x is not None and x["t"] == "str":
            v = x["v"]
            for i in range(len(v)):
                yield scalar_case(kind, v[:i] + v[i + 1:])
            if len(v) > 8:
                yield scalar_case(kind, v[: len(v) // 2])
        if x is not None and x["t"] == "int":
            i = int(x["v"], 16)
            for j in (i // 10, i // 10 ** 100 if abs(i) > 10 ** 200 else 0, 0):
                if j != i:
                    yield scalar_case(kind, j)
        if kind["k"] == "constrained":
            yield scalar_case(kind["child"], S.nat_to_py(x))
        if kind["k"] == "boolean":
            for key in ("tsyn", "fsyn"):
                for i in range(len(kind[key])):
                    k2 = copy.deepcopy(kind)
                    del k2[key][i]
                    yield scalar_case(k2, S.nat_to_py(x))


def _same(a, b):
    """Equality of native values that distinguishes types and NaNs by identity of representation."""
    return S.py_to_nat(a, full=False) == S.py_to_nat(b, full=False)


def _show(v):
    return S.py_to_nat(v, full=False)


PROP = C04()
