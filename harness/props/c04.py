"""C04 — set() reports one coherent outcome: return, value, u and signal agree."""
import copy
import datetime
import re
import decimal
import unicodedata

from harness.core import Property
from harness.props import scalars_g6 as S

ZEROS = [c for c in range(0x110000) if unicodedata.category(chr(c)) == "Nd" and unicodedata.digit(chr(c)) == 0]
WS = [c for c in range(0x110000) if chr(c).isspace()]


# ---------------------------------------------------------------- kinds used by the generator

def K_string(strip=True):
    return {"k": "string", "strip": strip}


def K_int(signed=True, width=0, long=False):
    d = {"k": "integer", "signed": signed, "width": width}
    if long:
        d["long"] = True
    return d


def K_enum(child, vals):
    return {"k": "constrained", "enum": True, "child": child, "valid": {"v": "oneof", "vals": [S.py_to_nat(v) for v in vals]}}


def K_con(child, how, vals=()):
    v = {"v": how}
    if how == "oneof":
        v["vals"] = [S.py_to_nat(x) for x in vals]
    return {"k": "constrained", "child": child, "valid": v}


BOOL_CUSTOM = [
    {"k": "boolean", "true": "yes", "false": "no", "tsyn": ["y", "1", "on"], "fsyn": ["n", "0", ""]},
    {"k": "boolean", "true": "T", "false": "F", "tsyn": [], "fsyn": []},
    {"k": "boolean", "true": "1", "false": "", "tsyn": ["on", "x", " a "], "fsyn": ["off", "b", "None"]},
    # incoherent configurations (KF-C04-c): the false text is also recognised as true
    {"k": "boolean", "true": "1", "false": "", "tsyn": ["", "yes"], "fsyn": ["no"]},
    {"k": "boolean", "true": "x", "false": "x", "tsyn": [], "fsyn": []},
    {"k": "boolean", "true": "1", "false": "on", "tsyn": ["on", "true"], "fsyn": ["off"]},
]


def all_kinds():
    ks = [K_string(True), K_string(False), K_int(True), K_int(False), K_int(True, long=True), K_int(True, 4), K_int(False, 2),
          {"k": "float", "signed": True}, {"k": "float", "signed": False},
          {"k": "decimal", "signed": True}, {"k": "decimal", "signed": False},
          {"k": "boolean_default"}] + BOOL_CUSTOM
    for k in ("date", "time", "datetime"):
        ks += [{"k": k, "strip": True}, {"k": k, "strip": False}]
    ks += [
        K_enum(K_string(True), ["a", "b", ""]), K_enum(K_string(False), [" a ", "x"]), K_enum(K_string(True), ["a", None]),
        K_enum(K_int(True), [1, 2, True, 0]), K_enum(K_int(False), [7, 42]), K_enum({"k": "boolean_default"}, [True]),
        K_enum({"k": "boolean_default"}, [0, 1]), K_enum({"k": "date", "strip": True}, [datetime.date(2020, 1, 2), None]),
        K_enum({"k": "time", "strip": True}, [datetime.time(3, 4, 5)]), K_enum(K_string(True), []),
        K_con(K_string(True), "never"), K_con(K_int(True), "always"), K_con(K_string(True), "oneof", ["x", "1"]),
        K_con({"k": "datetime", "strip": True}, "always"), K_enum(K_enum(K_string(True), ["a", "b"]), ["a"]),
        K_con({"k": "float", "signed": True}, "always"), K_con({"k": "decimal", "signed": False}, "always"),
    ]
    return ks


KINDS = all_kinds()


def kind_tag(kind):
    k = kind["k"]
    if k == "constrained":
        return ("enum(" if kind.get("enum") else "constrained(") + kind_tag(kind["child"]) + ")"
    if k == "integer":
        return "integer%s%s" % ("" if kind["signed"] else "-unsigned", "-w%d" % kind["width"] if kind["width"] else "")
    if k in ("float", "decimal"):
        return k + ("" if kind["signed"] else "-unsigned")
    if k in ("string", "date", "time", "datetime"):
        return k + ("" if kind["strip"] else "-nostrip")
    return k


def appropriate_input(rng, kind):
    """An input that is mostly valid for the kind."""
    bk = S.base_kind(kind)["k"]
    r = rng.random()
    if bk == "string":
        return rng.choice(["a", "b", " a ", "x", "", "1", " padded text ", "a b", None, "\tq\n"])
    if bk == "integer":
        if r < 0.5:
            s = str(rng.choice([0, 1, 2, 7, 42, -5, 123456, -(10 ** 20), 2020]))
            if rng.random() < 0.3:
                s = S.translit(rng, s, ZEROS)
            if rng.random() < 0.3:
                s = rng.choice([" ", "\n", "　", ""]) + s + rng.choice([" ", "\t", ""])
            if rng.random() < 0.15:
                s = "+" + s if not s.strip().startswith("-") else s
            if rng.random() < 0.15 and len(s) > 2:
                s = s[:1] + "_" + s[1:]
            return s
        return rng.choice([0, 1, -1, 7, 42, True, False, 3.7, -2.25, decimal.Decimal("12.9"), None, 10 ** 30])
    if bk in ("float", "decimal"):
        if r < 0.6:
            return rng.choice(["0", "1.5", "-2.25", " 3 ", "1e3", "1E-3", "nan", "inf", "-inf", ".5", "1_0", "-0.0", "sNaN",
                               "12345678.123456789", "1e400", "1２.５", "0.0000004"])
        return rng.choice(S.FLOATS + [decimal.Decimal(d) for d in S.DECIMALS] + [0, 1, -3, True, None])
    if bk in ("boolean", "boolean_default"):
        k = S.base_kind(kind)
        pool = ["1", "", "on", "off", "true", "false", "True", "False", "0", True, False, None, 0, 1, 2, 0.0, "x"]
        if k["k"] == "boolean":
            pool += [k["true"], k["false"]] + k["tsyn"] + k["fsyn"]
        return rng.choice(pool)
    if bk == "date":
        if r < 0.6:
            d = datetime.date(rng.randint(1, 9999), rng.randint(1, 12), rng.randint(1, 28))
            s = d.isoformat()
        else:
            return rng.choice([t for t in S.TEMPORALS if isinstance(t, datetime.date)] + [None])
    elif bk == "time":
        if r < 0.6:
            s = "%02d:%02d:%02d" % (rng.randint(0, 23), rng.randint(0, 59), rng.randint(0, 59))
        else:
            return rng.choice([t for t in S.TEMPORALS if isinstance(t, datetime.time)] + [None])
    else:
        if r < 0.6:
            s = "%04d-%02d-%02d %02d:%02d:%02d" % (rng.randint(1, 9999), rng.randint(1, 12), rng.randint(1, 28),
                                                 rng.randint(0, 23), rng.randint(0, 59), rng.randint(0, 59))
        else:
            return rng.choice([t for t in S.TEMPORALS if isinstance(t, datetime.datetime)] + [None])
    rr = rng.random()
    if rr < 0.25:
        s = S.translit(rng, s, ZEROS)
    elif rr < 0.5:
        s = S.mutate_text(rng, s)
    elif rr < 0.6:
        s = rng.choice([" ", "\n", ""]) + s + rng.choice(["\n", " ", ""])
    return s


def scalar_case(kind, x, pre=None, with_pre=False):
    """`pre` (when with_pre): a set() performed on the same element before the observed one; the
    outcome of a set() must not depend on it."""
    c = {"mode": "scalar", "kind": kind, "x": S.py_to_nat(x)}
    if S.is_exotic(x):
        # a native of an unusual type: the Lean model (plain natives only) is given the plain native that the
        # kind's documented treatment cannot tell from x, if there is one (else: real code + oracle only)
        p = pick_projection(kind, x)
        if p is not _NOPROJ:
            c["proj"] = S.py_to_nat(p)
        c["conv"] = S.conv_entries(kind, p) if p is not _NOPROJ else []
    else:
        c["conv"] = S.conv_entries(kind, x)
    if with_pre:
        c["pre"] = S.py_to_nat(pre)
        c["has_pre"] = True
    return c


def fresh_scalar(case):
    cls = S.kind_cls(case["kind"])
    el = cls()
    if case.get("has_pre"):
        try:
            el.set(S.nat_to_py(case["pre"]))
        except Exception:  # noqa: BLE001
            el = cls()
    return cls, el


# ---------------------------------------------------------------- running the real code

class _Recorder:
    """Receiver for element_set: (sender, adapted, value and u at the time of the signal)."""

    def __init__(self):
        self.events = []

    def __call__(self, sender, adapted=None, **kw):
        try:
            val = S.py_to_nat(S.model_view(sender.value), full=False) if not _is_container(sender) else None
            u = sender.u if not _is_container(sender) else None
        except Exception as e:  # noqa: BLE001
            val, u = {"t": "raised", "v": type(e).__name__}, None
        self.events.append((sender, adapted, val, u))


def _is_container(el):
    from flatland.schema.containers import Container
    from flatland.schema.scalars import Scalar
    return isinstance(el, Container) and not isinstance(el, Scalar)


LAST_RAISE = {}


def is_huge(v):
    return isinstance(v, int) and not isinstance(v, bool) and abs(v) >= 10 ** S.MAXD


def diagnose(e):
    """Message of an exception that left set(), and whether the innermost Scalar.set() frame it
    passed through was holding an int beyond CPython's int->str limit (its `obj`: the input, or the
    adapted value)."""
    from flatland.schema.scalars import Scalar
    culprit, site = None, None
    tb = e.__traceback__
    while tb is not None:
        fr = tb.tb_frame
        me = fr.f_locals.get("self")
        if fr.f_code.co_name == "set" and isinstance(me, Scalar) and "obj" in fr.f_locals:
            culprit = fr.f_locals["obj"]
        if "flatland" in fr.f_code.co_filename and me is not None:
            # the innermost library frame: which method of which base type let the exception out
            owner = next((c.__name__ for c in type(me).__mro__ if fr.f_code.co_name in c.__dict__), type(me).__name__)
            site = "%s.%s" % (owner, fr.f_code.co_name)
        tb = tb.tb_next
    return {"message": str(e)[:60], "culprit_huge": is_huge(culprit), "site": site}


def observe_set(el, x):
    from flatland.signals import element_set
    rec = _Recorder()
    LAST_RAISE.clear()
    with element_set.connected_to(rec):
        try:
            flag = el.set(x)
            exc = None
        except Exception as e:  # noqa: BLE001 - class name is the observation
            flag, exc = None, type(e).__name__
            LAST_RAISE.update(diagnose(e))
    return flag, exc, rec.events


def scalar_obs(el, x, proj=None):
    """`proj` (JSON): the plain native standing for an exotic x in the model's input (shown as `raw`)."""
    flag, exc, events = observe_set(el, x)
    if exc:
        return {"exc": exc, "flag": None, "value": None, "u": None, "raw": None, "signals": None}, events
    def outform(val):
        if isinstance(val, dict) and val.get("t") in ("str", "other") and isinstance(val.get("v"), str):
            return dict(val, v=S.cps(val["v"]))
        return val
    own = [[adapted, {"v": outform(val), "u": None if u is None else S.cps(u)}] for sender, adapted, val, u in events if sender is el]
    raw = S.out_nat(S.nat_to_py(proj)) if (proj is not None and el.raw is x) else S.out_nat(S.model_view(el.raw))
    return {"exc": None, "flag": flag, "value": S.out_nat(S.model_view(el.value)), "u": S.cps(el.u), "raw": raw, "signals": own,
            "_foreign_signals": sum(1 for e in events if e[0] is not el)}, events


def exact_kind(kind):
    """Kinds whose text form determines the value (the 'exactly-serialising types')."""
    return S.base_kind(kind)["k"] not in ("float", "decimal")


def bool_incoherent(kind, x=None):
    """A Boolean whose false text reads back as true; or (for a None input, whose text is '') one
    for which '' is a synonym of a value whose text is not ''."""
    for k in S.kinds_inside(kind):
        if k["k"] != "boolean":
            continue
        if k["false"] == k["true"] or k["false"] in k["tsyn"]:
            return True
        if x is None:
            if ("" == k["true"] or "" in k["tsyn"]):
                if k["true"] != "":
                    return True
            elif ("" == k["false"] or "" in k["fsyn"]) and k["false"] != "":
                return True
    return False


BOOL_DEFAULT = {"k": "boolean", "true": "1", "false": "", "tsyn": ["on", "true", "True", "1"],
                "fsyn": ["off", "false", "False", "0", ""]}


def sim_set_text(kind, text):
    """(flag, value, u) that String / Boolean kinds (and Enum/Constrained over them) give for
    set(text), computed from the kind description alone; None for other kinds."""
    k = kind["k"]
    if k == "boolean_default":
        return sim_set_text(BOOL_DEFAULT, text)
    if k == "string":
        v = text.strip() if kind["strip"] else text
        return True, v, v
    if k == "boolean":
        if text == kind["true"] or text in kind["tsyn"]:
            return True, True, kind["true"]
        if text == kind["false"] or text in kind["fsyn"]:
            return True, False, kind["false"]
        return False, None, text
    if k == "constrained":
        r = sim_set_text(kind["child"], text)
        if r is None or not r[0]:
            return r
        valid = kind["valid"]
        ok = {"never": False, "always": True}.get(valid["v"])
        if ok is None:
            ok = r[1] in tuple(S.nat_to_py(v) for v in valid["vals"])
        return r if ok else (False, None, text)
    return None


def truncated_temporal(kind, x):
    """KF-C04-b: the value the text form of an inexact native temporal input reads back as."""
    bk = S.base_kind(kind)["k"]
    if bk == "date" and isinstance(x, datetime.datetime):
        return datetime.date(x.year, x.month, x.day)
    if bk == "time" and isinstance(x, datetime.time) and (x.microsecond or x.tzinfo is not None):
        return x.replace(microsecond=0, tzinfo=None)      # the text form has neither microseconds nor an offset
    if bk == "datetime" and isinstance(x, datetime.datetime) and x.microsecond:
        return x.replace(microsecond=0)
    return None


def inexact_temporal(kind, x):
    bk = S.base_kind(kind)["k"]
    if bk == "date" and isinstance(x, datetime.datetime):
        return True
    if bk in ("time", "datetime") and isinstance(x, (datetime.time, datetime.datetime)) and (x.microsecond or x.tzinfo is not None):
        return True
    return False




# ---------------------------------------------------------------- reference outcome from the kind description
# (documentation of each type + the Python standard library; none of flatland's adapt/serialize)

class _Unadaptable(Exception):
    pass


class _Undetermined(Exception):
    """The documentation of the kind does not say what happens to this input: nothing is asserted about the
    flag / value / text of such a set() (the coherence clauses - never raises, signal, re-set - still are)."""


_NOPROJ = object()


def _content(x):
    """The characters of a text (also of an instance of a str subclass, whatever its __str__ shows)."""
    return str.__str__(x)


def _textlike(x):
    """Text-like objects that are not `str` instances: the documentation of Boolean ('if value is text') and
    Temporal ('if a string') does not say whether they count as text."""
    import collections
    return type(x) in (collections.UserString, bytes, bytearray)


def pick_projection(kind, x):
    try:
        want = ref_set(kind, x)
    except (_Undetermined, ValueError):
        return _NOPROJ
    for p in S.projections(kind, x):
        try:
            got = ref_set(kind, p)
        except (_Undetermined, ValueError):
            continue
        if got[0] is want[0] and _same(S.model_view(got[1]), S.model_view(want[1])) and _content(got[2]) == _content(want[2]):
            return p
    return _NOPROJ


_TEMPORAL = {
    "date": (datetime.date, re.compile(r"(\d{4})-(\d{2})-(\d{2})\n?\Z"), "%04i-%02i-%02i",
             lambda v: (v.year, v.month, v.day)),
    "time": (datetime.time, re.compile(r"(\d{2}):(\d{2}):(\d{2})\n?\Z"), "%02i:%02i:%02i",
             lambda v: (v.hour, v.minute, v.second)),
    "datetime": (datetime.datetime, re.compile(r"(\d{4})-(\d{2})-(\d{2}) (\d{2}):(\d{2}):(\d{2})\n?\Z"),
                 "%04i-%02i-%02i %02i:%02i:%02i", lambda v: (v.year, v.month, v.day, v.hour, v.minute, v.second)),
}


def ref_adapt(kind, x):
    k = kind["k"]
    if k == "boolean_default":
        return ref_adapt(BOOL_DEFAULT, x)
    if k == "constrained":
        v = ref_adapt(kind["child"], x)
        valid = kind["valid"]
        ok = {"never": False, "always": True}.get(valid["v"])
        if ok is None:
            ok = v in tuple(S.nat_to_py(w) for w in valid["vals"])
        if not ok:
            raise _Unadaptable()
        return v
    if x is None:
        return None
    if k == "string":
        # "coerced with str() and stripped if strip"; a str instance (of whatever subclass) is text already
        t = _content(x) if isinstance(x, str) else str(x)
        return t.strip() if kind["strip"] else t
    if k in ("integer", "float", "decimal"):
        # "attempt to convert value using type_": an instance of type_ (exactly), or unadaptable
        ty = {"integer": int, "float": float, "decimal": decimal.Decimal}[k]
        if isinstance(x, str):
            x = _content(x).strip()
        try:
            v = ty(x)
        except (ValueError, TypeError, ArithmeticError):
            raise _Unadaptable()
        if not kind["signed"]:
            try:
                neg = v < ty()
            except ArithmeticError:
                raise _Unadaptable()
            if neg:
                raise _Unadaptable()
        return v
    if k == "boolean":
        if _textlike(x):
            raise _Undetermined()
        if not isinstance(x, str):
            return bool(x)
        x = _content(x)
        if x == kind["true"] or x in kind["tsyn"]:
            return True
        if x == kind["false"] or x in kind["fsyn"]:
            return False
        raise _Unadaptable()
    ty, rx, _, _ = _TEMPORAL[k]
    if isinstance(x, ty):
        return x                 # "if value is an instance of type_, returns it unchanged" (subclass instances too)
    if type(x) in (bytes, bytearray):
        raise _Unadaptable()     # not a string, not a type_: unadaptable (repair 6d1d953 of KF-C04-e; bytes raised TypeError before)
    if _textlike(x):
        raise _Undetermined()
    if isinstance(x, str):
        t = _content(x).strip() if kind["strip"] else _content(x)
        m = rx.match(t)
        if not m:
            raise _Unadaptable()
        try:
            return ty(*[int(g) for g in m.groups()])
        except (TypeError, ValueError):
            raise _Unadaptable()
    raise _Unadaptable()


def ref_serialize(kind, v):
    k = kind["k"]
    if k == "boolean_default":
        return ref_serialize(BOOL_DEFAULT, v)
    if k == "constrained":
        return ref_serialize(kind["child"], v)
    if k == "string":
        t = _content(v) if isinstance(v, str) else str(v)
        return t.strip() if kind["strip"] else t
    if k in ("integer", "float", "decimal"):
        ty = {"integer": int, "float": float, "decimal": decimal.Decimal}[k]
        fmt = ("%%0%di" % kind["width"] if kind.get("width") else "%i") if k == "integer" else "%f"
        if type(v) is ty:
            try:
                return fmt % v
            except (ValueError, ArithmeticError):
                pass            # a value the format cannot represent (NaN, sNaN, infinity): str()
        return str(v)
    if k == "boolean":
        return kind["true"] if v else kind["false"]
    ty, _, fmt, parts = _TEMPORAL[k]
    return fmt % parts(v) if isinstance(v, ty) else str(v)


def ref_set(kind, x):
    """(flag, value, u) documented for set(x).  May raise ValueError for ints beyond CPython's
    int->str limit (the caller skips the comparison then)."""
    try:
        v = ref_adapt(kind, x)
    except _Unadaptable:
        return False, None, ("" if x is None else _content(x) if isinstance(x, str) else str(x))
    return True, v, ("" if v is None else ref_serialize(kind, v))


def temporal_text(v):
    if isinstance(v, datetime.datetime):
        return "%04d-%02d-%02d %02d:%02d:%02d" % (v.year, v.month, v.day, v.hour, v.minute, v.second)
    if isinstance(v, datetime.date):
        return "%04d-%02d-%02d" % (v.year, v.month, v.day)
    return "%02d:%02d:%02d" % (v.hour, v.minute, v.second)


def opaque_stable_on(entries):
    """The hypothesis OpaqueStable of reset_text_all_partial for the environment of this case (the
    table of recorded float()/Decimal() results), computed on the Python side: for every kind of
    conversion recorded, the empty text is recorded and does not convert, and the text of every
    recorded result is recorded and converts to nothing or to a value with the same text."""
    def text(t):
        return t["fmt"] if t["fmt"] is not None else t["str"]

    def find(dec, key):
        for e in entries:
            if e["dec"] == dec and e["key"] == key:
                return e
        return None
    for dec in {e["dec"] for e in entries}:
        e0 = find(dec, S.py_to_nat(""))
        if e0 is None or e0["tok"] is not None:
            return False
    for e in entries:
        if e["tok"] is None:
            continue
        e2 = find(e["dec"], S.py_to_nat(text(e["tok"]).strip()))
        if e2 is None or (e2["tok"] is not None and text(e2["tok"]) != text(e["tok"])):
            return False
    return True


# ---------------------------------------------------------------- containers (signals clause)

def build_schema(sch):
    import flatland
    t = sch["s"]
    if t == "scalar":
        return S.kind_cls(sch["kind"])
    if t == "seq":
        base = flatland.Array if sch.get("as") == "array" else flatland.List
        return base.of(build_schema(sch["member"]))
    if t == "dict":
        fields = [build_schema(f).named(n) for n, f in sch["fields"]]
        return flatland.Dict.of(*fields).using(policy=sch["policy"])
    if t == "date":
        return flatland.DateYYYYMMDD
    if t == "joined":
        return flatland.JoinedString.using(separator=sch["sep"], prune_empty=sch["prune"],
                                           member_schema=S.kind_cls(sch["member"]))
    raise AssertionError(t)


def input_to_py(inp):
    t = inp["i"]
    if t == "leaf":
        return S.nat_to_py(inp["v"])
    if t == "list":
        return [input_to_py(x) for x in inp["v"]]
    return {S.nat_to_py(k): input_to_py(v) for k, v in inp["v"]}


def leaf(v):
    return {"i": "leaf", "v": S.py_to_nat(v)}


def children_of(el, sch):
    t = sch["s"]
    if t == "seq":
        return [(m, sch["member"]) for m in el]
    if t == "dict":
        return [(el[n], f) for n, f in sch["fields"]]
    if t == "date":
        k = {"s": "scalar", "kind": K_int(True)}
        return [(el["year"], k), (el["month"], k), (el["day"], k)]
    if t == "joined":
        k = {"s": "scalar", "kind": sch["member"]}
        return [(m, k) for m in el]
    return []


def index_tree(el, sch, path, out):
    out[id(el)] = path
    for i, (c, cs) in enumerate(children_of(el, sch)):
        index_tree(c, cs, path + [i], out)


def canon_any(el):
    """Canonical state of any element, without a schema description (used inside signal handlers)."""
    from flatland.schema.compound import Compound, JoinedString
    from flatland.schema.containers import Mapping, Sequence
    leafstate = lambda c: {"v": S.out_nat(c.value), "u": S.cps(c.u)}
    if isinstance(el, JoinedString):
        return {"joined": [leafstate(c) for c in el]}
    if isinstance(el, Compound):
        return {"date": [leafstate(c) for c in el.values()]}
    if isinstance(el, Sequence):
        return {"seq": [canon_any(c) for c in el]}
    if isinstance(el, Mapping):
        return {"dict": [canon_any(c) for c in el.values()]}
    return leafstate(el)


def tree_canon(el, sch):
    t = sch["s"]
    if t == "scalar":
        return {"v": S.out_nat(el.value), "u": S.cps(el.u)}
    kids = children_of(el, sch)
    if t in ("date", "joined"):
        return {t: [{"v": S.out_nat(c.value), "u": S.cps(c.u)} for c, _ in kids]}
    return {t: [tree_canon(c, cs) for c, cs in kids]}


def schema_kinds(sch, out):
    t = sch["s"]
    if t == "scalar":
        out.append(sch["kind"])
    elif t == "seq":
        schema_kinds(sch["member"], out)
    elif t == "dict":
        for _, f in sch["fields"]:
            schema_kinds(f, out)
    elif t == "joined":
        out.append(sch["member"])
    return out


def input_leaves(inp, out):
    if inp is None:
        return out
    t = inp["i"]
    if t == "leaf":
        out.append(S.nat_to_py(inp["v"]))
    elif t == "list":
        for x in inp["v"]:
            input_leaves(x, out)
    else:
        for k, v in inp["v"]:
            out.append(S.nat_to_py(k))
            input_leaves(v, out)
    return out


def tree_conv(sch, inputs):
    kinds = [k for k in schema_kinds(sch, []) if S.base_kind(k)["k"] in ("float", "decimal")]
    if not kinds:
        return []
    seps = set()

    def collect(s_):
        if s_["s"] == "joined":
            seps.add(s_["sep"])
        elif s_["s"] == "seq":
            collect(s_["member"])
        elif s_["s"] == "dict":
            for _, f in s_["fields"]:
                collect(f)
    collect(sch)
    leaves = []
    for inp in inputs:
        input_leaves(inp, leaves)
    values = []
    for v in leaves:
        values.append(v)
        if isinstance(v, str):
            values.extend(v)
            for sep in seps:
                values.extend(v.split(sep))
    out, seen = [], set()
    for k in kinds:
        for v in values:
            for e in S.conv_entries(k, v):
                ident = repr((e["dec"], e["key"]))
                if ident not in seen:
                    seen.add(ident)
                    out.append(e)
    return out


def _pairs_of(inp):
    """Mirror of the model's toPairs on the JSON input (None = not dict-like)."""
    if inp["i"] == "dict":
        return [(S.nat_to_py(k), v) for k, v in inp["v"]]
    if inp["i"] == "list":
        out = []
        for x in inp["v"]:
            if x["i"] == "list" and len(x["v"]) == 2 and x["v"][0]["i"] == "leaf":
                out.append((S.nat_to_py(x["v"][0]["v"]), x["v"][1]))
            elif x["i"] == "dict" and len(x["v"]) == 2:
                out.append((S.nat_to_py(x["v"][0][0]), {"i": "leaf", "v": x["v"][1][0]}))
            elif x["i"] == "leaf" and isinstance(S.nat_to_py(x["v"]), str) and len(S.nat_to_py(x["v"])) == 2:
                t = S.nat_to_py(x["v"])
                out.append((t[0], leaf(t[1])))
            elif x["i"] == "list" and len(x["v"]) == 2:
                return "unmodelled"      # unhashable / structured key
            else:
                return None
        return out
    if inp["i"] == "leaf" and S.nat_to_py(inp["v"]) == "":
        return []
    return None


def shape_ok(sch, inp):
    """Is this (schema, input) inside the container model?  Outside: structured values handed to a
    scalar (their str() is not modelled), a container child that is set twice (its first members
    are replaced, so their signals cannot be labelled by position)."""
    t = sch["s"]
    if t in ("scalar", "date"):
        return inp["i"] == "leaf"
    if t == "joined":
        if inp["i"] == "list":
            return all(x["i"] == "leaf" for x in inp["v"])
        return True
    if t == "seq":
        if inp["i"] == "list":
            return all(shape_ok(sch["member"], x) for x in inp["v"])
        if inp["i"] == "dict":
            return all(shape_ok(sch["member"], {"i": "leaf", "v": k}) for k, _ in inp["v"])
        v = S.nat_to_py(inp["v"])
        if isinstance(v, str):
            return all(shape_ok(sch["member"], leaf(c)) for c in v)
        return True
    pairs = _pairs_of(inp)
    if pairs is None:
        return True
    if pairs == "unmodelled":
        return False
    fields = dict((n, f) for n, f in sch["fields"])
    seen = set()
    for k, v in pairs:
        try:
            hash(k)
        except TypeError:
            return False
        if isinstance(k, str) and k in fields:
            if k in seen and fields[k]["s"] not in ("scalar", "date"):
                return False
            seen.add(k)
            if not shape_ok(fields[k], v):
                return False
    return True


def expects_keyerror(sch, inp):
    """Does some Dict with the subset policy receive, in a set() that is actually reached, a key that
    is not one of its fields?  (Mirrors the documented policy, not the code.)"""
    t = sch["s"]
    if t == "seq":
        if inp["i"] == "list":
            return any(expects_keyerror(sch["member"], x) for x in inp["v"])
        return False
    if t != "dict":
        return False
    pairs = _pairs_of(inp)
    if pairs is None or pairs == "unmodelled":
        return False
    fields = dict((n, f) for n, f in sch["fields"])
    if sch["policy"] == "subset" and any(not (isinstance(k, str) and k in fields) for k, _ in pairs):
        return True
    return any(isinstance(k, str) and k in fields and expects_keyerror(fields[k], v) for k, v in pairs)


def _iter_items(inp):
    if inp["i"] == "list":
        return inp["v"]
    if inp["i"] == "dict":
        return [{"i": "leaf", "v": k} for k, _ in inp["v"]]
    v = S.nat_to_py(inp["v"])
    if isinstance(v, str):
        return [leaf(c) for c in v]
    return None


def expected_calls(sch, inp, path, out):
    """How many times set() is called on each element below a List/Array/Dict for this input: once per
    item of a sequence, once per pair that names a field.  Returns False when that cannot be told
    from the input (a container member named twice is rebuilt, its first members leave the tree).
    Members of JoinedString / DateYYYYMMDD are judged by the caller (pruning / the None branch)."""
    out[tuple(path)] = out.get(tuple(path), 0) + 1
    t = sch["s"]
    if t == "seq":
        items = _iter_items(inp)
        if items is None:
            return True
        return all(expected_calls(sch["member"], x, path + [i], out) for i, x in enumerate(items))
    if t == "dict":
        pairs = _pairs_of(inp)
        if pairs is None:
            return True
        if pairs == "unmodelled":
            return False
        names = [n for n, _ in sch["fields"]]
        fields = dict(sch["fields"])
        seen = set()
        for k, v in pairs:
            try:
                hash(k)
            except TypeError:
                return False
            if isinstance(k, str) and k in fields:
                if k in seen and fields[k]["s"] not in ("scalar", "date"):
                    return False
                seen.add(k)
                if not expected_calls(fields[k], v, path + [names.index(k)], out):
                    return False
        return True
    return True


def tree_case(sch, x, pre=None):
    return {"mode": "tree", "schema": sch, "x": x, "pre": pre, "conv": tree_conv(sch, [x, pre])}


def run_tree(case):
    from flatland.signals import element_set
    sch = case["schema"]
    cls = build_schema(sch)
    el = cls()
    if case.get("pre") is not None:
        try:
            el.set(input_to_py(case["pre"]))
        except Exception:  # noqa: BLE001
            el = cls()
    events = []

    def receiver(sender, adapted=None, **kw):
        # what a listener can read from the sender inside the handler
        try:
            snap = canon_any(sender)
        except Exception as e:  # noqa: BLE001
            snap = {"raised": type(e).__name__}
        events.append((sender, adapted, snap))
    LAST_RAISE.clear()
    with element_set.connected_to(receiver):
        try:
            flag = el.set(input_to_py(case["x"]))
            exc = None
        except Exception as e:  # noqa: BLE001
            flag, exc = None, type(e).__name__
            LAST_RAISE.update(diagnose(e))
    return el, flag, exc, events


def tree_obs(case):
    sch = case["schema"]
    el, flag, exc, events = run_tree(case)
    if exc:
        return {"exc": exc, "flag": None, "sigs": None, "tree": None}
    paths = {}
    index_tree(el, sch, [], paths)
    # a sender that is not part of the final tree (a JoinedString piece that was pruned) has no path
    sigs = [[paths.get(id(sender)), adapted, snap] for sender, adapted, snap in events]
    return {"exc": None, "flag": flag, "sigs": sigs, "tree": tree_canon(el, sch)}


def has_huge_int(case):
    vals = []
    if case["mode"] == "scalar":
        vals = [S.nat_to_py(case["x"])]
    else:
        input_leaves(case["x"], vals)
        input_leaves(case.get("pre"), vals)
    for v in vals:
        if isinstance(v, bool):
            continue
        if isinstance(v, int) and abs(v) >= 10 ** S.MAXD:
            return True
        if isinstance(v, (float, decimal.Decimal)):
            try:
                if abs(int(v)) >= 10 ** S.MAXD:
                    return True
            except (ValueError, OverflowError):
                pass
    return False


# random schemas / inputs
TREE_KINDS = [K_string(True), K_string(False), K_int(True), K_int(False), {"k": "boolean_default"},
              {"k": "date", "strip": True}, {"k": "float", "signed": True}, K_enum(K_string(True), ["a", "b"])]


def rand_schema(rng, depth, under_seq=False):
    r = rng.random()
    if depth <= 0 or r < 0.3:
        return {"s": "scalar", "kind": rng.choice(TREE_KINDS)}
    if r < 0.5:
        return {"s": "seq", "as": rng.choice(["list", "list", "array"]), "member": rand_schema(rng, depth - 1, True)}
    if r < 0.75:
        names = rng.sample(["a", "b", "c", "ab"], rng.randint(1, 3))
        return {"s": "dict", "policy": rng.choice(["subset", "subset", "duck"]),
                "fields": [[n, rand_schema(rng, depth - 1, under_seq)] for n in names]}
    if r < 0.85:
        return {"s": "date"}
    return {"s": "joined", "sep": rng.choice([",", ", ", "::", " "]), "prune": rng.random() < 0.6,
            "member": rng.choice([K_string(True), K_string(False), K_int(True), {"k": "boolean_default"}])}


def rand_input(rng, sch, hostile=0.15):
    t = sch["s"]
    if rng.random() < hostile:
        return rng.choice([
            leaf(None), leaf(5), leaf(""), leaf("ab"), leaf("abc"), leaf(True), {"i": "list", "v": []},
            {"i": "dict", "v": []}, {"i": "list", "v": [leaf("ab"), leaf("cd")]}, leaf(S.Other("obj", True)),
            {"i": "list", "v": [leaf(1), leaf("x")]}, {"i": "dict", "v": [[S.py_to_nat("a"), leaf("1")], [S.py_to_nat("zz"), leaf(2)]]},
            {"i": "list", "v": [{"i": "list", "v": [leaf("a"), leaf("1")]}, {"i": "list", "v": [leaf("a"), leaf("x")]}]},
            {"i": "dict", "v": [[S.py_to_nat(1), leaf("1")]]},
        ]) if t != "scalar" and t != "date" else leaf(S.random_native(rng))
    if t == "scalar":
        return leaf(appropriate_input(rng, sch["kind"]) if rng.random() < 0.7 else S.random_native(rng))
    if t == "seq":
        return {"i": "list", "v": [rand_input(rng, sch["member"], hostile) for _ in range(rng.choice([0, 1, 2, 2, 3]))]}
    if t == "dict":
        items = []
        for n, f in sch["fields"]:
            if rng.random() < 0.85:
                items.append((n, rand_input(rng, f, hostile)))
        if rng.random() < 0.12:
            items.append((rng.choice(["zz", "q"]), leaf("extra")))
        rng.shuffle(items)
        if rng.random() < 0.25:   # pair list, possibly with a duplicated key
            if items and rng.random() < 0.5:
                n, f = rng.choice(sch["fields"])
                items.append((n, rand_input(rng, f, hostile)))
            return {"i": "list", "v": [{"i": "list", "v": [leaf(k), v]} for k, v in items]}
        return {"i": "dict", "v": [[S.py_to_nat(k), v] for k, v in dict(items).items()]}
    if t == "date":
        return leaf(appropriate_input(rng, {"k": "date", "strip": True}) if rng.random() < 0.8 else S.random_native(rng))
    # joined
    sep = sch["sep"]
    parts = [rng.choice(["a", "b", "", " ", "1", "22", " x ", "on", sep, "a" + sep]) for _ in range(rng.choice([0, 1, 2, 3, 4]))]
    r = rng.random()
    if r < 0.6:
        return leaf(sep.join(parts))
    if r < 0.9:
        return {"i": "list", "v": [leaf(rng.choice([p, p, None, 0, 5, False])) for p in parts]}
    return leaf(rng.choice([None, 7, S.Other("x", True)]))


class C04(Property):
    id = "C04"
    title = "set() reports one coherent outcome: return, value, u and signal agree"
    proof_module = "Proofs.C04"
    theorems = [
        "Flatland.C04.Proofs.set_coherent",
        "Flatland.C04.Proofs.set_flag",
        "Flatland.C04.Proofs.set_success",
        "Flatland.C04.Proofs.set_failure",
        "Flatland.C04.Proofs.set_signals",
        "Flatland.C04.Proofs.set_total_partial",
        "Flatland.C04.Proofs.set_total_text",
        "Flatland.C04.Proofs.C04_total_fails",
        "Flatland.C04.Proofs.reset_text_partial",
        "Flatland.C04.Proofs.norm_idem",
        "Flatland.C04.Proofs.reset_text_all_partial",
        "Flatland.C04.Proofs.norm_idem_all",
        "Flatland.C04.Proofs.opaqueStableOn_sound",
        "Flatland.C04.Proofs.reset_value_partial",
        "Flatland.C04.Proofs.C04_reset_u_fails",
        "Flatland.C04.Proofs.C04_reset_value_fails",
        "Flatland.C04.Proofs.C04_reset_none_fails",
        "Flatland.C04.Proofs.signals_spec",
        "Flatland.C04.Proofs.signal_after_final",
        "Flatland.C04.Proofs.scalarSetTrace_eq",
        "Flatland.C04.Proofs.seq_flag",
        "Flatland.C04.Proofs.dict_flag",
        "Flatland.C04.Proofs.joined_flag",
    ]
    generated_obligations = ["Flatland.C04.Proofs.pyTables_ok"]
    level_text = "proof"
    level_note = ("BY CONSTRUCTION OF THE MODEL (case split over a model written branch by branch like the code; the refinement is the "
                  "correspondence): set_coherent / set_flag / set_success / set_failure / set_signals, signals_spec, seq_flag / dict_flag / "
                  "joined_flag. PROVED with content about the re-implemented CPython primitives (strip, int(), %0Ni, the Temporal recognisers, "
                  "date/time validity): set_total_partial (NoHuge; refuted in full by C04_total_fails = KF-C04-a), set_total_text, "
                  "reset_text_partial / reset_value_partial / norm_idem for String, Integer/Long (any width), Boolean, Date, Time, DateTime and "
                  "Enum/Constrained over them (hypotheses Coherent, CoherentNone, WidthOK, ExactInput, value != None; refuted in full by "
                  "C04_reset_u_fails = KF-C04-c, C04_reset_value_fails = KF-C04-b, C04_reset_none_fails = KF-C04-d). Float/Decimal: 'never "
                  "raises' is by correspondence; 'u stable under re-set' is reset_text_all_partial under OpaqueStable for the environment of the "
                  "case (the table of recorded float()/Decimal() results, closed under 'text of a result'): opaqueStableOn decides it on the "
                  "table (opaqueStableOn_sound), and both the model and the harness compute it for every case and are compared. CoherentNone "
                  "is required only when the value is None. The evidence tags hyp-* / hyps-reset_* count the cases inside each hypothesis")
    technique = "Lean 4 theorems about a hand-written model + regenerated Unicode/limit tables + differential correspondence + Python oracle"
    trusted_base = [
        "CPython str.strip, int(str), '%i'/'%0Ni', str(obj), re (three Temporal regexes), datetime.date/time validity are re-implemented "
        "as Lean functions over tables regenerated from the running interpreter (Unicode whitespace, Nd decades, int digit limit); "
        "fidelity is by correspondence",
        "float and decimal.Decimal are opaque: float()/Decimal(), '%f', comparison with zero, bool(), int() of such values are "
        "precomputed by the standard library and handed to the model as tokens/tables",
        "blinker dispatch modelled as appending to a log",
        "natives of unusual types (UserString, str / int / float / Decimal / date subclasses with their own __str__, IntEnum members, "
        "Fraction, aware time, bytes, bytearray): the Lean model holds plain natives only and is given, per case, a PROJECTION (case key "
        "`proj`): the plain native whose documented outcome for this kind (ref_set) equals that of the exotic input - its characters "
        "for a str subclass, int(x) / float(x) / the base-type value for numeric kinds, the plain date / naive time for temporal kinds, "
        "else an object seen only through str(x) and bool(x) (the model's `other`).  The subclass identity and a tzinfo of a STORED "
        "value / raw are not visible to the model (scalars_g6.model_view); the oracle sees and asserts them on the real objects.  Where no "
        "projection has the same documented outcome (evidence tag exotic-oracle-only, about 8% of the exotic cases: UserString / bytes / "
        "bytearray handed to Boolean kinds, UserString handed to Temporal kinds) the case runs through the real code and the "
        "oracle only",
    ]
    assumptions = [
        "inputs are None, str, int, bool, float, Decimal, naive date/time/datetime, an object with only str() and bool(), and (scalar cases; "
        "h15) natives of unusual but legitimate types: collections.UserString, a str subclass with its own __str__ and a class-keeping strip(), "
        "int / float / Decimal / date subclasses with their own __str__, IntEnum members, Fraction, datetime handed to a Date, time with tzinfo, "
        "bytes, bytearray; their texts padded with ASCII and non-ASCII whitespace.  Container (tree) cases keep to the plain natives",
        "what the reference asserts for them, from the documentation: String - 'coerced with str() and stripped if strip' (a str instance of "
        "any subclass is text already: its characters count, not its __str__; the CLASS of the stored text is not asserted); numbers - "
        "type_(value), an instance of type_ exactly, text by the format; Boolean - synonyms for str instances, bool(value) for non-text; "
        "temporals - an instance of type_ (subclass instances too) is returned unchanged, a str is parsed, anything else is unadaptable.  NOT "
        "determined by the documentation and NOT asserted (flag / value / text; 'never raises', raw, signal and re-set clauses still are): "
        "whether a UserString / bytes / bytearray counts as 'text' for Boolean ('if value is text') and whether a UserString does for "
        "Temporal ('if a string') - on HEAD they are non-text (Boolean: bool(x); Temporal: unadaptable)",
        "bytes / bytearray handed to Date / Time / DateTime (also under Enum / Constrained) are unadaptable: flag False, value None, text str(obj) "
        "as Scalar.set documents for a rejected non-text input; asserted, with the never-raises clause (KF-C04-e, TypeError from the text "
        "pattern, repaired in /repo 6d1d953; its witness is a corpus regression case).  JoinedString().set(b'a,b') still raises (not "
        "generated: tree cases have no bytes); Integer().set(b' 12 ') gives 12 as type_(value) does",
        "re-set clause 'the same .value': compared as values of the base type (a date subclass instance equals the plain date with the same "
        "fields); an aware time differs from the naive time its text reads back as (filed under KF-C04-b: the text drops the offset)",
        "a None value has text '' by documentation; the literal value clause for None is checked and fails for the kinds that adapt '' "
        "(recorded as KF-C04-d), the theorem reset_value_partial is for values other than None",
        "Enum/Constrained valid_values contain None/str/int/bool/date/time natives (Python == on them)",
    ]
    rule = ("70% scalar cases: one of {NK} kind configurations (String strip on/off; Integer/Long signed/unsigned, custom %04i/%02i widths; "
            "Float/Decimal signed/unsigned; Boolean default and 6 custom true/false/synonym tables incl. incoherent ones; Date/Time/DateTime "
            "strip on/off; Enum/Constrained over String/Integer/Boolean/Date/Time/DateTime/Float/Decimal children, nested Enum, never/always/"
            "membership predicates) x an input drawn 60% from a kind-appropriate mostly-valid pool (padded, transliterated to random Unicode Nd "
            "decades, '+'/underscore forms, mutated date/time texts) and 40% from the menagerie (None, {NT} texts incl. empty/whitespace/"
            "exponent/NaN/inf/underscore/full-width/4300- and 4301-digit strings, out-of-range dates, ints up to 10**5000, bools, 17 floats, 15 "
            "Decimals incl. sNaN and 1E+5000-class values, 12 native date/time/datetime values, objects with only str()/bool()); 15% of the scalar "
            "cases hand the kind a native of an unusual type (scalars_g6.random_exotic: 75% suiting the kind - text-likes UserString / object with "
            "__str__ / str subclass / bytes / bytearray whose text suits the kind, numeric subclasses / IntEnum / Fraction / bool for numbers and "
            "booleans, date subclass / datetime / aware time for temporals - 25% any; padded with ASCII and non-ASCII whitespace 77%); 30% of scalar "
            "cases first set() another value on the same element. 30% container cases: random schema of depth <= 3 over List/Array, Dict "
            "(subset/duck policy), DateYYYYMMDD, JoinedString (4 separators, prune on/off) and 8 scalar kinds, type-directed mostly-valid "
            "input plus 15% hostile shapes (non-iterables, strings, 2-character strings as pairs, pair lists with duplicate and unknown keys), "
            "30% with a preliminary set(). Every case: set(), observe return/value/u/signal log, and on success re-set the resulting .u on a "
            "fresh element. non-trivial = completed set() of a non-None input (scalar) / at least one child signal (container)"
            ).replace("{NK}", str(len(KINDS))).replace("{NT}", str(len(S.TEXTS)))
    quick_n = 40000
    thorough_n = 400000

    # ------------------------------------------------------------ cases

    def corpus(self):
        D = decimal.Decimal
        cases = [
            # fixed 168934b (property C04/C02): Decimal NaNs must not raise
            scalar_case({"k": "decimal", "signed": True}, "sNaN"),
            scalar_case({"k": "decimal", "signed": False}, "NaN"),
            scalar_case({"k": "decimal", "signed": False}, D("sNaN")),
            # open KF-C04-a: int beyond CPython's int->str digit limit
            scalar_case(K_int(True), 10 ** 5000),
            scalar_case(K_string(True), 10 ** 5000),
            scalar_case({"k": "date", "strip": True}, 10 ** 5000),
            # open KF-C04-b: native temporal values whose text form drops a part
            scalar_case({"k": "time", "strip": True}, datetime.time(1, 2, 3, 5)),
            scalar_case({"k": "date", "strip": True}, datetime.datetime(2020, 1, 2, 3, 4)),
            # open KF-C04-c: Boolean whose false text is also a true synonym
            scalar_case(BOOL_CUSTOM[3], False),
            scalar_case(BOOL_CUSTOM[5], None),
            # fixed adf6e9c (property C04/C03): Boolean.set(None) keeps the value None
            scalar_case({"k": "boolean_default"}, None),
            scalar_case(BOOL_CUSTOM[0], None),       # ... and then '' reads back as False/'no' (KF-C04-c class)
            # assorted pinned behaviours
            scalar_case(K_enum(K_string(True), ["a", "b"]), None),
            scalar_case(K_int(True), "1" * (S.MAXD + 1)),
            scalar_case({"k": "date", "strip": False}, "2020-01-02\n"),
            scalar_case(K_int(True), decimal.Decimal("1E+5000")),      # KF-C04-a through int(Decimal)
        ]
        import collections
        import fractions
        tz = datetime.timezone(datetime.timedelta(minutes=60))
        cases += [
            # seeded C03-string-adapt-nonstr-unstripped: text obtained through str() is stripped like any other text
            scalar_case(K_string(True), collections.UserString("  Biff  ")),
            scalar_case(K_string(True), S.Other("Hello, world\n", True)),
            scalar_case(K_enum(K_string(True), ["a", "b", ""]), collections.UserString(" a\u00a0")),
            scalar_case(K_string(True), S.TextSub("\u3000x ", "shown")),           # a str subclass is text: its characters count
            scalar_case(K_string(False), S.IntSub(5, " five ")),                   # str() of a number with its own __str__
            scalar_case(K_string(True), b" raw "),
            # seeded C04-number-adapt-isinstance-shortcut / C01-number-adapt-keeps-subclass / C04-number-adapt-keeps-bool:
            # a number is an instance of type_ EXACTLY (type_(value)), its text the format's
            scalar_case(K_int(True), True),
            scalar_case(K_int(True), S.IntSub(5, " five ")),
            scalar_case(K_int(True, 4), S.int_enum(7)),
            scalar_case(K_int(False), S.IntSub(-5, "-5")),
            scalar_case({"k": "float", "signed": True}, S.FloatSub(1.5, "one and a half")),
            scalar_case({"k": "decimal", "signed": True}, S.DecSub("1.50", " 1.5 ")),
            scalar_case({"k": "float", "signed": True}, fractions.Fraction(7, 2)),
            scalar_case(K_int(True), fractions.Fraction(-7, 2)),
            scalar_case({"k": "decimal", "signed": True}, fractions.Fraction(7, 2)),      # Decimal(Fraction): TypeError -> unadaptable
            scalar_case(K_int(True), collections.UserString(" 12 ")),
            scalar_case(K_int(True), b" 12 "),
            scalar_case({"k": "float", "signed": True}, bytearray(b"1.5\n")),
            scalar_case(K_enum(K_int(True), [1, 2, True, 0]), S.IntSub(2, "two")),
            # seeded C18-temporal-adapt-exact-type: instances of type_ (subclass instances too) are accepted as they are
            scalar_case({"k": "date", "strip": True}, S.DateSub(2020, 1, 2, " the day ")),
            scalar_case(K_enum({"k": "date", "strip": True}, [datetime.date(2020, 1, 2), None]), S.DateSub(2020, 1, 2, "x")),
            scalar_case({"k": "datetime", "strip": True}, S.DateSub(2020, 1, 2, "2020-01-02 00:00:00")),   # not a datetime
            scalar_case({"k": "time", "strip": True}, datetime.time(1, 2, 3, tzinfo=tz)),         # KF-C04-b: the offset is dropped
            scalar_case({"k": "date", "strip": True}, S.TextSub(" 2020-01-02 ", "garbage")),
            # text-likes that are no str: Boolean / Temporal documentation does not say (flag not asserted)
            scalar_case({"k": "boolean_default"}, collections.UserString("off")),
            scalar_case({"k": "date", "strip": True}, collections.UserString("2020-01-02")),
            scalar_case({"k": "boolean_default"}, S.TextSub("off", "on")),
            # fixed 6d1d953 (KF-C04-e): bytes handed to a Temporal raised TypeError (str pattern on bytes); now unadaptable:
            # False, value None, u = str(obj)
            scalar_case({"k": "date", "strip": True}, b"2020-01-02"),
            scalar_case({"k": "time", "strip": False}, b" 03:04:05 "),
            scalar_case(K_con({"k": "datetime", "strip": True}, "always"), b"2020-01-02 03:04:05"),
            scalar_case(K_enum({"k": "date", "strip": True}, [datetime.date(2020, 1, 2), None]), b"2020-01-02"),
            scalar_case({"k": "date", "strip": True}, bytearray(b"2020-01-02")),
        ]
        str_f = {"s": "scalar", "kind": K_string(True)}
        int_f = {"s": "scalar", "kind": K_int(True)}
        d = {"s": "dict", "policy": "subset", "fields": [["a", str_f], ["n", int_f], ["when", {"s": "date"}]]}
        pairs = lambda items: {"i": "list", "v": [{"i": "list", "v": [leaf(k), v]} for k, v in items]}
        cases += [
            # duplicate key: the child is set twice, the Dict signals once, last
            tree_case(d, pairs([("a", leaf("x")), ("n", leaf("12")), ("a", leaf(None)), ("when", leaf("2020-01-02"))])),
            # not dict-like: returns False, keeps the members of the previous set
            tree_case(d, leaf(5), pairs([("a", leaf("kept"))])),
            # DateYYYYMMDD.set(None): AttributeError swallowed, False, members untouched
            tree_case({"s": "date"}, leaf(None), leaf(datetime.date(2020, 1, 2))),
            tree_case({"s": "date"}, leaf("garbage")),
            # fixed 09fc190 (property C04): JoinedString.set(None) -> True, no members; a non-iterable -> False, one
            # signal, no members; both raised TypeError before (also through Dict.set({'j': None}))
            tree_case({"s": "joined", "sep": ",", "prune": True, "member": K_string(True)}, leaf(None), leaf("a,b")),
            tree_case({"s": "joined", "sep": ",", "prune": True, "member": K_string(True)}, leaf(7), leaf("a,b")),
            tree_case({"s": "joined", "sep": ",", "prune": False, "member": K_int(True)}, leaf(S.Other("thing", True))),
            # fixed 2a6b55c: the member adapts the piece first and is pruned on its text: 0 is kept, a blank-only piece of
            # a stripping member is dropped after having signalled (from outside the tree), its flag does not count
            tree_case({"s": "joined", "sep": ",", "prune": True, "member": K_int(True)}, {"i": "list", "v": [leaf(0), leaf(1)]}),
            tree_case({"s": "joined", "sep": ",", "prune": True, "member": K_string(True)}, {"i": "list", "v": [leaf("a"), leaf(" "), leaf("b")]}),
            tree_case({"s": "joined", "sep": ",", "prune": True, "member": K_int(True)}, leaf("1, ,x")),
            # fa34a5f: Number.serialize lets format errors out for finite values; NaN/sNaN/inf still fall back to str()
            scalar_case({"k": "decimal", "signed": True}, decimal.Decimal("Infinity")),
            scalar_case(K_int(True), float("inf")),
            tree_case({"s": "dict", "policy": "subset", "fields": [["j", {"s": "joined", "sep": ",", "prune": True, "member": K_string(True)}],
                                                                  ["a", str_f]]},
                      {"i": "dict", "v": [[S.py_to_nat("j"), leaf(None)], [S.py_to_nat("a"), leaf("x")]]}),
            tree_case({"s": "seq", "as": "list", "member": {"s": "joined", "sep": ",", "prune": True, "member": K_string(True)}},
                      {"i": "list", "v": [leaf("a,b"), leaf(None), leaf(5)]}),
            tree_case({"s": "joined", "sep": ",", "prune": True, "member": K_int(True)}, leaf("1,,x, 2")),
            tree_case({"s": "seq", "as": "list", "member": {"s": "seq", "as": "array", "member": int_f}},
                      {"i": "list", "v": [{"i": "list", "v": [leaf("1"), leaf("x")]}, leaf("45"), leaf(7)]}),
        ]
        return cases

    def exhaustive(self, tier):
        # every Nd character as an Integer text and inside a date; every whitespace character around
        # String / Integer / Date texts
        for z in ZEROS:
            for i in range(10):
                yield scalar_case(K_int(True), chr(z + i))
            yield scalar_case({"k": "date", "strip": True}, "".join(chr(z + ord(c) - 48) if c.isdigit() else c for c in "2019-08-27"))
            yield scalar_case({"k": "time", "strip": False}, "".join(chr(z + ord(c) - 48) if c.isdigit() else c for c in "19:08:27"))
        for w in WS:
            yield scalar_case(K_string(True), chr(w) + "x" + chr(w))
            yield scalar_case(K_int(True), chr(w) + "1" + chr(w))
            yield scalar_case(K_int(True), "1" + chr(w) + "2")
            yield scalar_case({"k": "date", "strip": True}, chr(w) + "2020-01-02" + chr(w))
            yield scalar_case({"k": "date", "strip": False}, "2020-01-02" + chr(w))
        for kind in KINDS:
            for x in [None, "", True, False, 0, 1]:
                yield scalar_case(kind, x)
        import collections
        import fractions
        for kind in KINDS:
            for x in [collections.UserString(" 1 "), collections.UserString("\u3000on\n"), S.TextSub(" 1\t", "<shown>"), S.TextSub("", " x "),
                      S.IntSub(1, " one "), S.IntSub(0, ""), S.int_enum(2), S.FloatSub(1.0, "1"), S.DecSub("1", " 1"),
                      fractions.Fraction(1, 2), S.DateSub(2020, 1, 2, " 2020-01-02 "), datetime.datetime(2020, 1, 2, 3, 4, 5),
                      datetime.time(1, 2, 3, tzinfo=datetime.timezone.utc), b" 1 ", bytearray(b"on"), S.Other(" 1\x85", True)]:
                yield scalar_case(kind, x)

    exhaustive_note = ("all 680 Nd characters as Integer text, every Nd decade inside a Date and a Time text, all 29 whitespace "
                       "characters around String/Integer/Date texts, every kind configuration x {None, '', True, False, 0, 1}, every kind "
                       "configuration x 16 natives of unusual types (UserString, str/int/float/Decimal/date subclasses with their own "
                       "__str__, IntEnum, Fraction, datetime, aware time, bytes, bytearray, object with __str__ only; padded)")

    def generate(self, rng, n, tier):
        for _ in range(n):
            if rng.random() < 0.3:
                sch = rand_schema(rng, rng.choice([1, 2, 2, 3]))
                if sch["s"] == "scalar":
                    sch = {"s": "seq", "as": "list", "member": sch}
                pre = rand_input(rng, sch) if rng.random() < 0.3 else None
                yield tree_case(sch, rand_input(rng, sch), pre)
                continue
            kind = rng.choice(KINDS)
            if rng.random() < 0.15:
                # natives of unusual but legitimate types (text-likes, numeric / temporal subclasses, bytes; padded)
                yield scalar_case(kind, S.random_exotic(rng, kind if rng.random() < 0.75 else None))
                continue
            if rng.random() < 0.6:
                x = appropriate_input(rng, kind)
            else:
                x = S.random_native(rng)
            if rng.random() < 0.3:
                yield scalar_case(kind, x, appropriate_input(rng, kind), True)
            else:
                yield scalar_case(kind, x)

    # ------------------------------------------------------------ implementation runner

    def has_model(self, case):
        if '"unmodelled"' in __import__("json").dumps(case):      # bytes or any other value outside the native universe
            return False
        if case["mode"] != "tree":
            # an exotic native is inside the model only through its projection (see scalar_case)
            return case["x"] is None or case["x"]["t"] not in S.EXOTIC_TAGS or "proj" in case
        return shape_ok(case["schema"], case["x"]) and (case.get("pre") is None or shape_ok(case["schema"], case["pre"]))

    def model_input(self, case, obs):
        if case["mode"] == "scalar" and "proj" in case:
            return dict(case, x=case["proj"])
        return case

    def run_impl(self, case):
        if case["mode"] == "tree":
            return tree_obs(case)
        cls, el = fresh_scalar(case)
        x = S.nat_to_py(case["x"])
        first, _ = scalar_obs(el, x, case.get("proj"))
        reset = None
        if first["exc"] is None and first["flag"]:
            el2 = cls()
            reset, _ = scalar_obs(el2, el.u)
        # `opaque_stable`: the hypothesis OpaqueStable of reset_text_all_partial for the environment of this
        # case (the recorded float()/Decimal() results), computed independently on both sides
        return {"set": first, "reset": reset, "opaque_stable": opaque_stable_on(case["conv"])}

    def compare(self, impl_obs, model_obs):
        # private keys inside nested observations are not compared
        def scrub(o):
            if isinstance(o, dict):
                return {k: scrub(v) for k, v in o.items() if not k.startswith("_")}
            return o
        return Property.compare(self, scrub(impl_obs), model_obs)

    # ------------------------------------------------------------ oracle

    def oracle(self, case):
        try:
            return self._oracle(case)
        except Exception as e:  # noqa: BLE001 - a probe of the real code raised: that is a finding, not a crash
            return [{"clause": "set-raises", "expected": None, "observed": type(e).__name__, "where": "oracle probe"}]

    def _oracle(self, case):
        from flatland.exc import AdaptationError
        if case["mode"] == "tree":
            return self.tree_oracle(case)
        fails = []
        kind = case["kind"]
        cls, el = fresh_scalar(case)
        x = S.nat_to_py(case["x"])
        flag, exc, events = observe_set(el, x)
        if exc:
            fails.append(dict({"clause": "set-raises", "expected": None, "observed": exc}, **LAST_RAISE))
            return fails
        if el.raw is not x:
            fails.append({"clause": "raw-is-input", "expected": _show(x), "observed": _show(el.raw)})
        # flag, value and text against the documented outcome for this kind (ref_set: kind description +
        # standard library, not the library's own adapt/serialize)
        try:
            want_flag, want_value, want_u = ref_set(kind, x)
        except ValueError:
            want_flag = None              # an int beyond the int->str limit: set() would have raised
        except _Undetermined:
            want_flag = None              # the documentation does not determine the outcome for this input: not asserted
        if not isinstance(flag, bool):
            fails.append({"clause": "flag-is-bool", "expected": "bool", "observed": repr(flag)})
        if want_flag is not None:
            if flag is not want_flag:
                fails.append({"clause": "flag-iff-adapted", "expected": want_flag, "observed": flag})
            elif flag is True:
                # the class of a text that came in as an instance of a str subclass is not asserted, its characters are;
                # numbers are instances of type_ exactly; temporals are the input itself
                textual = S.base_kind(kind)["k"] == "string"
                if not (_same(S.unsub(el.value), S.unsub(want_value)) if textual else _same(el.value, want_value)):
                    fails.append({"clause": "value-is-adapted", "expected": _show(want_value), "observed": _show(el.value)})
                if el.u != want_u or not isinstance(el.u, str):
                    fails.append({"clause": "success-u-is-text-of-value", "expected": want_u, "observed": el.u})
            else:
                if el.value is not None:
                    fails.append({"clause": "failure-value-none", "expected": None, "observed": _show(el.value)})
                if el.u != want_u:
                    fails.append({"clause": "failure-u-is-input-text", "expected": want_u, "observed": el.u})
        # exactly one signal for this element, last, adapted == flag, sent after value/u are final
        own = [e for e in events if e[0] is el]
        if len(own) != 1 or events[-1][0] is not el:
            fails.append({"clause": "signal-exactly-once-last", "expected": 1, "observed": len(own)})
        else:
            _, adapted_sig, val_at, u_at = own[0]
            if adapted_sig is not flag:
                fails.append({"clause": "signal-adapted-is-flag", "expected": flag, "observed": adapted_sig})
            if val_at != S.py_to_nat(S.model_view(el.value), full=False) or u_at != el.u:
                fails.append({"clause": "signal-after-final", "expected": [_show(el.value), el.u], "observed": [val_at, u_at]})
        # re-setting the text
        if flag is True:
            el2 = cls()
            flag2, exc2, _ = observe_set(el2, el.u)
            if exc2:
                fails.append({"clause": "reset-raises", "expected": None, "observed": exc2})
            else:
                if el2.u != el.u:
                    fails.append({"clause": "reset-u", "expected": el.u, "observed": el2.u, "first_value": _show(el.value)})
                if exact_kind(kind) and not _same(S.unsub(el2.value), S.unsub(el.value)):
                    # the statement makes no exception for None: its text '' may read back as a value
                    fails.append({"clause": "reset-value" if el.value is not None else "reset-value-none",
                                  "expected": _show(S.unsub(el.value)), "observed": _show(S.unsub(el2.value)), "first_u": el.u})
        return fails

    def tree_oracle(self, case):
        fails = []
        sch = case["schema"]
        el, flag, exc, events = run_tree(case)
        if exc:
            # a Dict refuses keys outside its schema by design (KeyError from its subset policy), and only
            # then; anything else is a set() raising
            if exc != "KeyError" or not expects_keyerror(sch, case["x"]):
                fails.append(dict({"clause": "set-raises", "expected": None, "observed": exc}, **LAST_RAISE))
            return fails
        if expects_keyerror(sch, case["x"]) and shape_ok(sch, case["x"]):
            fails.append({"clause": "policy-keyerror", "expected": "KeyError", "observed": None})
        paths = {}
        index_tree(el, sch, [], paths)
        own = [i for i, e in enumerate(events) if e[0] is el]
        if len(own) != 1 or own[0] != len(events) - 1:
            fails.append({"clause": "signal-exactly-once-last", "expected": "one signal for the element, after its children's",
                          "observed": [paths.get(id(e[0]), ["orphan"]) for e in events]})
            return fails
        _, adapted, snap = events[-1]
        if adapted is not flag:
            fails.append({"clause": "signal-adapted-is-flag", "expected": flag, "observed": adapted})
        final = tree_canon(el, sch)
        if snap != final:
            fails.append({"clause": "signal-after-final", "expected": final, "observed": snap})
        if not isinstance(flag, bool):
            fails.append({"clause": "flag-is-bool", "expected": "bool", "observed": repr(flag)})
        # ... and the same for every element of the tree: one signal per set() call made on it, its last
        # signal after those of the elements below it, carrying its final state
        fails.extend(self._each_element(el, sch, case["x"], paths, events))
        direct = [e[1] for e in events[:-1] if len(paths.get(id(e[0])) or ["pruned", "piece"]) == 1]
        if sch["s"] in ("seq", "dict", "joined") and direct and flag is not all(direct):
            fails.append({"clause": "flag-is-conjunction-of-children", "expected": all(direct), "observed": flag})
        return fails

    def _each_element(self, root, sch, inp, paths, events):
        fails = []
        counts = {}
        countable = expected_calls(sch, inp, [], counts)
        by_path = {}

        def walk(e, s_, path):
            by_path[tuple(path)] = (e, s_)
            for i, (c, cs) in enumerate(children_of(e, s_)):
                walk(c, cs, path + [i])
        walk(root, sch, [])
        last_at = {}
        n_sig = {}
        for i, (sender, adapted, snap) in enumerate(events):
            p = paths.get(id(sender))
            if p is not None:
                last_at[tuple(p)] = i
                n_sig[tuple(p)] = n_sig.get(tuple(p), 0) + 1
        for path, (e, s_) in by_path.items():
            got = n_sig.get(path, 0)
            parent = by_path.get(path[:-1]) if path else None
            parent_set = parent is not None and n_sig.get(path[:-1], 0) > 0
            if parent is not None and parent[1]["s"] == "joined":
                want = 1 if parent_set else 0  # a kept piece was set exactly once (members of an untouched element: not at all)
            elif parent is not None and parent[1]["s"] == "date":
                sibs = {n_sig.get(path[:-1] + (j,), 0) for j in range(3)}
                # per set() of the compound: all three members once, or none of them (the None branch)
                n_parent = n_sig.get(path[:-1], 0)
                want = (got if (len(sibs) == 1 and got <= n_parent) else n_parent) if parent_set else 0
            elif countable:
                want = counts.get(path, 0)
            else:
                continue
            if got != want:
                fails.append({"clause": "signal-exactly-once-each", "path": list(path), "expected": want, "observed": got})
                continue
            if got:
                below = [last_at[q] for q in last_at if len(q) > len(path) and q[: len(path)] == path]
                if below and max(below) > last_at[path]:
                    fails.append({"clause": "signal-after-children", "path": list(path), "expected": "last", "observed": last_at[path]})
                snap = events[last_at[path]][2]
                if snap != canon_any(e):
                    fails.append({"clause": "signal-after-final", "path": list(path), "expected": canon_any(e), "observed": snap})
        return fails

    def classify(self, case, failure):
        """A failure is filed under a recorded finding only when BOTH the first outcome and the
        observation that failed are what that finding predicts for this kind and input."""
        clause = failure.get("clause")
        if clause == "set-raises":
            # KF-C04-a: CPython's int->str limit, let out by one of the three places that print a value
            # (str(obj) in the failure branch of Scalar.set, str(value) in String.adapt, format % value /
            # str(value) in Number.serialize) while the innermost Scalar.set() holds the over-long int
            if (failure.get("observed") == "ValueError" and "Exceeds the limit" in failure.get("message", "")
                    and failure.get("culprit_huge")
                    and failure.get("site") in ("Scalar.set", "String.adapt", "Number.serialize")):
                return "KF-C04-a"
            return None
        if case["mode"] == "tree":
            return None
        kind = case["kind"]
        x = S.nat_to_py(case["x"])
        if clause == "reset-value":
            want = truncated_temporal(kind, x)
            if (want is not None and failure.get("observed") == _show(want)
                    and failure.get("expected") == _show(x)                  # the native input was kept as the value
                    and failure.get("first_u") == temporal_text(want)):      # and its text is the truncated form
                return "KF-C04-b"
        if clause in ("reset-u", "reset-value", "reset-value-none"):
            first_u = failure.get("first_u") if clause != "reset-u" else failure.get("expected")
            first_v = failure.get("first_value") if clause == "reset-u" else failure.get("expected")
            if S.base_kind(kind)["k"] not in ("string", "boolean", "boolean_default"):
                return None
            try:
                f = ref_set(kind, x)
            except ValueError:
                return None
            except _Undetermined:
                # a text-like that is no str handed to a Boolean: the documentation does not say which value it gets; the
                # finding's prediction then starts from the first outcome OBSERVED, which must be a coherent one (a bool
                # and the kind's text for it)
                f = None
                if not any(first_v == _show(b) and first_u == ref_serialize(kind, b) for b in (True, False)):
                    return None
            if f is not None and (not f[0] or f[2] != first_u or _show(f[1]) != first_v):
                return None                                              # the first outcome is not the documented one
            sim = sim_set_text(kind, first_u) if isinstance(first_u, str) else None
            if sim is not None and sim[0]:
                observed = failure.get("observed")
                predicted = sim[2] if clause == "reset-u" else _show(sim[1])
                if observed == predicted:
                    if clause == "reset-value-none":
                        if x is None and first_u == "":
                            return "KF-C04-d"
                    elif bool_incoherent(kind, x):
                        return "KF-C04-c"
        return None

    # ------------------------------------------------------------ coverage, shrinking

    def nontrivial(self, case, obs):
        if case["mode"] == "tree":
            return obs["exc"] is None and len(obs["sigs"]) > 1
        s = obs["set"]
        return s["exc"] is None and case["x"] is not None

    def tags(self, case, obs):
        if case["mode"] == "tree":
            t = ["tree-root=" + case["schema"]["s"]]
            if obs["exc"]:
                t.append("tree-exc=" + obs["exc"])
            else:
                t += ["tree-flag=%s" % obs["flag"], "tree-signals=%d" % min(len(obs["sigs"]), 12)]
            if case.get("pre") is not None:
                t.append("tree-preset")
            return t
        s = obs["set"]
        x = case["x"]
        t = ["kind=" + kind_tag(case["kind"]), "input=" + ("none" if x is None else x["t"])]
        if case.get("has_pre"):
            t.append("scalar-preset")
        if x is not None and x["t"] in S.EXOTIC_TAGS + ("other",):
            xv = S.nat_to_py(x)
            if x["t"] != "other":
                t.append("exotic-in-model" if "proj" in case else "exotic-oracle-only")
            try:
                ref_set(case["kind"], xv)
                t.append("exotic-ref-asserted")
            except _Undetermined:
                t.append("exotic-ref-undetermined")
            except ValueError:
                pass
            try:
                shown = xv.decode("latin-1") if isinstance(xv, (bytes, bytearray)) else (_content(xv) if isinstance(xv, str) else str(xv))
                if shown != shown.strip():
                    t.append("exotic-padded")
                    if any(ord(c) > 127 for c in shown[:1] + shown[-1:]):
                        t.append("exotic-padded-non-ascii")
            except Exception:  # noqa: BLE001
                pass
        if s["exc"]:
            t.append("exc=" + s["exc"])
        else:
            t.append("flag=%s" % s["flag"])
            if s["flag"] and obs["reset"] is not None:
                t.append("reset-flag=%s" % obs["reset"]["flag"])
        if x is not None and x["t"] == "str":
            v = x["v"]
            if v != v.strip():
                t.append("text-padded")
            if any(ord(c) > 127 and c.isdigit() for c in v):
                t.append("text-unicode-digits")
            if "_" in v:
                t.append("text-underscore")
            if len(v) > 1000:
                t.append("text-huge")
        if x is not None and x["t"] == "int" and len(x["v"]) > 3000:
            t.append("int-huge")
        # which hypotheses of the re-set theorems this case satisfies
        if s["exc"] is None and s["flag"]:
            xv = S.nat_to_py(x)
            kind = case["kind"]
            hyps = {
                "Modelled": exact_kind(kind),
                "Coherent": not bool_incoherent(kind),
                "CoherentNone-or-value": s["value"] is not None or not bool_incoherent(kind, None),
                "ExactInput": not inexact_temporal(kind, xv),
                "NoHuge": not has_huge_int(case),
                "value-not-None": s["value"] is not None,
            }
            for name, ok in hyps.items():
                t.append("hyp-%s=%s" % (name, ok))
            t.append("hyps-reset_text=%s" % all(hyps[h] for h in ("Modelled", "Coherent", "CoherentNone-or-value", "NoHuge")))
            t.append("hyps-reset_value=%s" % all(hyps.values()))
            if not exact_kind(kind):
                t.append("hyp-OpaqueStable=%s" % obs.get("opaque_stable"))
        return t

    def shrink_candidates(self, case):
        if case["mode"] == "tree":
            yield from self.tree_shrinks(case)
            return
        x = case["x"]
        kind = case["kind"]
        if case.get("has_pre"):
            yield scalar_case(kind, S.nat_to_py(x))
            orig = scalar_case
            pre = S.nat_to_py(case["pre"])
            scalar_case_ = lambda k, v: orig(k, v, pre, True)
        else:
            scalar_case_ = scalar_case
        if x is not None and x["t"] == "str":
            v = x["v"]
            for i in range(len(v)):
                yield scalar_case_(kind, v[:i] + v[i + 1:])
            if len(v) > 8:
                yield scalar_case(kind, v[: len(v) // 2])
        if x is not None and x["t"] == "int":
            i = int(x["v"], 16)
            for j in (i // 10, i // 10 ** 100 if abs(i) > 10 ** 200 else 0, 0):
                if j != i:
                    yield scalar_case(kind, j)
        if kind["k"] == "constrained":
            yield scalar_case(kind["child"], S.nat_to_py(x))
        if kind["k"] == "boolean":
            for key in ("tsyn", "fsyn"):
                for i in range(len(kind[key])):
                    k2 = copy.deepcopy(kind)
                    del k2[key][i]
                    yield scalar_case(k2, S.nat_to_py(x))


def _tree_shrinks(self, case):
    sch, x, pre = case["schema"], case["x"], case.get("pre")
    if pre is not None:
        yield tree_case(sch, x, None)
    if sch["s"] == "seq" and x["i"] == "list" and x["v"] and sch["member"]["s"] not in ("scalar", "date"):
        yield tree_case(sch["member"], x["v"][0], None)
    if sch["s"] == "dict":
        for i, (n, f) in enumerate(sch["fields"]):
            if len(sch["fields"]) > 1:
                s2 = dict(sch, fields=[g for j, g in enumerate(sch["fields"]) if j != i])
                yield tree_case(s2, x, pre)
    if x["i"] in ("list", "dict"):
        for i in range(len(x["v"])):
            yield tree_case(sch, {"i": x["i"], "v": x["v"][:i] + x["v"][i + 1:]}, pre)
    if x["i"] == "leaf" and x["v"] is not None and x["v"]["t"] == "str":
        v = x["v"]["v"]
        for i in range(len(v)):
            yield tree_case(sch, leaf(v[:i] + v[i + 1:]), pre)


C04.tree_shrinks = _tree_shrinks


def _same(a, b):
    """Equality of native values that distinguishes types and NaNs by identity of representation."""
    return S.py_to_nat(a, full=False) == S.py_to_nat(b, full=False)


def _show(v):
    return S.py_to_nat(v, full=False)


PROP = C04()
