"""C13 — fq_name() is the inverse of find(): it addresses exactly its element."""
import copy
import itertools

from harness.core import Property
from harness.props import c13c14_common as cm


def _leaf(name=None):
    return {"k": "s", "name": name, "kids": []}


def _path_nodes(tree, node_id):
    """[(parent, child)] pairs from the root down to the node"""
    pm = cm.parent_map(tree)
    chain = []
    cur = cm.node_by_id(tree, node_id)
    while pm[cur["id"]] is not None:
        chain.append((pm[cur["id"]], cur))
        cur = pm[cur["id"]]
    return list(reversed(chain))


def _finding_of(tree, node_id):
    """the open known finding whose class the element belongs to, or None.
    KF-C13-b: an element on the path (itself or an ancestor) is a Dict/Compound field named ''.
    KF-C13-c: an element on the path is stored in its Dict under a key different from its name.
    KF-C13-a: the field name of a proper ancestor ends with a backslash."""
    chain = _path_nodes(tree, node_id)
    for i, (parent, child) in enumerate(chain):
        if parent["k"] not in ("d", "c"):
            continue
        if child["name"] == "":
            return "KF-C13-b"
    for i, (parent, child) in enumerate(chain):
        if parent["k"] not in ("d", "c"):
            continue
        if child.get("key", child["name"]) != child["name"]:
            return "KF-C13-c"
    for i, (parent, child) in enumerate(chain):
        if parent["k"] not in ("d", "c"):
            continue
        if child["name"] is not None and child["name"].endswith("\\") and i < len(chain) - 1:
            return "KF-C13-a"
    return None


def _spellable(tree, node_id):
    """spec `spellable`: every Dict/Compound child on the way has a non-empty name and only the last may end in a
    backslash"""
    chain = _path_nodes(tree, node_id)
    for i, (parent, child) in enumerate(chain):
        if parent["k"] in ("d", "c"):
            if child["name"] is None:
                continue   # an unnamed field is spelled by the empty step (05c4adc)
            if child["name"] == "" or (child["name"].endswith("\\") and i < len(chain) - 1):
                return False
    return True


def _real_suspect(el):
    """the element is (below) a Dict child of one of the three open classes KF-C13-a/b/c, judged on the real
    elements: a name '' or a key different from the name on the way, or a proper ancestor whose name ends in a
    backslash"""
    from flatland.schema.base import Slot
    from flatland.schema.containers import Mapping
    cur, first = el, True
    while cur.parent is not None:
        par = cur.parent
        if isinstance(par, Slot):
            cur = par
            continue
        if isinstance(par, Mapping) and not isinstance(cur, Slot):
            nm = cur.name
            if nm is None or nm == "" or (nm.endswith("\\") and not first):
                return True
            try:
                if par[nm] is not cur:
                    return True
            except Exception:  # noqa: BLE001
                return True
        first = False
        cur = par
    return False


def _real_tree_failures(root, why):
    """C13 stated on the REAL tree without labels (used when the description cannot be matched to the real
    tree because a rejected list operation left something behind): every element reachable from the root —
    `all_children` — is found, alone, by its own fq_name() from the root and from the last element"""
    fails = []
    if root.fq_name() != "/":
        fails.append({"clause": "root-is-slash", "expected": "/", "observed": root.fq_name()})
    els = [root] + list(root.all_children)
    starts = [root, els[-1]]

    def show(x):
        try:
            return "%s@%s" % (type(x).__name__, cm.enc(x.fq_name()))
        except Exception as e:  # noqa: BLE001
            return "%s@<%s>" % (type(x).__name__, cm.exc_name(e))
    for idx, el in enumerate(els):
        if _real_suspect(el):
            continue
        try:
            p = el.fq_name()
        except Exception as e:  # noqa: BLE001
            cm.reraise_timeout(e)
            fails.append({"clause": "fq_name-raises-real-tree", "element": "#%d" % idx, "expected": "a path",
                          "observed": cm.exc_name(e)})
            continue
        for si, s_el in enumerate(starts):
            try:
                got = s_el.find(p)
                ok = len(got) == 1 and got[0] is el
                obs = [show(g) for g in got]
            except Exception as e:  # noqa: BLE001
                cm.reraise_timeout(e)
                ok, obs = False, cm.exc_name(e)
            if not ok:
                fails.append({"clause": "inverse-real-tree", "element": "#%d in all_children order" % idx,
                              "element_value": repr(getattr(el, "value", None))[:80],
                              "start": "root" if si == 0 else "last element", "fq_name": cm.enc(p),
                              "expected": "exactly that element", "observed": obs, "tree_shape": why})
    return fails


EXH_ALPHABET = ["/", "[", "]", ".", "\\", "a", "0"]


class C13(Property):
    id = "C13"
    title = "fq_name() is the inverse of find(): it addresses exactly its element"
    proof_module = "Proofs.C13"
    theorems = [
        "Flatland.C13.Proofs.find_fq",
        "Flatland.C13.Proofs.fqName_root",
        "Flatland.C13.Proofs.tokenize_fqName",
        "Flatland.C13.Proofs.C13_partial",
        "Flatland.C13.Proofs.find_fq_addressable",
        "Flatland.C13.Proofs.find_fq_iff",
        "Flatland.C13.Proofs.pathOK_of_find_fq",
        "Flatland.C13.Proofs.C13_key_mismatch_fails",
        "Flatland.C13.Proofs.C13_full_fails_key_general",
        "Flatland.C13.Proofs.C13_full_fails",
        "Flatland.C13.Proofs.C13_full_fails_backslash",
        "Flatland.C13.Proofs.C13_backslash_dot_ok",
        "Flatland.C13.Proofs.C13_full_fails_key",
        "Flatland.C13.Proofs.find_one_fq",
        "Flatland.C13.Proofs.fqName_injective",
        "Flatland.Path.Lemmas.tokenize_segs",
        "Flatland.Path.Lemmas.pyInt_natStr",
        # k4 (Proofs/C13Unspellable): KF-C13-b at the first level, for every tree
        "Flatland.C13.Proofs.fqName_empty_top",
        "Flatland.C13.Proofs.find_slash2",
        "Flatland.C13.Proofs.find_fq_unnamed",
        "Flatland.C13.Proofs.tokenize_slash2",
        "Flatland.C13.Proofs.C13_empty_name_fails_top_partial",
        # p2 (Proofs/C13Empty, Proofs/Lemmas/PathScanEmpty): empty path steps at any depth; find_fq_addressable,
        # find_fq_iff, C13_key_mismatch_fails above are now the statements WITHOUT namedFrom
        "Flatland.Path.Lemmas.tokenize_sufJoin",
        "Flatland.C13.Proofs.tokenize_fqName_empty",
        "Flatland.C13.Proofs.tokenize_fqName_of_empty",
        "Flatland.C13.Proofs.find_fq_empty",
        "Flatland.C13.Proofs.find_fq_iff_pathOK",
        "Flatland.C13.Proofs.C13_empty_name_fails",
        "Flatland.C13.Proofs.find_fq_addressable_named",
        "Flatland.C13.Proofs.find_fq_iff_named",
        "Flatland.C13.Proofs.C13_key_mismatch_fails_named",
    ]
    extra_proof_modules = ["Proofs.C13Unspellable"]
    generated_obligations = []
    trusted_base = [
        "Python's int(str) / str(int) and `re` semantics of the two pinned regexes are reproduced as executable Lean "
        "functions (pyInt, natStr, scan, unescape) validated by correspondence, not proved against CPython",
        "element identity = position in a functional tree (parents/root are derived; pointer upkeep is C08's subject)",
    ]
    assumptions = [
        "Dict keys are unique (they are dict keys); an UNNAMED Dict field (name None, at most one per Dict) is stored "
        "under the key None and is in scope since 05c4adc (model: key = none, empty path step); that a child's key "
        "equals its name is NOT assumed (hypothesis [KeyIsName], KF-C13-c)",
        "a sequence never has 10^4300 or more members (int() digit limit)",
    ]
    level_text = "proof"
    level_note = (
        "Proved in Lean: find(start, fq_name(pos), strict or not, single or not) = pos for every tree, every start and "
        "every position that is PathOK (find_fq, find_one_fq; PathOK follows from spec B's `addressable` plus the "
        "tree invariants TreeInv, find_fq_addressable), including the tokenizer on the emitted path "
        "(tokenize_fqName, now under the spelling conditions SpellOK alone) and int(str(i)) = i (pyInt_natStr); "
        "fqName_root ('/' for the root) holds by construction (rfl on the model). CONVERSE (h5): on every position whose "
        "Dict names can be spelled (`spellable`: non-empty, no backslash at the end of a non-final name) `addressable` is "
        "EXACT — find(fq_name(pos)) = [pos] from any start IF AND ONLY IF the position is addressable, i.e. iff every Dict "
        "child on the way is stored under its own name (find_fq_iff; pathOK_of_find_fq: a successful round trip forces "
        "every lookup on the way to hit its own child); KF-C13-c is thereby a general theorem (C13_key_mismatch_fails: "
        "every spellable, non-addressable position breaks the law from every start; the old witness is an instance, "
        "C13_full_fails_key_general). Since 05c4adc (the model follows it) an unnamed field and a field named '' both emit the empty "
        "step, with a slash of its own when it comes last ('//', '/l/0//'), and find() looks the empty step up under the "
        "key None: find_fq_unnamed (in EVERY tree an unnamed first-level field of a mapping root is found, alone, by its "
        "fq_name() '//', from every start, strict or not; find_slash2, tokenize_slash2, fqName_empty_top) and its "
        "negative twin C13_empty_name_fails_top_partial (KF-C13-b at the first level: a field that emits the empty step "
        "but is not the one stored under None breaks the law: LookupError, or the unnamed sibling). Since round p2 the general theorems "
        "(find_fq_addressable, find_fq_iff, C13_key_mismatch_fails) hold WITHOUT namedFrom: tokenize_fqName_empty handles "
        "empty steps at any depth ('///y', '/l/0//z'), find_fq_iff_pathOK needs no hypothesis on the tree, and "
        "C13_empty_name_fails makes KF-C13-b a general theorem (everything at or below a field named '' fails from every "
        "start); the Lean runner still re-checks spellable -> (law <-> addressable) on every generated tree. NOT proved necessary in general: the two unspellable classes (a Dict field named '' — KF-C13-b, "
        "C13_full_fails; anything below a name ending in a backslash — KF-C13-a, C13_full_fails_backslash) are still "
        "refuted by one witness each, because the converse there needs the tokenizer on arbitrary (ill-formed) emitted "
        "strings; the Lean runner re-checks the iff on every spellable position of every generated tree and the "
        "correspondence compares the outcome of every unspellable one with the code. "
        "C13_backslash_dot_ok: the field 'a\\\\.b' fixed by "
        "b49b3eb satisfies the law. Members removed from a List are outside model A (one tree): oracle only, expected to "
        "be roots of their own (KF-C13-d). Tied to the code by correspondence: fq_name()/find() of every element of "
        "random and exhaustively enumerated trees, also after histories of list mutations with queries in between.")
    technique = "Lean 4 model + inverse-law proof; differential correspondence; exhaustive two-level names"
    exhaustive_note = ""
    quick_n = 25000
    thorough_n = 200000
    case_timeout = 120  # cases take milliseconds; the alarm only guards against a hung interpreter

    def _case(self, tree, starts, init=None, history=None):
        c = {"tree": tree, "starts": starts}
        if history:
            c["init"] = init
            c["history"] = history
            removed = cm.removed_subjects(init, history, tree)
            if removed:
                # members popped / deleted / replaced on the way are subjects too: an element without a
                # tree above it is its own root
                c["removed"] = removed
        return c

    def corpus(self):
        out = []
        # fixed adc4b12: punctuation in names was emitted unescaped; Array/MultiValue/JoinedString members by name
        t = cm.number({"k": "d", "name": "root", "kids": [
            _leaf("a/b"), _leaf("."), _leaf(".."), _leaf("[1:2]"), _leaf("a[0]"), _leaf("a"),
            {"k": "d", "name": "a]", "kids": [_leaf("b"), _leaf("0"), _leaf("[:]")]},
            {"k": "a", "name": "arr", "member": {"k": "s", "name": "m"}, "kids": [_leaf("m"), _leaf("m")]},
            {"k": "a", "name": "anon", "member": {"k": "s", "name": None}, "kids": [_leaf(None)]},
            {"k": "m", "name": "mv", "member": {"k": "s", "name": "x"}, "kids": [_leaf("x"), _leaf("x")]},
            {"k": "j", "name": "js", "kids": [_leaf(None), _leaf(None), _leaf(None)]},
            {"k": "l", "name": "l", "member": {"k": "l", "name": "in", "member": {"k": "d", "name": None, "fields": [{"k": "s", "name": "x/y"}]}},
             "kids": [{"k": "l", "name": "in", "member": {"k": "d", "name": None, "fields": [{"k": "s", "name": "x/y"}]},
                       "kids": [{"k": "d", "name": None, "kids": [_leaf("x/y")]}, {"k": "d", "name": None, "kids": [_leaf("x/y")]}]},
                      {"k": "l", "name": "in", "member": {"k": "d", "name": None, "fields": [{"k": "s", "name": "x/y"}]}, "kids": []}]},
            {"k": "c", "name": "when", "set": False, "kids": [_leaf("year"), _leaf("month"), _leaf("day")]},
        ]})
        out.append(self._case(t, [0, 7, 12, 25]))
        # fixed b49b3eb: a backslash directly before '.' / ']' in a name was read back as an escape
        tb = cm.number({"k": "d", "name": "root", "kids": [
            _leaf("a\\.b"), _leaf("a\\]b"), _leaf("a\\\\.b"), _leaf("\\."), _leaf("\\]"), _leaf("\\.\\."),
            {"k": "d", "name": "p\\.q", "kids": [_leaf("x\\]"), _leaf("a\\/b"), _leaf("a\\[b")]}]})
        out.append(self._case(tb, [0, 7]))
        # open KF-C13-a: a name ending in a backslash above other elements (the element itself is fine)
        t2 = cm.number({"k": "d", "name": "root", "kids": [
            {"k": "d", "name": "y\\", "kids": [_leaf("z")]}, _leaf("x\\"), _leaf("\\"),
            {"k": "l", "name": "l\\", "member": {"k": "s", "name": None}, "kids": [_leaf(None)]}]})
        out.append(self._case(t2, [0, 1]))
        # seeded mutation C13-pop-negative-index-renumber: pop(i) with a negative i other than -1 must renumber
        # the slots (the demo's history: pop(), append, pop(0), insert(0, ..), pop(-3), inner pop(-2))
        tags = lambda n: {"k": "l", "name": "tags", "member": {"k": "s", "name": None}, "kids": [_leaf(None) for _ in range(n)]}
        row_schema = {"k": "d", "name": None, "fields": [{"k": "s", "name": "k"},
                                                         {"k": "l", "name": "tags", "member": {"k": "s", "name": None}}]}
        row = lambda n: {"k": "d", "name": None, "kids": [_leaf("k"), tags(n)]}
        form = cm.number({"k": "d", "name": "form", "kids": [
            _leaf("title"), {"k": "l", "name": "rows", "member": row_schema, "kids": [row(2), row(1), row(3), row(0)]}]})
        nxt = [cm._max_id(form) + 1]

        def fresh(n):
            r = row(n)
            nxt[0] = cm._number_from(r, nxt[0])
            return r
        hist = [{"at": [1], "op": "pop", "i": -1}, {"at": [1], "op": "append", "nodes": [fresh(1)]},
                {"at": [1], "op": "pop", "i": 0}, {"at": [1], "op": "insert", "i": 0, "nodes": [fresh(1)]},
                {"at": [1], "op": "pop", "i": -3}, {"at": [1, 1, 1], "op": "pop", "i": -2}]
        final = cm.simulate(form, hist)
        ids = [n["id"] for n in cm.preorder(final)]
        out.append(self._case(final, [0, ids[len(ids) // 2], ids[-1]], form, hist))
        for i in (-2, -3, -4):
            lst = cm.number({"k": "l", "name": "l", "member": {"k": "s", "name": None}, "kids": [_leaf(None) for _ in range(4)]})
            h = [{"at": [], "op": "pop", "i": i}]
            out.append(self._case(cm.simulate(lst, h), [0], lst, h))
        # seeded mutation C14-root-lazy-property: an element queried while detached, then grafted, must resolve
        # absolute paths (its own fq_name too) against the tree it is in NOW
        for case in cm.root_lazy_demo_cases():
            out.append(self._case(case["tree"], case["starts"], case["init"], case["history"]))
        # open KF-C13-c (= the KF-C10-a state): SparseDict item assignment of an instance of a renamed subclass
        sdn = {"k": "d", "name": "sd", "sparse": [{"k": "s", "name": "z"}],
               "fields": [{"k": "s", "name": "x"}, {"k": "s", "name": "z"}], "kids": [_leaf("x")]}
        tk = cm.number({"k": "d", "name": "r", "kids": [sdn]})
        newx = dict(_leaf("y"), id=cm._max_id(tk) + 1, key="x")
        hk = [{"at": [0], "op": "setfield", "key": "x", "nodes": [newx]}]
        out.append(self._case(cm.simulate(tk, hk), [0], tk, hk))
        newz = dict(_leaf("x"), id=cm._max_id(tk) + 2, key="z")     # named like the sibling key: finds the wrong element
        hk2 = [{"at": [0], "op": "setfield", "key": "z", "nodes": [newz]}]
        out.append(self._case(cm.simulate(tk, hk2), [0, 2], tk, hk2))
        # open KF-C13-d: members removed from a List (pop / del / item assignment of an Element)
        rows = cm.number({"k": "l", "name": "rows", "member": {"k": "s", "name": "row"}, "kids": [_leaf("row") for _ in range(3)]})
        newm = dict(_leaf("row"), id=cm._max_id(rows) + 1)
        for h in ([{"at": [], "op": "pop", "i": 0}], [{"at": [], "op": "delitem", "i": 0}],
                  [{"at": [], "op": "setitem", "i": 1, "nodes": [newm], "detached": True, "pre": []}]):
            out.append(self._case(cm.simulate(rows, h), [0], rows, h))
        # seeded mutation C13-insert-sets-after-placing: List.insert(i, <value the member schema rejects by
        # raising>) must leave the list as it was (no blank member, no stale slot names) — the demo's history:
        # a successful insert, the rejected insert at 0 (caught), then an append (which does not renumber)
        pt_schema = {"k": "d", "name": "point", "fields": [{"k": "s", "name": "x"}, {"k": "s", "name": "y"}]}
        pt = lambda: {"k": "d", "name": "point", "kids": [_leaf("x"), _leaf("y")]}
        form2 = cm.number({"k": "d", "name": "form", "kids": [
            _leaf("title"), {"k": "l", "name": "points", "member": pt_schema, "kids": [pt(), pt()]}]})
        nxt2 = [cm._max_id(form2) + 1]

        def fresh_pt():
            r = pt()
            nxt2[0] = cm._number_from(r, nxt2[0])
            return r
        rej = {"at": [1], "op": "rejected", "kind": "insert-bad", "i": 0, "bad": {"x": "7", "z": "8"}}
        for h in ([{"at": [1], "op": "insert", "i": 1, "nodes": [fresh_pt()]}, dict(rej),
                   {"at": [1], "op": "append", "nodes": [fresh_pt()]}],
                  [dict(rej)],
                  [dict(rej, i=1), {"at": [1], "op": "iadd", "nodes": [fresh_pt()]}],
                  [{"at": [1], "op": "rejected", "kind": "extend-bad", "bad": {"z": "8"}, "nodes": [fresh_pt()]}],
                  [{"at": [1], "op": "rejected", "kind": "setslice-bad", "a": 0, "b": 1, "bad": {"z": "8"}, "nodes": [fresh_pt()]}],
                  [{"at": [1], "op": "rejected", "kind": "pop-oor", "i": 5}, {"at": [1], "op": "append", "nodes": [fresh_pt()]}]):
            final2 = cm.simulate(form2, h)
            out.append(self._case(final2, [0, [n["id"] for n in cm.preorder(final2)][-1]], form2, h))
        # open KF-C13-b: empty field name
        t3 = cm.number({"k": "d", "name": "root", "kids": [_leaf(""), {"k": "d", "name": "a", "kids": [_leaf("")]}]})
        out.append(self._case(t3, [0, 2]))
        return out

    def exhaustive(self, tier):
        maxlen = 2
        names = ["".join(c) for n in range(1, maxlen + 1) for c in itertools.product(EXH_ALPHABET, repeat=n)]
        self.exhaustive_note = (
            "every pair (n1, n2) of names of length 1..%d over the alphabet %s in the tree Dict{n1: Dict{n2: String, "
            "'z': List[String x2]}, 'q': String}; fq_name/find of every element from the root and from n2"
            % (maxlen, " ".join(EXH_ALPHABET)))
        if tier == "quick":
            pairs = [(a, b) for a in names for b in names if len(a) + len(b) <= 3]
        else:
            pairs = [(a, b) for a in names for b in names]
        for n1, n2 in pairs:
            kids2 = [_leaf(n2)]
            if n2 != "z":
                kids2.append({"k": "l", "name": "z", "member": {"k": "s", "name": None}, "kids": [_leaf(None), _leaf(None)]})
            kids1 = [{"k": "d", "name": n1, "kids": kids2}]
            if n1 != "q":
                kids1.append(_leaf("q"))
            t = cm.number({"k": "d", "name": "root", "kids": kids1})
            yield self._case(t, [0, 2])

    def generate(self, rng, n, tier):
        for _ in range(n):
            hostile = rng.choice([0.2, 0.5, 0.8])
            r = rng.random()
            if r < 0.5:
                # names the theorem covers (no empty names, no trailing backslash)
                pools = [cm.DIGITS, cm.PUNCT, cm.PUNCT, cm.BACKSLASH_OK, cm.BACKSLASH_BAD, cm.UNICODE]
            elif r < 0.8:
                pools = [cm.DIGITS, cm.PUNCT, cm.BACKSLASH_OK, cm.BACKSLASH_BAD, cm.BACKSLASH_END, cm.UNICODE]
            else:
                pools = [cm.DIGITS, cm.PUNCT, cm.BACKSLASH_OK, cm.BACKSLASH_BAD, cm.BACKSLASH_END, cm.UNICODE, cm.EMPTY]
            depth = rng.choice([1, 2, 2, 3, 3, 4, 5])
            schema = cm.rand_schema(rng, depth, rng.choice(["root", None, "r/", ""]), hostile, pools, top=True)
            tree = cm.number(cm.instantiate(rng, schema, maxlen=rng.choice([2, 3, 4, 12])))
            init, history = None, None
            if rng.random() < 0.45:
                # the tree is reached through a history of list mutations (public List API)
                final, history = cm.rand_history(rng, tree, rng.choice([1, 1, 2, 3, 4]),
                                                 setfield=rng.choice([0.0, 0.0, 0.3]),
                                                 rejected=rng.choice([0.0, 0.3, 0.5]))
                if history:
                    init, tree = tree, final
            nodes = list(cm.preorder(tree))
            if len(nodes) > 60:
                continue
            starts = [tree["id"]] + [rng.choice(nodes)["id"] for _ in range(3)]
            # elements that were queried while still detached and grafted afterwards are start elements too
            present = {x["id"] for x in nodes}
            starts += [i for i in cm.grafted_ids(history) if i in present][:3]
            yield self._case(tree, sorted(set(starts)), init, history)

    # -------------------------------------------------------------- implementation
    def _observe(self, case):
        try:
            root, byid, label = cm.build_case(case)
        except cm.ShapeMismatch:
            # a rejected list operation left something behind: the elements cannot be labelled, the (empty)
            # observation disagrees with the model's, and the oracle judges the real tree label-free
            return [], []
        fq, found = [], []
        for n in cm.preorder(case["tree"]):
            el = byid[n["id"]]
            try:
                p = el.fq_name()
            except Exception as e:  # noqa: BLE001
                cm.reraise_timeout(e)
                fq.append([n["id"], {"error": cm.exc_name(e)}])
                continue
            fq.append([n["id"], cm.enc(p)])
            for s in case["starts"]:
                try:
                    r = {"list": cm.labels(label, byid[s].find(p))}
                except Exception as e:  # noqa: BLE001
                    cm.reraise_timeout(e)
                    r = {"error": cm.exc_name(e)}
                found.append([n["id"], s, r])
        return fq, found

    def run_impl(self, case):
        fq, found = self._observe(case)
        return {"fq": fq, "found": found}

    # -------------------------------------------------------------- oracle
    def oracle(self, case):
        try:
            root, byid, label = cm.build_case(case)
        except cm.ShapeMismatch as e:
            return _real_tree_failures(e.root, e.msg)
        fails = []
        if root.fq_name() != "/":
            fails.append({"clause": "root-is-slash", "expected": "/", "observed": root.fq_name()})
        for n in cm.preorder(case["tree"]):
            el = byid[n["id"]]
            try:
                p = el.fq_name()
            except Exception as e:  # noqa: BLE001
                cm.reraise_timeout(e)
                fails.append({"clause": "fq_name-raises", "element": n["id"], "expected": "a path", "observed": cm.exc_name(e)})
                continue
            for s in case["starts"]:
                try:
                    got = byid[s].find(p)
                    ok = len(got) == 1 and got[0] is el
                    obs = cm.labels(label, got)
                except Exception as e:  # noqa: BLE001
                    cm.reraise_timeout(e)
                    ok, obs = False, cm.exc_name(e)
                if not ok:
                    # every failure is reported and classified on what was observed (no de-duplication)
                    fails.append({"clause": "inverse", "element": n["id"], "start": s, "fq_name": cm.enc(p),
                                  "expected": [n["id"]], "observed": obs})
        # removed members: each is the root of its own tree — fq_name() relative to it, found from inside it
        for rec in case.get("removed", []):
            r_el = byid[rec["id"]]
            for n in cm.preorder(rec["node"]):
                el = byid[n["id"]]
                want_fq = cm.doc_fq(rec["node"], n["id"])
                try:
                    p = el.fq_name()
                    fq_obs = cm.enc(p)
                except Exception as e:  # noqa: BLE001
                    cm.reraise_timeout(e)
                    p, fq_obs = None, {"error": cm.exc_name(e)}
                for s_el, s_id in ((r_el, rec["id"]), (el, n["id"])):
                    obs = None
                    if p is not None:
                        try:
                            got = s_el.find(p)
                            obs = cm.labels(label, got)
                        except Exception as e:  # noqa: BLE001
                            cm.reraise_timeout(e)
                            obs = cm.exc_name(e)
                    if fq_obs != cm.enc(want_fq) or obs != [n["id"]]:
                        fails.append({"clause": "removed-inverse", "element": n["id"], "removed_root": rec["id"],
                                      "how": rec["how"], "start": s_id, "fq_name": fq_obs,
                                      "expected_fq": cm.enc(want_fq), "expected": [n["id"]], "observed": obs})
                    if s_el is el:
                        break
        return fails

    def classify(self, case, failure):
        """a failure belongs to an open finding only if BOTH the observed fq_name() and the observed
        find() outcome are what the finding predicts"""
        clause = failure.get("clause")
        if clause == "inverse":
            fid = _finding_of(case["tree"], failure["element"])
            if fid is None:
                return None
            # fq_name() prints the documented path in all three classes ...
            fq = cm.doc_fq(case["tree"], failure["element"])
            if failure.get("fq_name") != cm.enc(fq):
                return None
            # ... and find() reads it back as the grammar says: a segment ending in a backslash is glued to
            # the next with '/', a final '' vanishes and an inner '' is the step None, steps are looked up
            # among the KEYS of a mapping
            kind, val = cm.ref_eval(case["tree"], fq)
            predicted = [val] if kind == "ok" else val
            if predicted == [failure["element"]] or failure.get("observed") != predicted:
                return None
            return fid
        if clause == "removed-inverse":
            rec = [r for r in case.get("removed", []) if r["id"] == failure["removed_root"]]
            if not rec:
                return None
            rec = rec[0]
            rel = cm.doc_segments(rec["node"], failure["element"])
            if rec["how"] == "pop":
                # List.pop() clears the old slot's parent but leaves the member below that slot: the chain ends in
                # the slot, so fq_name() starts with the member's own name and find() starts at the slot
                # (an unnamed member is the empty step since 05c4adc — '//' — where fq_name() used to raise
                # AttributeError; derived from _path_segment / fq_name as they are now)
                name = rec["node"]["name"]
                fq = cm.fq_of_segments([cm.esc_name(name)] + rel)
                steps = cm.ref_read(fq)
                predicted = ["not-an-element"] if not steps else "NotImplementedError"
            elif rec["how"] == "replace":
                # lst[i] = <Element> swaps the element of the live slot: the old member still sits below that
                # slot, i.e. it answers with the path of the member that replaced it
                by_segs = cm.doc_segments(case["tree"], rec["by"])
                if by_segs is None:
                    return None
                fq = cm.fq_of_segments(by_segs + rel)
                kind, val = cm.ref_eval(case["tree"], fq)
                predicted = [val] if kind == "ok" else val
            else:
                # every other removal leaves the old slot (with its old position as name) pointing at the list
                lst_segs = cm.doc_segments(case["tree"], rec["list"])
                if lst_segs is None:
                    return None
                fq = cm.fq_of_segments(lst_segs + [str(rec["old"])] + rel)
                kind, val = cm.ref_eval(case["tree"], fq)
                predicted = [val] if kind == "ok" else val
            if failure["fq_name"] == cm.enc(fq) and failure["observed"] == predicted:
                return "KF-C13-d"
            return None
        return None

    # -------------------------------------------------------------- evidence
    def nontrivial(self, case, obs):
        return len(obs["fq"]) >= 3

    def tags(self, case, obs):
        nodes = list(cm.preorder(case["tree"]))
        t = ["elements=%d" % min(len(nodes), 40)]
        for k in sorted({n["k"] for n in nodes}):
            t.append("kind:%s" % k)
        depth = max(len(_path_nodes(case["tree"], n["id"])) for n in nodes)
        t.append("depth=%d" % depth)
        names = [n["name"] for n in nodes if n["name"] is not None]
        if any(c in nm for nm in names for c in "/[]."):
            t.append("names:punctuation")
        if any("\\" in nm for nm in names):
            t.append("names:backslash")
        if any(nm.isdigit() for nm in names):
            t.append("names:digits-only")
        if any(ord(c) > 127 for nm in names for c in nm):
            t.append("names:non-ascii")
        if any(nm in (".", "..") for nm in names):
            t.append("names:dot-or-dotdot")
        fids = {_finding_of(case["tree"], n["id"]) for n in nodes}
        for f in sorted(x for x in fids if x):
            t.append("in-class:%s" % f)
        if fids == {None}:
            t.append("all-addressable")
        for n in nodes:
            ch = _path_nodes(case["tree"], n["id"])
            un = [i for i, (par, c) in enumerate(ch) if par["k"] in ("d", "c") and c["name"] is None]
            if un:
                t.append("unnamed-field:on-the-way" if un[-1] < len(ch) - 1 else "unnamed-field:subject")
                t.append("unnamed-field:depth=%d" % min(un[0] + 1, 4))
                if any(par["k"] == "l" for par, c in ch):
                    t.append("unnamed-field:below-a-list-member")
        for s_id in case["starts"]:
            ch = _path_nodes(case["tree"], s_id) if any(x["id"] == s_id for x in nodes) else []
            if any(par["k"] in ("d", "c") and c["name"] is None for par, c in ch):
                t.append("unnamed-field:start")
        # territory of find_fq_iff: spellable positions (no '' / non-final trailing-backslash Dict names on the way)
        for n in nodes:
            f = _finding_of(case["tree"], n["id"])
            if f == "KF-C13-c" and _spellable(case["tree"], n["id"]):
                t.append("iff:spellable-not-addressable")
            elif f is None:
                t.append("iff:spellable-addressable")
            elif f in ("KF-C13-a", "KF-C13-b"):
                t.append("unspellable:%s" % f)
        ok = sum(1 for f in obs["found"] if f[2] == {"list": [f[0]]})
        t.append("found-ok=%d%%" % (100 * ok // max(1, len(obs["found"])) // 10 * 10))
        pm = cm.parent_map(case["tree"])
        if any(pm[n["id"]] is not None and pm[n["id"]]["k"] == "l" and n["k"] == "l" for n in nodes):
            t.append("list-in-list")
        if any("sparse" in n for n in nodes):
            t.append("has-sparse-dict")
        hist = case.get("history") or []
        t.append("history=%d" % len(hist))
        for rec in case.get("removed", []):
            t.append("removed-member:%s" % rec["how"])
        for i, op in enumerate(hist):
            t.append("listop:%s" % op["op"])
            if op["op"] == "rejected":
                t.append("rejected:%s" % op["kind"])
                later = [o["op"] for o in hist[i + 1:] if o["op"] not in ("query", "setfield") and o["at"] == op["at"]]
                if not later:
                    t.append("rejected-then:nothing-on-that-list")
                elif all(o in ("append", "iadd", "extend", "rejected") for o in later):
                    t.append("rejected-then:non-renumbering-ops-only")
                else:
                    t.append("rejected-then:renumbering-op")
                continue
            if op.get("detached"):
                t.append("listop:graft-detached-element")
                if op.get("pre"):
                    t.append("listop:queried-before-graft")
            if op["op"] in ("setfield", "query"):
                continue
            if op.get("i", 0) < -1:
                t.append("listop:negative-index")
            if len(op["at"]) >= 2:
                t.append("listop:nested-list")
        return sorted(set(t))

    def shrink_candidates(self, case):
        if case.get("history"):
            # drop one operation of the history (re-simulated from the initial tree)
            h = case["history"]
            for i in range(len(h)):
                h2 = h[:i] + h[i + 1:]
                try:
                    t = cm.simulate(case["init"], h2)
                except Exception:  # noqa: BLE001 — the shorter history is not applicable
                    continue
                ids = {n["id"] for n in cm.preorder(t)}
                yield self._case(t, [s for s in case["starts"] if s in ids] or [t["id"]], case["init"], h2)
            if len(case["starts"]) > 1:
                yield dict(case, starts=case["starts"][:1])
            return
        for t in cm.shrink_tree_variants(case["tree"], keep_ids=()):
            ids = {n["id"] for n in cm.preorder(t)}
            yield {"tree": t, "starts": [s for s in case["starts"] if s in ids] or [t["id"]]}
        if len(case["starts"]) > 1:
            yield {"tree": case["tree"], "starts": case["starts"][:1]}
        # simplify names
        for n in cm.preorder(case["tree"]):
            if n["name"] and len(n["name"]) > 1:
                for i in range(len(n["name"])):
                    c = copy.deepcopy(case["tree"])
                    m = cm.node_by_id(c, n["id"])
                    m["name"] = n["name"][:i] + n["name"][i + 1:]
                    yield {"tree": c, "starts": case["starts"]}


C13.rule = (
    "random schemas over Dict/List(lists in lists)/DateYYYYMMDD/Array/MultiValue/JoinedString/String, field names "
    "from pools: plain, digits-only (incl. '-1', '007', ' 1', Arabic-Indic), path punctuation ('/', '[', ']', '.', "
    "'..', 'a/b', '[1:2]', 'x/..'), backslashes (inside, before '.'/']', doubled, trailing), non-ASCII/whitespace, empty; 50% "
    "of trees only use names the theorem covers; 45% of the trees are reached through a history of 1-4 list mutations "
    "(pop incl. negative indexes, insert, del item/slice incl. extended and negative-step slices, slice assignment, "
    "reverse, sort, remove, +=, append on random List nodes at any depth, and SparseDict item assignment of an instance "
    "of a renamed subclass of the field schema, through the public API; paths are evaluated from random elements in "
    "between, and half of the inserted members are built as free-standing elements, queried (absolute and relative "
    "paths, from inside them) and only then grafted as Element objects (append/insert/slice/item assignment/+=), and "
    "are start elements of the final evaluation; in two thirds of those histories each operation is with "
    "probability 0.3 / 0.5 a REJECTED one — insert / slice assignment / extend / += / append of a value the member "
    "schema rejects by raising (an undeclared key for Dict and SparseDict members, also nested in List members), "
    "insert / item assignment with a non-integer index, item assignment / del / pop out of range or on an empty "
    "list, slice assignment / extend of a non-iterable, remove of an absent value (lists of scalars) — caught, then "
    "0-2 further successful operations, preferably on the same list and preferably append / += (which do not "
    "renumber); the description is simulated with 'a rejected operation leaves the list as it was' (extend / += keep "
    "the members before the rejected one), so the model sees "
    "the resulting tree, whose slot names are positional — the Lean tree is built from that description, not "
    "extracted from the real tree, so a rejected operation that leaves something behind shows as a disagreement, "
    "and when the real tree cannot be matched to the description the oracle states C13 label-free on the real tree "
    "(every element of root.all_children, from the root and from the last element; clause inverse-real-tree)); every element's fq_name() is evaluated from the root and 3 random "
    "elements; non-trivial = tree of >= 3 elements")

PROP = C13()
