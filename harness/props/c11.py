"""C11 — generated markup cannot be broken out of by data."""
import copy
import html
import re

from harness.core import Property, CaseTimeout
from harness.props import markup_common as mc
from harness.props.markup_common import S, M, B, I

PROP_TAGS = ["form", "input", "textarea", "button", "select", "option", "label"]
VOIDS = ["area", "base", "br", "col", "embed", "hr", "img", "input", "link", "meta", "param", "source", "track", "wbr"]
FREE_TAGS = PROP_TAGS + ["div", "span", "p", "a", "br", "img", "hr", "meta", "link", "h1", "DIV", "Input", "TextArea",
                         "x-custom", "svg:rect", "a1", "t_t", "x.y", "li", "td", "b"]
ATTR_NAMES = ["type", "value", "name", "id", "class_", "for_", "for", "checked", "selected", "tabindex", "title", "style",
              "data-x", "x:y", "alt", "href", "a_", "a", "a__", "zz", "b1", "placeholder"]
TYPE_VALUES = ["text", "hidden", "submit", "checkbox", "radio", "password", "file", "image", "", "TEXT", "email", "CHECKBOX", "Radio"]
OPTION_KEYS = ["auto_name", "auto_value", "auto_domid", "auto_for", "auto_tabindex", "auto_filter"]
TROOL_TEXT = ["on", "off", "auto", "ON", "yes", "no", "1", "0", "true", "false", "t", "nil", "maybe?", ""]
GENERATED = {"name", "value", "id", "for", "tabindex", "checked", "selected"}
DOMID_FORMATS = ["f_%s", "%s", "id-%s-x", "f\"<%s>&", "%%%s", "'%s'", "&%s;"]
ID_INVALID = re.compile(r"[^A-Za-z0-9_:.\-]")


def _render(case):
    """str(generator.<tag>(bind, **kwargs)) on the real library"""
    from flatland.out.markup import Generator, Tag
    gen = Generator(case["markup"], **mc.kwargs_of(case["settings"]))
    bind = mc.make_bind(case["bind"])
    kwargs = mc.kwargs_of(case["kwargs"])
    if case["via"] == "prop":
        out = getattr(gen, case["tag"])(bind, **kwargs)
    else:
        out = gen.tag(case["tag"], bind, **kwargs)
        if isinstance(out, Tag):
            out = out()
    return str(out)


def _apply_pre(gen, pool, op):
    """one pre-history call (see harness/props/c12.py: same op format; a tag op carries C11's bind description) on the
    real generator, caught: exception class name or None"""
    try:
        kind = op["op"]
        if kind == "begin":
            gen.begin(**mc.kwargs_of(op["settings"]))
        elif kind == "end":
            gen.end()
        elif kind == "set":
            gen.set(**mc.kwargs_of(op["settings"]))
        elif kind == "setitem":
            gen[op["key"]] = mc.to_py(op["value"])
        elif kind == "update":
            if op.get("pos") is not None:
                gen.update(mc.kwargs_of(op["pos"]), **mc.kwargs_of(op["settings"]))
            else:
                gen.update(**mc.kwargs_of(op["settings"]))
        elif kind == "tag":
            bind = "not an element" if op.get("badbind") else mc.make_bind(op["bind"])
            pool.render(op, bind, mc.kwargs_of(op["kwargs"]))
        else:
            raise ValueError(kind)
    except AssertionError:
        raise
    except CaseTimeout:
        raise
    except Exception as e:  # noqa
        return type(e).__name__
    return None


def _rand_pre_seq(rng, calls):
    """1-3 calls made (and caught) on the generator BEFORE the renderings: a settings call with an unknown option among
    valid ones / set() with an int option value / end() without begin() (all rejected: they change nothing), or a tag
    call that raises midway -- on the Tag object a later call holds (same handle), or a fresh one; through open() the
    failed Tag stays on the generator's open-tag stack and is what `gen.<tag>` hands out next"""
    from harness.props import c12
    ops = []
    for _ in range(rng.choice([1, 1, 2, 3])):
        r = rng.random()
        if r < 0.35:
            ops.append(c12._pre_rejected_settings(rng))
        elif r < 0.42:
            ops.append({"op": "end"})
        else:
            like = rng.choice(calls)
            tag, via = like["tag"], like["via"]
            void = tag.lower() in VOIDS
            op = {"op": "tag", "tag": tag, "via": via, "handle": like.get("handle") if rng.random() < 0.7 else None,
                  "how": "call" if void else rng.choice(["call", "open", "open", "openclose"]), "badbind": False,
                  "bind": {"kind": "scalar", "name": "pre", "u": rng.choice(["left over", "</textarea><b>", "x"])}}
            if rng.random() < 0.25:
                op.update(badbind=True, bind=None, kwargs=[["auto_name", S("on")]])
            elif void and rng.random() < 0.3:
                op.update(how="open", kwargs=[])             # open() of a void element: ValueError before anything
            else:
                op["kwargs"] = [[rng.choice(["rows", "cols", "data-x", "title"]), B(True)]]     # a non-text attribute value
            ops.append(op)
    return ops


def _reference_seq(case):
    """the oracle's own settings stack over the pre-history (c12.SettingsRef): -> (settings in force as a pair list,
    [(expected exception, kind)] per call)"""
    from harness.props import c12
    ref = c12.SettingsRef(case["settings"])
    outcome = []
    for op in case.get("pre") or []:
        o = dict(op)
        if op["op"] == "tag":
            o["tag"] = op["tag"].lower() if op.get("via") == "tag" else op["tag"]
        outcome.append(ref.expect(o))
    eff = {}
    for lv in reversed(ref.levels):
        eff.update(lv)
    return [[k, v] for k, v in eff.items()], outcome


def _render_seq(case, pre_errs=None):
    """the pre-history (each call caught), then several renderings on ONE generator, through held Tag objects where the
    call says so; -> [(out, contents, err)]"""
    from flatland.out.markup import Generator
    gen = Generator(case["markup"], **mc.kwargs_of(case["settings"]))
    pool = mc.TagPool(gen)
    res = []
    for op in case.get("pre") or []:
        err = _apply_pre(gen, pool, op)
        if pre_errs is not None:
            pre_errs.append(err)
    for c in case["calls"]:
        try:
            out, contents = pool.render(c, mc.make_bind(c["bind"]), mc.kwargs_of(c["kwargs"]))
            res.append((out, contents, None))
        except AssertionError:
            raise
        except CaseTimeout:
            raise
        except Exception as e:  # noqa
            res.append((None, None, type(e).__name__))
    return res


def _rand_seq(rng):
    """2-6 renderings sharing one generator; tags of the same name share one held Tag object most of the time, in the
    order the generator produced them (filled bodies before empty ones included)"""
    calls = []
    held = rng.random() < 0.8
    base = None
    for _ in range(rng.randint(2, 6)):
        c = _rand_case(rng)
        if base is not None and rng.random() < 0.6:
            # same tag again, other data: what a held Tag object is for
            c["tag"], c["via"] = base["tag"], base["via"]
        if c["tag"].lower() == "textarea" and c["bind"] is not None and c["bind"]["kind"] == "scalar" and rng.random() < 0.4:
            c["bind"]["u"] = ""
        base = base or c
        c.pop("markup", None)
        c.pop("settings", None)
        void = c["tag"].lower() in VOIDS
        if held and rng.random() < 0.85:
            c["handle"] = "%s/%s" % (c["via"], c["tag"].lower())
        c["how"] = "call" if void or rng.random() < 0.5 else "openclose"
        c["parse"] = False
        calls.append(c)
    case = {"k": "seq", "markup": rng.choice(["xml", "xhtml", "html"]),
            "settings": [["ordered_attributes", B(rng.random() < 0.5)]] if rng.random() < 0.4 else [], "calls": calls}
    if rng.random() < 0.5:
        case["pre"] = _rand_pre_seq(rng, calls)
    return case


def _rand_bind(rng):
    r = rng.random()
    if r < 0.25:
        return None
    name = mc.hostile(rng, 6)
    if r < 0.85:
        return {"kind": "scalar", "name": name, "u": mc.hostile(rng, 10)}
    if r < 0.93:
        tru = rng.choice(["1", "yes", "T<\"&>", "on"])
        u = rng.choice([tru, "", "zz" + mc.hostile(rng, 4)])
        if u in ("on", "true", "True", "1", "off", "false", "False", "0") and u != tru:
            u = tru
        return {"kind": "bool", "name": name, "true": tru, "u": u}
    strip = rng.random() < 0.5
    members = []
    for _ in range(rng.randint(0, 3)):
        m = mc.hostile(rng, 5)
        members.append(m.strip() if strip else m)
    return {"kind": "array", "name": name, "strip": strip, "members": members, "u": mc.array_u(members)}


HOSTILE_NAMES = ["a\tb", "a\nonclick=x", "CLASS", "x\0y", 'a"b', "a b", "a>b", "a/b", "a=b", "é", "x<y", "a'b", "Data-X", "a\rb",
                 "a\x0cb", "_", "1a"]
NAME_GRAMMAR = re.compile(r"[A-Za-z][A-Za-z0-9_:.\-]*\Z")


def _hostile_name_case(rng):
    """tag / attribute NAMES outside the declared grammar.  Names are chosen by the template author (identifiers in
    template source), not data: the property does not speak about them and the oracle skips these cases; they are
    generated so that model and code are compared on them too (what the generator emits is still pinned)."""
    c = _rand_case(rng)
    while c["k"] != "tag":
        c = _rand_case(rng)
    if rng.random() < 0.5:
        c["via"], c["tag"] = "tag", rng.choice(HOSTILE_NAMES)
    else:
        c["kwargs"].insert(rng.randint(0, len(c["kwargs"])), [rng.choice(HOSTILE_NAMES), S(mc.hostile(rng, 6))])
    c["parse"] = False
    c["hostile_names"] = True
    return c


def _names_in_grammar(case):
    """tag (for tag()) and every attribute name (after '_' stripping) are of the declared grammar; attribute names lower case"""
    if case["via"] == "tag" and not NAME_GRAMMAR.match(case["tag"]):
        return False
    for k, _ in case["kwargs"]:
        k = k.rstrip("_")
        if not NAME_GRAMMAR.match(k) or k != k.lower():
            return False
    return True


def _rand_case(rng):
    via = "prop" if rng.random() < 0.5 else "tag"
    tag = rng.choice(PROP_TAGS) if via == "prop" else rng.choice(FREE_TAGS)
    settings = []
    if rng.random() < 0.5:
        settings.append(["ordered_attributes", B(rng.random() < 0.5)])
    if rng.random() < 0.35:
        settings.append(["auto_domid", rng.choice([B(True), S("on"), S("auto")])])
    if rng.random() < 0.25:
        settings.append(["auto_for", B(True)])
    if rng.random() < 0.25:
        settings.append(["domid_format", S(rng.choice(DOMID_FORMATS))])
    if rng.random() < 0.2:
        settings.append(["auto_tabindex", B(True)])
        settings.append(["tabindex", I(rng.choice([1, 5, 100, -1, 0]))])
    bind = _rand_bind(rng)
    kwargs = []
    raw_markup = False
    names = rng.sample(ATTR_NAMES, rng.choice([0, 1, 1, 2, 2, 3, 4, 6]))
    if tag.lower() == "input" and "type" not in names and rng.random() < 0.7:
        names.insert(rng.randint(0, len(names)), "type")
    for n in names:
        if n == "type" and rng.random() < 0.8:
            v = S(rng.choice(TYPE_VALUES))
        else:
            s = mc.hostile(rng, 8)
            r = rng.random()
            if r < 0.08:
                v = M(html.escape(s, quote=True))      # author markup that is well-formed
            elif r < 0.11:
                v = M(s)                                # author markup, verbatim (may be anything)
                raw_markup = True
            else:
                v = S(s)
        kwargs.append([n, v])
    for k in OPTION_KEYS:
        if rng.random() < 0.12:
            v = rng.choice([S(rng.choice(TROOL_TEXT)), B(True), B(False), mc.MAYBE])
            kwargs.insert(rng.randint(0, len(kwargs)), [k, v])
    flavour = "none"
    intended_text = None
    r = rng.random()
    if r < 0.12:
        intended_text = mc.hostile(rng, 8)
        esc = html.escape(intended_text, quote=False)
        kwargs.insert(rng.randint(0, len(kwargs)), ["contents", S(esc) if rng.random() < 0.5 else M(esc)])
        flavour = "escaped"
    elif r < 0.18:
        c = rng.choice(["<b>x</b>", "<strong>contents</strong>", "a<br>b", mc.hostile(rng, 6), "  padded  "])
        kwargs.insert(rng.randint(0, len(kwargs)), ["contents", S(c) if rng.random() < 0.5 else M(c)])
        flavour = "raw"
        raw_markup = True
    return {"k": "tag", "markup": rng.choice(["xml", "xhtml", "html"]), "settings": settings, "via": via, "tag": tag,
            "bind": bind, "kwargs": kwargs, "parse": flavour == "none" and not any(v["t"] == "m" for _, v in kwargs),
            "contents_flavour": flavour, "intended_text": intended_text, "raw_markup": raw_markup}


def _author_attrs(case):
    """intended attribute strings the author passed: rstrip('_'), later duplicates win"""
    out = {}
    for k, v in case["kwargs"]:
        if k == "contents" or k in OPTION_KEYS:
            continue
        key = k.rstrip("_")
        if v["t"] == "s":
            out[key] = v["v"]
        elif v["t"] == "m":
            out[key] = html.unescape(v["v"])
    return out


def _setting(case, key, default):
    val = default
    for k, v in case["settings"]:
        if k == key:
            val = v["v"] if "v" in v else None
    return val


class C11(Property):
    id = "C11"
    title = "generated markup cannot be broken out of by data"
    proof_module = "Proofs.C11"
    theorems = [
        "Flatland.C11.Proofs.chain_is_simultaneous",
        "Flatland.C11.Proofs.no_breakout_attr",
        "Flatland.C11.Proofs.no_breakout_text",
        "Flatland.C11.Proofs.decode_escape_any",
        "Flatland.C11.Proofs.decodeRefs_escape",
        "Flatland.C11.Proofs.parse_render_generic",
        "Flatland.C11.Proofs.parse_render",
        "Flatland.C11.Proofs.transform_good",
        "Flatland.C12.Proofs.transform_frame",
        "Flatland.C11.Proofs.callTag_parses",
        "Flatland.C11.Proofs.x_unescapes",
        "Flatland.C11.Proofs.xa_unescapes",
        "Flatland.C11.Proofs.xa_attribute_safe",
        "Flatland.C11.Proofs.x_text_safe",
    ]
    generated_obligations = [
        "Flatland.C11.Proofs.attrChain_ok",
        "Flatland.C11.Proofs.textChain_ok",
        "Flatland.C11.Proofs.xChain_ok",
        "Flatland.C11.Proofs.xaChain_ok",
        "Flatland.C11.Proofs.voids_agree",
    ]
    level_text = "proof"
    level_note = ("escape chains are regenerated from the source and the theorems re-instantiated by `decide` on every run; "
                  "callTag_parses carries the statement through the hand-written model of the transforms; that model's "
                  "agreement with the code and html.parser's agreement with the mini parser rest on correspondence.  "
                  "FAILURE / RECOVERY PATHS (seq cases, correspondence + oracle): half of the seq cases make 1-3 calls, each "
                  "caught, on the same generator BEFORE the renderings -- a settings call with an unknown option among valid "
                  "ones (begin / set / update with positional mapping and keywords / []=; every position), set() with an int "
                  "option value, end() without begin(), or a tag call that raises midway (non-text attribute value after the "
                  "transforms stored the body; a bind that is not an element; open() of a void element) on the Tag object a "
                  "later rendering holds or on a fresh one (a failed open() leaves the Tag on the generator's open-tag stack).  "
                  "Every rendering that follows is held to the single-call statement under the settings the ORACLE's own "
                  "reference has in force (c12.SettingsRef: a rejected call changes nothing); the runner makes the settings "
                  "calls through the C19 model (Flatland.C19.step) and the tag calls through Gen.renderHow (stateless in the Tag "
                  "object); theorems about that: Proofs/C12Rejected.lean (failed_settings_call_keeps_generator, "
                  "rejected_call_preserves_rendering), audited by the C12 check")
    technique = "generic theorems over .replace chains + decidable side condition on regenerated tables; parse∘render = id"
    trusted_base = [
        "python html.parser (3.12.1) as the 'standard HTML parser' of the statement; the Lean mini parser covers exactly the "
        "generator's output grammar and is compared with html.parser on every data-only case",
        "html.parser 3.12 differs from the WHATWG tokenizer on characters the generator does use: it keeps NUL (WHATWG: U+FFFD) and "
        "CR / CRLF (WHATWG: LF) verbatim and does not drop the newline after <textarea>; 'attributes and text equal the "
        "intended strings' is established relative to html.parser; no break-out is affected (KF-C12-f records the textarea newline)",
        "explicit contents= and Markup(...) values are author-supplied markup, tag/attribute names author-chosen identifiers",
    ]
    assumptions = [
        "BOUNDARY: the property is about DATA (element names, element text, attribute values).  Tag names and attribute names "
        "are chosen by the template author; the theorems assume the grammar [A-Za-z][A-Za-z0-9_:.-]* in lower case (lowerName), the "
        "oracle skips cases with names outside it (a newline or '=' in a tag name does split the tag: tag('a\\nonclick=x') "
        "parses as <a onclick=x>); such names are still generated and compared model-vs-code",
        "attribute values are str or Markup; bool/Maybe only for auto_* options; element text is an exact str (el.set(Markup(..)) "
        "leaves a Markup in el.u, which renders verbatim: author-marked markup, not data)",
        "strings contain no lone surrogates",
        "pre-history of a seq case: rejected settings calls and failing tag calls only (no accepted settings call is generated; "
        "if shrinking produces one, the oracle's reference applies it); a non-element bind is a str with auto_name forced on",
    ]
    rule = ("one Generator call per case: tag kind (7 properties + tag() with void/non-void/custom/upper-case names), markup "
            "xml/xhtml/html, ordered/unordered attributes, optional bind (String/Boolean/Array with hostile name and text), 0-6 "
            "author attributes with hostile values (text, escaped Markup, verbatim Markup), tag-level auto_* options, optional "
            "domid/for/tabindex settings, optional contents; plus Element.x/.xa cases.  Hostile alphabet: quotes, angle brackets, "
            "ampersand, ;, #, control characters, NUL, closing-tag look-alikes, half-finished references, non-BMP.  non-trivial = "
            "some data string contains one of \" < > & or a control character; seq cases (4%): 2-6 renderings on one generator, "
            "half of them after a pre-history of 1-3 rejected generator calls / failing tag calls (tags pre=<n>, "
            "pre-rej=<kind>:<call>:<position>, pre-tag:<how>:<same-held-Tag|fresh-Tag>); distinct = distinct canonical case JSON")
    quick_n = 100000
    case_timeout = 60      # the machine is shared: a stalled worker must not look like a hang of the library
    thorough_n = 600000

    # ------------------------------------------------------------------ cases
    def corpus(self):
        base = {"k": "tag", "markup": "xhtml", "settings": [], "via": "prop", "parse": True, "contents_flavour": "none",
                "intended_text": None, "raw_markup": False}
        cases = [
            dict(base, tag="input", bind={"kind": "scalar", "name": 'a"b', "u": '"><script>'},
                 kwargs=[["type", S("text")], ["class_", S("x\" onclick=\"y")]]),
            dict(base, tag="textarea", bind={"kind": "scalar", "name": "t", "u": "</textarea><b>&amp;"}, kwargs=[]),
            dict(base, markup="html", via="tag", tag="IMG", bind=None, kwargs=[["alt", S("a>b<c&d\"e'f")]]),
            dict(base, tag="input", bind={"kind": "scalar", "name": "n", "u": "v"},
                 settings=[["auto_domid", B(True)], ["domid_format", S("f\"<%s>&")]],
                 kwargs=[["type", S("radio")], ["value", S("x y\"<z")]]),
            {"k": "sugar", "u": "a&b<c>d\"e\nf\rg\th'&amp;&#10;"},
            {"k": "sugar", "u": ""},
            # one held textarea object: a filled body, then an element whose text is empty (nothing may be left over)
            {"k": "seq", "markup": "xhtml", "settings": [], "calls": [
                dict(base, tag="textarea", bind={"kind": "scalar", "name": "n0", "u": "first <b>"}, kwargs=[], handle="t", how="call", parse=False),
                dict(base, tag="textarea", bind={"kind": "scalar", "name": "n1", "u": ""}, kwargs=[], handle="t", how="call", parse=False),
                dict(base, tag="textarea", bind={"kind": "scalar", "name": "n2", "u": "x"}, kwargs=[], handle="t", how="openclose", parse=False),
                dict(base, tag="textarea", bind={"kind": "scalar", "name": "n3", "u": ""}, kwargs=[], handle="t", how="openclose", parse=False)]},
            # seeded mutation C11-tag-open-keeps-stale-contents, the failure / recovery path: open() raises midway (rows=True
            # is not text) AFTER the transforms stored the body; the Tag stays on the generator's open-tag stack and serves
            # the next, empty, field -- through gen.textarea (fresh handle), and through a held reference
            {"k": "seq", "markup": "html", "settings": [],
             "pre": [{"op": "tag", "tag": "textarea", "via": "prop", "handle": None, "how": "open", "badbind": False,
                      "bind": {"kind": "scalar", "name": "notes", "u": "</textarea><script>alert(\"x\")</script> & <b>"},
                      "kwargs": [["rows", B(True)]]}],
             "calls": [
                dict(base, tag="textarea", bind={"kind": "scalar", "name": "bio", "u": ""}, kwargs=[], how="call", parse=False),
                dict(base, tag="textarea", bind={"kind": "scalar", "name": "bio", "u": ""}, kwargs=[], how="openclose", parse=False)]},
            {"k": "seq", "markup": "xhtml", "settings": [],
             "pre": [{"op": "tag", "tag": "button", "via": "prop", "handle": "b", "how": "call", "badbind": False,
                      "bind": {"kind": "scalar", "name": "pre", "u": "left over"}, "kwargs": [["title", B(True)]]},
                     {"op": "tag", "tag": "button", "via": "prop", "handle": "b", "how": "open", "badbind": True, "bind": None,
                      "kwargs": [["auto_name", S("on")]]},
                     {"op": "end"}],
             "calls": [
                dict(base, tag="button", bind={"kind": "scalar", "name": "n1", "u": ""}, kwargs=[], handle="b", how="call", parse=False),
                dict(base, tag="button", bind=None, kwargs=[], handle="b", how="openclose", parse=False)]},
            # seeded mutation C12-context-update-kwargs-after-precheck: a rejected update() must not switch auto_name /
            # auto_value off for the renderings that follow
            {"k": "seq", "markup": "xhtml", "settings": [],
             "pre": [{"op": "update", "pos": None, "settings": [["auto_name", B(False)], ["auto_value", S("off")], ["no_such", B(True)]]},
                     {"op": "update", "pos": [["auto_value", B(False)]], "settings": [["auto_nmae", B(True)]]}],
             "calls": [
                dict(base, tag="input", bind={"kind": "scalar", "name": 'a"b', "u": '"><script>'}, kwargs=[["type", S("text")]], how="call", parse=False),
                dict(base, tag="textarea", bind={"kind": "scalar", "name": "t", "u": "x < y"}, kwargs=[], how="openclose", parse=False)]},
        ]
        return cases

    def exhaustive(self, tier):
        # every string of length <= 2 (quick) / 3 (thorough) over the characters the chains touch, for .x/.xa
        import itertools
        alphabet = ['&', '<', '>', '"', '\n', '\r', '\t', ';', '#', 'a', '1']
        for n in range(0, 3 if tier == "quick" else 4):
            for tup in itertools.product(alphabet, repeat=n):
                yield {"k": "sugar", "u": "".join(tup)}

    exhaustive_note = "Element.x/.xa on every string of length <= 2 (quick) / <= 3 (thorough) over & < > \" \\n \\r \\t ; # a 1"

    def generate(self, rng, n, tier):
        for _ in range(n):
            r = rng.random()
            if r < 0.12:
                yield {"k": "sugar", "u": mc.hostile(rng, 12)}
            elif r < 0.15:
                yield _hostile_name_case(rng)
            elif r < 0.19:
                yield _rand_seq(rng)
            else:
                yield _rand_case(rng)

    # ------------------------------------------------------------------ real implementation
    def run_impl(self, case):
        if case["k"] == "sugar":
            import flatland
            el = flatland.String.using(strip=False)()
            el.set(case["u"])
            assert el.u == case["u"]
            return {"x": mc.safe(el.x), "xa": mc.safe(el.xa), "x_dec": mc.safe(html.unescape(el.x)),
                    "xa_dec": mc.safe(html.unescape(el.xa))}
        if case["k"] == "seq":
            pre_errs = []
            outs = [{"out": mc.safe(o), "contents": mc.safe(c), "err": e} for o, c, e in _render_seq(case, pre_errs)]
            return {"init_err": None, "pre": [{"err": e} for e in pre_errs], "outs": outs}
        try:
            out = _render(case)
        except AssertionError:
            raise
        except CaseTimeout:
            raise
        except Exception as e:  # noqa
            return {"out": None, "err": type(e).__name__, "parsed": None}
        parsed = None
        if case["parse"]:
            parsed = mc.single_element(mc.parse_events(out), VOIDS)
            if parsed is not None:
                parsed = {"tag": mc.safe(parsed["tag"]), "text": mc.safe(parsed["text"]),
                          "attrs": [[mc.safe(k), mc.safe(v)] for k, v in parsed["attrs"]]}
        return {"out": mc.safe(out), "err": None, "parsed": parsed}

    # ------------------------------------------------------------------ oracle (spec B on the real code)
    def oracle(self, case):
        if case["k"] == "sugar":
            return self._oracle_sugar(case)
        if case["k"] == "seq":
            # every rendering of the sequence is held to the single-call statement: a Tag object or a generator must
            # not carry anything (a body, attributes) from one rendering into the next
            # A pre-history of calls on the same generator / the same held Tag comes first: the settings in force are the
            # oracle's own (a rejected call changes nothing), and a tag call that raised must leave nothing behind either
            fails = []
            pre_errs = []
            rendered = _render_seq(case, pre_errs)
            in_force, outcome = _reference_seq(case)
            for i, ((want, _), got) in enumerate(zip(outcome, pre_errs)):
                if want != got:
                    fails.append({"clause": "pre-history-outcome", "op": i, "expected": want, "observed": got})
            for i, (c, (out, _, err)) in enumerate(zip(case["calls"], rendered)):
                one = dict(c, k="tag", markup=case["markup"], settings=in_force)
                for f in self._oracle_one(one, out, err):
                    fails.append(dict(f, call=i))
            return fails
        try:
            out, err = _render(case), None
        except AssertionError:
            raise
        except CaseTimeout:
            raise
        except Exception as e:  # noqa
            out, err = None, type(e).__name__
        return self._oracle_one(case, out, err)

    def _oracle_one(self, case, out, err):
        if not _names_in_grammar(case):
            # tag / attribute names outside [A-Za-z][A-Za-z0-9_:.-]* are the template author's doing, not data
            return []
        fails = []
        if err is not None:
            return [{"clause": "renders", "expected": "markup", "observed": err}]
        events = mc.parse_events(out)
        want_tag = case["tag"].lower() if case["via"] == "tag" else case["tag"]
        flavour = case["contents_flavour"]
        if any(v["t"] == "m" and html.escape(html.unescape(v["v"]), quote=True) != v["v"]
               for k, v in case["kwargs"] if k != "contents"):
            # an attribute value given as verbatim (not well-formed) Markup is author markup by documented
            # design: nothing is promised about the result; such cases only feed the correspondence
            return fails
        if flavour == "raw":
            if not events or events[0][0] not in ("start", "startend"):
                return [{"clause": "one-element", "expected": "start tag first", "observed": events[:3]}]
            el = {"tag": events[0][1], "attrs": events[0][2], "text": None}
        else:
            el = mc.single_element(events, VOIDS)
            if el is None:
                return [{"clause": "one-element", "expected": "exactly one <%s> element" % want_tag, "observed": events[:6], "markup": out}]
        if el["tag"] != want_tag:
            fails.append({"clause": "tag-name", "expected": want_tag, "observed": el["tag"]})
        fails += self._check_attrs(case, el, want_tag)
        bind = case["bind"]
        if el["text"] is not None:
            cands = {""}
            if flavour == "escaped":
                cands = {case["intended_text"]}
            if want_tag == "textarea" and bind is not None:
                touched = any(k == "auto_value" for k, _ in case["kwargs"] + case["settings"])
                if flavour == "none" and not touched:
                    cands = {bind["u"]}
                else:
                    cands = cands | {bind["u"]}
            if want_tag in VOIDS:
                cands = {""}
            if el["text"] not in cands:
                fails.append({"clause": "text-content", "expected": sorted(cands), "observed": el["text"], "markup": out})
        return fails

    def _check_attrs(self, case, el, want_tag):
        fails = []
        author = _author_attrs(case)
        bind = case["bind"]
        names = [k for k, _ in el["attrs"]]
        if len(set(names)) != len(names):
            fails.append({"clause": "no-extra-attributes", "expected": "distinct attribute names", "observed": names})
        fmt = _setting(case, "domid_format", "f_%s")
        cands = {k: set() for k in GENERATED}
        cands["checked"].add("checked")
        cands["selected"].add("selected")
        tb = _setting(case, "tabindex", 0)
        cands["tabindex"].add(str(tb))
        bases = []
        if bind is not None:
            cands["name"].add(bind["name"])
            cands["value"].add(bind["u"])
            if bind["kind"] == "bool":
                cands["value"].add(bind["true"])
            bases.append(bind["name"])
        # a Markup value that feeds a generated id is used as the str it is (not unescaped)
        verbatim = {k.rstrip("_"): v["v"] for k, v in case["kwargs"] if v["t"] in ("s", "m")}
        if bind is None and "name" in author:
            bases += [author["name"], verbatim["name"]]
        suffixes = [""]
        for src in (author.get("value"), verbatim.get("value"), bind["true"] if bind and bind["kind"] == "bool" else None,
                    bind["u"] if bind else None):
            if src is not None:
                suffixes.append(ID_INVALID.sub("", src))
        for b in bases:
            for sfx in suffixes:
                raw = b + ("_" + sfx if sfx else "")
                try:
                    cands["id"].add(fmt % raw)
                    cands["for"].add(fmt % raw)
                except (TypeError, ValueError):
                    pass
        for k, v in el["attrs"]:
            if k in author and v == author[k]:
                continue
            if k in GENERATED and v in cands[k]:
                continue
            fails.append({"clause": "attribute-values", "expected": {"author": author.get(k), "generated": sorted(cands.get(k, []))},
                          "observed": [k, v]})
        for k in author:
            if k not in names:
                if k in ("checked", "selected") or (k == "value" and want_tag == "label"):
                    continue
                fails.append({"clause": "attribute-lost", "expected": k, "observed": names})
        return fails

    def _oracle_sugar(self, case):
        import flatland
        el = flatland.String.using(strip=False)()
        el.set(case["u"])
        u = el.u
        fails = []
        if html.unescape(el.x) != u:
            fails.append({"clause": "x-unescapes", "expected": u, "observed": html.unescape(el.x)})
        if html.unescape(el.xa) != u:
            fails.append({"clause": "xa-unescapes", "expected": u, "observed": html.unescape(el.xa)})
        doc = '<a t="%s">%s</a>' % (el.xa, el.x)
        got = mc.single_element(mc.parse_events(doc), VOIDS)
        want = {"tag": "a", "attrs": [["t", u]], "text": u}
        if got != want:
            fails.append({"clause": "sugar-in-context", "expected": want, "observed": got})
        return fails

    # ------------------------------------------------------------------ coverage
    def _data_strings(self, case):
        if case["k"] == "sugar":
            return [case["u"]]
        if case["k"] == "seq":
            return [x for c in case["calls"] for x in self._data_strings(dict(c, k="tag"))]
        out = [v["v"] for _, v in case["kwargs"] if v["t"] in ("s", "m")]
        if case["bind"]:
            out += [case["bind"]["name"], case["bind"]["u"]]
        return out

    def nontrivial(self, case, obs):
        return any(re.search(r'["<>&\x00-\x1f]', s) for s in self._data_strings(case))

    def tags(self, case, obs):
        if case["k"] == "sugar":
            return ["kind=sugar", "len=%d" % min(len(case["u"]), 12)]
        if case["k"] == "seq":
            t = ["kind=seq", "calls=%d" % len(case["calls"])]
            if any(c.get("handle") is not None for c in case["calls"]):
                t.append("held-tag-object")
            if any(c.get("how") == "openclose" for c in case["calls"]):
                t.append("open-contents-close")
            pre = case.get("pre") or []
            t.append("pre=%d" % len(pre))
            if pre:
                for op, (e, kind) in zip(pre, _reference_seq(case)[1]):
                    t.append("pre-rej=%s" % kind if kind else "pre-ok=%s" % op["op"])
                    if op["op"] == "tag":
                        same = any(c.get("handle") is not None and c.get("handle") == op.get("handle") for c in case["calls"])
                        t.append("pre-tag:%s:%s" % (op.get("how", "call"), "same-held-Tag" if same else "fresh-Tag"))
            return sorted(set(t))
        t = ["kind=tag", "markup=%s" % case["markup"], "via=%s" % case["via"], "tag=%s" % case["tag"].lower(),
             "bind=%s" % (case["bind"]["kind"] if case["bind"] else "none"), "nkwargs=%d" % len(case["kwargs"]),
             "contents=%s" % case["contents_flavour"], "err=%s" % obs.get("err")]
        ordered = _setting(case, "ordered_attributes", True)
        t.append("ordered=%s" % ordered)
        if case["raw_markup"]:
            t.append("has-verbatim-markup")
        if not _names_in_grammar(case):
            t.append("names-outside-grammar(oracle-skipped)")
        if case["parse"]:
            t.append("parsed-compared")
        for k, _ in case["kwargs"]:
            if k in OPTION_KEYS:
                t.append("tag-option")
                break
        for ch, nm in (('"', "dq"), ("<", "lt"), (">", "gt"), ("&", "amp"), ("\0", "nul"), ("\n", "nl")):
            if any(ch in s for s in self._data_strings(case)):
                t.append("has-" + nm)
        return t

    # ------------------------------------------------------------------ shrinking
    def shrink_candidates(self, case):
        def shorter(s):
            if len(s) > 1:
                yield s[: len(s) // 2]
                yield s[len(s) // 2:]
                yield s[1:]
                yield s[:-1]
            elif len(s) == 1 and s != "a":
                yield "a"
        if case["k"] == "sugar":
            for s in shorter(case["u"]):
                yield dict(case, u=s)
            return
        if case["k"] == "seq":
            for i in range(len(case.get("pre") or [])):
                c = copy.deepcopy(case)
                del c["pre"][i]
                yield c
            for i in range(len(case["calls"])):
                c = copy.deepcopy(case)
                del c["calls"][i]
                if c["calls"]:
                    yield c
            for i, call in enumerate(case["calls"]):
                for j in range(len(call["kwargs"])):
                    c = copy.deepcopy(case)
                    k, _ = c["calls"][i]["kwargs"].pop(j)
                    if k == "contents":
                        c["calls"][i]["contents_flavour"], c["calls"][i]["intended_text"] = "none", None
                    yield c
            return
        for i in range(len(case["kwargs"])):
            c = copy.deepcopy(case)
            k, _ = c["kwargs"].pop(i)
            if k == "contents":
                c["contents_flavour"], c["intended_text"] = "none", None
            yield c
        for i in range(len(case["settings"])):
            c = copy.deepcopy(case)
            del c["settings"][i]
            yield c
        if case["bind"] is not None:
            yield dict(copy.deepcopy(case), bind=None)
            if case["bind"]["kind"] != "scalar":
                yield dict(copy.deepcopy(case), bind={"kind": "scalar", "name": case["bind"]["name"], "u": "x"})
            for fld in ("name", "u"):
                if case["bind"]["kind"] == "scalar":
                    for s in shorter(case["bind"][fld]):
                        c = copy.deepcopy(case)
                        c["bind"][fld] = s
                        yield c
        for i, (k, v) in enumerate(case["kwargs"]):
            if v["t"] == "s" and k != "contents":
                for s in shorter(v["v"]):
                    c = copy.deepcopy(case)
                    c["kwargs"][i][1]["v"] = s
                    yield c
        if case["markup"] != "xhtml":
            yield dict(copy.deepcopy(case), markup="xhtml")


PROP = C11()
