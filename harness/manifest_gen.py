"""Regenerate MANIFEST.json from the property modules that exist (keeps it valid at all times)."""
import json
import os
import sys

sys.path.insert(0, os.path.dirname(os.path.dirname(os.path.abspath(__file__))))
from harness import core  # noqa

ALL = ["C%02d" % i for i in range(1, 21)]
PENDING_REASON = "check not built yet in this round (work in progress; the design in DESIGN.md section 5 applies)"


def main():
    checks, na = [], []
    for pid in ALL:
        path = os.path.join(core.VERIF, "harness", "props", pid.lower() + ".py")
        if not os.path.exists(path):
            na.append({"property_id": pid, "reason": PENDING_REASON})
            continue
        prop = core.load_property(pid)
        checks.append({
            "property_id": pid,
            "quick_cmd": "./check %s --tier quick" % pid,
            "thorough_cmd": "./check %s --tier thorough" % pid,
            "evidence_file": "evidence/%s.json" % pid,
            "replay_cmd_template": "./check %s --replay {path}" % pid,
            "engine": "lean4-proof+correspondence",
            "level_claimed": {
                "category": "proof",
                "text": getattr(prop, "level_text", prop.title),
                "design_ref": "DESIGN.md section 5, %s" % pid,
            },
            "level_note": getattr(prop, "level_note", "; ".join(prop.trusted_base)),
            "technique": getattr(prop, "technique", "Lean 4 theorems about a hand-written model, tied to /repo by differential correspondence"),
        })
    man = {
        "version": 1,
        "setup_cmd": "./check --setup",
        "hooks": {
            "guard": "FLATLAND_VERIF",
            "enable": "no source hooks are needed: every observation uses public API; checks import /repo/src in-process (FLATLAND_VERIF=1 is exported but unused by the library)",
            "baseline_off_cmd": "cd /repo && /venv/bin/python -m pytest -ra -q -p no:cacheprovider --timeout=900",
            "source_commits": [],
            "add_only": True,
        },
        "engines": [{
            "name": "lean4-proof+correspondence",
            "path": "lean/ (lake project: Flatland = models+specs, Proofs = theorems, driver = line-protocol exe) + harness/ (Python)",
            "serves_properties": [c["property_id"] for c in checks],
            "kind_free_text": "Lean 4.33 machine-checked theorems over hand-written executable models; models tied to /repo/src on every run by "
                              "JSON line-protocol differential correspondence and by regeneration of tables extracted from the source; Python oracles "
                              "drive the failing-input search when an obligation or the correspondence breaks",
        }],
        "checks": checks,
        "notes": "Exit codes: 0 held (possibly with KNOWN-FINDING lines), 1 violation, 2 infrastructure failure. VERIF_SEED seeds every random choice. "
                 "See DESIGN.md for trusted base, model boundary and findings.",
        "not_applicable": na,
    }
    with open(os.path.join(core.VERIF, "MANIFEST.json"), "w") as f:
        json.dump(man, f, indent=1)
        f.write("\n")
    print("claimed:", [c["property_id"] for c in checks])


if __name__ == "__main__":
    main()
