#!/bin/bash
# usage: harness/seeded_rerun.sh [seeded-dir-name ...]   (default: all)
# Re-runs the registered check of each stored mutation against it: apply to /repo, ./check <id>, undo.
# Records the outcome in seeded/<name>/meta.json ("recheck"). /repo is always restored.
set -u
cd /verif
trap 'git -C /repo checkout -q -- .' EXIT
NAMES=("$@"); [ ${#NAMES[@]} -eq 0 ] && NAMES=($(ls seeded))
for NAME in "${NAMES[@]}"; do
  D="seeded/$NAME"; [ -f "$D/patch.diff" ] || continue
  PID=$(/venv/bin/python -c "import json;print(json.load(open('$D/meta.json'))['property'])")
  git -C /repo checkout -q -- .
  git -C /repo apply "/verif/$D/patch.diff" || { echo "$NAME: patch does not apply"; continue; }
  O=$(./check "$PID" 2>&1); RC=$?
  git -C /repo checkout -q -- .
  V=$(echo "$O" | grep -a "^VIOLATION" | head -1)
  echo "$NAME: rc=$RC $V"
  /venv/bin/python - "$D/meta.json" "$PID" "$RC" "$V" <<'PY'
import json,sys
f,pid,rc,v=sys.argv[1:5]
m=json.load(open(f)); m["recheck"]={"check":pid,"rc":int(rc),"line":v,"concrete_replay": (int(rc)==1 and "no-failing-input-found" not in v)}
json.dump(m,open(f,"w"),indent=1)
PY
done
