"""Shared machinery of the flatland verification checks.

One run of `./check Cxx`:
  1. re-extract generated tables from /repo's current source (harness/extract.py)
  2. `lake build` the model, the property's proof module and the driver; audit axioms
  3. corpus + generated cases: real implementation (in-process, /repo/src) || Lean model (driver)
     || Python oracle stating the property directly on the real code
  4. classify failures against known_findings.json, shrink, write replay files, print verdict
  5. write evidence/Cxx.json

Exit codes: 0 held, 1 violation (with VIOLATION line), 2 infrastructure failure.
"""
import fcntl
import hashlib
import importlib
import json
import multiprocessing as mp
import os
import random
import re
import signal
import subprocess
import sys
import time
import traceback

VERIF = os.path.dirname(os.path.dirname(os.path.abspath(__file__)))
LEAN = os.path.join(VERIF, "lean")
WORK = os.path.join(VERIF, ".work")
REPO = os.environ.get("FLATLAND_REPO", "/repo")
# a run against a scratch copy of the repository (mutation drills: FLATLAND_REPO=<copy>) is not evidence about /repo:
# its evidence and replay files go under .work/ and never overwrite evidence/
EVID = os.path.join(VERIF, "evidence") if os.path.realpath(REPO) == "/repo" else os.path.join(WORK, "scratch-evidence")
REPLAY = os.path.join(EVID, "replay")
DRIVER = os.path.join(LEAN, ".lake", "build", "bin", "driver")
ALLOWED_AXIOMS = {"propext", "Classical.choice", "Quot.sound"}
FORBIDDEN = re.compile(
    r"\bsorry\b|\badmit\b|^\s*axiom\s|native_decide|bv_decide|implemented_by|\bunsafe\s|maxHeartbeats\s+0"
)
NPROC = min(16, os.cpu_count() or 1)

os.environ.setdefault("FLATLAND_VERIF", "1")


def log(*a):
    print(*a, file=sys.stderr, flush=True)


def canon(o):
    return json.dumps(o, sort_keys=True, ensure_ascii=True, separators=(",", ":"))


def chash(o):
    return hashlib.sha1(canon(o).encode()).hexdigest()[:12]


# --------------------------------------------------------------------------------------
# property base class


class Property:
    id = "C00"
    title = ""
    # Lean theorem names (fully qualified) that constitute the proof obligations
    theorems = []
    # names of obligations that are `decide`-style instantiations on generated tables
    generated_obligations = []
    proof_module = None  # e.g. "Proofs.C05"
    trusted_base = []
    assumptions = []
    rule = ""
    quick_n = 2000
    thorough_n = 60000
    case_timeout = 10

    def corpus(self):
        """Hand-kept cases that run first (witnesses of findings, past disagreements)."""
        return []

    def exhaustive(self, tier):
        """Optional finite sub-space enumerated completely: iterator of cases."""
        return []

    def generate(self, rng, n, tier):
        raise NotImplementedError

    def run_impl(self, case):
        """Run the real flatland on the case; return a JSON-able observation."""
        raise NotImplementedError

    def oracle(self, case):
        """State the property directly on the real code. Returns list of failure dicts
        (empty = holds). Independent of the Lean model."""
        return []

    def nontrivial(self, case, obs):
        return True

    def tags(self, case, obs):
        return []

    def compare(self, impl_obs, model_obs):
        """None if the model's observation agrees with the implementation's."""
        if isinstance(model_obs, dict) and "driver_error" in model_obs:
            return "driver_error: %s" % model_obs["driver_error"]
        for k, v in impl_obs.items():
            if k.startswith("_"):
                continue
            if k not in model_obs:
                return "model lacks key %r" % k
            if canon(model_obs[k]) != canon(v):
                return "key %r: impl=%s model=%s" % (k, canon(v)[:300], canon(model_obs[k])[:300])
        if model_obs.get("spec_agrees") is False:
            return "model A and spec B disagree inside Lean (spec_agrees=false)"
        return None

    def classify(self, case, failure):
        """Return the id of the known finding whose class this failure belongs to, or None."""
        return None

    def shrink_candidates(self, case):
        """Yield strictly smaller variants of the case."""
        return []

    def has_model(self, case):
        return True

    def model_input(self, case, obs):
        """What is sent to the Lean driver for this case (default: the case itself).  May add state
        observed on the real implementation (e.g. an element's extracted state, tables computed from
        real scalars in isolation) when the model takes it as an input rather than recomputing it."""
        return case


# --------------------------------------------------------------------------------------
# build / audit


class BuildResult:
    def __init__(self):
        self.extract_problems = []  # translator obligations broken
        self.model_ok = True
        self.proof_ok = True
        self.driver_ok = True
        self.output = ""
        self.broken = []  # names of theorems / files that failed
        self.axioms = {}
        self.audit_problems = []
        self.forbidden_hits = []


def _run(cmd, cwd=None, timeout=3600, env=None):
    p = subprocess.run(
        cmd, cwd=cwd, stdout=subprocess.PIPE, stderr=subprocess.STDOUT, timeout=timeout, env=env
    )
    out = p.stdout.decode("utf-8", "replace")
    out = "\n".join(l for l in out.splitlines() if "conda.cli.condarc" not in l)
    return p.returncode, out


class BuildLock:
    def __enter__(self):
        os.makedirs(WORK, exist_ok=True)
        self.f = open(os.path.join(WORK, "build.lock"), "w")
        fcntl.flock(self.f, fcntl.LOCK_EX)
        return self

    def __exit__(self, *a):
        fcntl.flock(self.f, fcntl.LOCK_UN)
        self.f.close()


def grep_forbidden():
    hits = []
    for root, _, files in os.walk(LEAN):
        if ".lake" in root:
            continue
        for fn in files:
            if not fn.endswith(".lean"):
                continue
            path = os.path.join(root, fn)
            in_block = 0
            for n, line in enumerate(open(path, encoding="utf-8"), 1):
                # strip comments (block comments tracked coarsely, line comments exactly)
                text = line
                if in_block:
                    if "-/" in text:
                        text = text.split("-/", 1)[1]
                        in_block = 0
                    else:
                        continue
                while "/-" in text:
                    before, after = text.split("/-", 1)
                    if "-/" in after:
                        text = before + " " + after.split("-/", 1)[1]
                    else:
                        text = before
                        in_block = 1
                        break
                text = text.split("--", 1)[0]
                if FORBIDDEN.search(text):
                    hits.append("%s:%d: %s" % (os.path.relpath(path, VERIF), n, line.strip()))
    return hits


def lean_theorem_at(path, lineno):
    """Name of the theorem/def enclosing a line of a Lean file (for error reports)."""
    try:
        lines = open(path, encoding="utf-8").read().splitlines()
    except OSError:
        return None
    for i in range(min(lineno, len(lines)) - 1, -1, -1):
        m = re.match(r"\s*(?:@\[[^\]]*\]\s*)?(?:private\s+|protected\s+)?(theorem|lemma|def|example|instance|abbrev)\s+([^\s:({\[]+)?", lines[i])
        if m:
            return "%s %s" % (m.group(1), m.group(2) or "(anonymous, line %d)" % (i + 1))
    return None


def build(prop, clean=False):
    """Extract generated tables, build model + proofs + driver, audit axioms."""
    from harness import extract

    res = BuildResult()
    with BuildLock():
        t0 = time.time()
        try:
            res.extract_problems = extract.run(prop.id)
        except Exception as e:  # extractor crashed: an obligation, not an infra failure
            res.extract_problems = ["extractor raised %s: %s" % (type(e).__name__, e)]
        if clean and prop.proof_module:
            rel = prop.proof_module.replace(".", "/")
            for ext in (".olean", ".ilean", ".trace", ".olean.hash", ".ilean.hash"):
                p = os.path.join(LEAN, ".lake", "build", "lib", "lean", rel + ext)
                if os.path.exists(p):
                    os.remove(p)
        # 1. driver (model A + runners)
        rc, out = _run(["lake", "build", "driver"], cwd=LEAN)
        res.output += out
        if rc != 0:
            res.driver_ok = False
            res.model_ok = False
        # 2. proofs of this property (its own module and the shared modules it has obligations in)
        modules = ([prop.proof_module] if prop.proof_module else []) + list(getattr(prop, "extra_proof_modules", []))
        if modules:
            rc, out = _run(["lake", "build"] + modules, cwd=LEAN)
            res.output += "\n" + out
            if rc != 0:
                res.proof_ok = False
        for m in re.finditer(r"error: ([\w/\.]+\.lean):(\d+):(\d+): (.*)", res.output):
            thm = lean_theorem_at(os.path.join(LEAN, m.group(1)), int(m.group(2)))
            entry = "%s:%s %s — %s" % (m.group(1), m.group(2), thm or "?", m.group(4)[:160])
            if entry not in res.broken:
                res.broken.append(entry)
        # 3. axiom audit
        if res.proof_ok and prop.proof_module:
            audit_src = os.path.join(WORK, "Audit_%s.lean" % prop.id)
            with open(audit_src, "w") as f:
                f.write("import %s\n" % prop.proof_module)
                for m_ in getattr(prop, "extra_proof_modules", []):
                    f.write("import %s\n" % m_)
                for t in prop.theorems + prop.generated_obligations:
                    f.write("#print axioms %s\n" % t)
            rc, out = _run(["lake", "env", "lean", audit_src], cwd=LEAN)
            if rc != 0:
                res.audit_problems.append("audit failed: " + out[-800:])
            cur = None
            text = re.sub(r"\n[ \t]+", " ", out)      # `#print axioms` wraps long names / axiom lists onto indented lines
            for line in text.splitlines():
                m = re.match(r"'(.+)' depends on axioms: \[(.*)\]", line)          # names may contain primes
                if m:
                    res.axioms[m.group(1)] = [a.strip() for a in m.group(2).split(",") if a.strip()]
                    continue
                m = re.match(r"'(.+)' does not depend on any axioms", line)
                if m:
                    res.axioms[m.group(1)] = []
            for t in prop.theorems + prop.generated_obligations:
                if t not in res.axioms:
                    res.audit_problems.append("theorem %s not found by audit" % t)
                else:
                    bad = [a for a in res.axioms[t] if a not in ALLOWED_AXIOMS]
                    if bad:
                        res.audit_problems.append("theorem %s uses axioms %s" % (t, bad))
        res.forbidden_hits = grep_forbidden()
        res.wall = time.time() - t0
    return res


def setup():
    from harness import extract

    with BuildLock():
        probs = extract.run(None)
        for p in probs:
            log("extract:", p)
        rc, out = _run(["lake", "build"], cwd=LEAN)
        print(out[-3000:])
        return rc


# --------------------------------------------------------------------------------------
# running cases


class CaseTimeout(BaseException):     # not an Exception: no `except Exception` in a property module may swallow it
    pass


def _alarm(signum, frame):
    raise CaseTimeout()


_PROP = None
_SEQ = 0


def _worker_init(prop_id):
    global _PROP
    _PROP = load_property(prop_id)
    signal.signal(signal.SIGALRM, _alarm)


def _raised_in_library(e):
    """Did the exception originate in the library under test (innermost frame under REPO/src)?"""
    tb = traceback.extract_tb(e.__traceback__)
    return bool(tb) and os.path.realpath(tb[-1].filename).startswith(os.path.realpath(os.path.join(REPO, "src")) + os.sep)


def _worker_run(case):
    global _SEQ
    prop = _PROP
    _SEQ += 1
    out = {"obs": None, "oracle": [], "err": None, "_pid": os.getpid(), "_seq": _SEQ}
    signal.alarm(prop.case_timeout)
    try:
        try:
            out["obs"] = prop.run_impl(case)
        except CaseTimeout:
            # a loaded machine can trip the alarm: only a case that also exceeds six times the budget
            # when retried counts as non-terminating
            signal.alarm(prop.case_timeout * 6)
            out["obs"] = prop.run_impl(case)
    except CaseTimeout:
        out["obs"] = {"_timeout": True}
        out["oracle"].append({"clause": "terminates", "detail": "run_impl exceeded %ds twice (second try %ds)" % (prop.case_timeout, prop.case_timeout * 6)})
    except Exception as e:
        if _raised_in_library(e):
            # the runners catch every exception the library documents; one that escapes from library code
            # is an observation about the library (a failing input), not a crash of the harness
            out["obs"] = {"_raised": type(e).__name__}
            out["oracle"].append({"clause": "unexpected-exception", "exception": type(e).__name__,
                                  "detail": traceback.format_exc()[-1200:]})
        else:
            out["err"] = "run_impl crashed: " + traceback.format_exc()[-1500:]
    finally:
        signal.alarm(0)
    signal.alarm(prop.case_timeout)
    try:
        try:
            out["oracle"].extend(prop.oracle(case) or [])
        except CaseTimeout:
            signal.alarm(prop.case_timeout * 6)
            out["oracle"].extend(prop.oracle(case) or [])
    except CaseTimeout:
        out["oracle"].append({"clause": "terminates", "detail": "oracle exceeded %ds twice" % prop.case_timeout})
    except Exception as e:
        if _raised_in_library(e):
            if not any(f.get("clause") == "unexpected-exception" for f in out["oracle"]):
                out["oracle"].append({"clause": "unexpected-exception", "exception": type(e).__name__,
                                      "detail": traceback.format_exc()[-1200:]})
        else:
            out["err"] = (out["err"] or "") + "oracle crashed: " + traceback.format_exc()[-1500:]
    finally:
        signal.alarm(0)
    try:
        out["nontrivial"] = bool(prop.nontrivial(case, out["obs"])) if out["obs"] is not None else False
        out["tags"] = list(prop.tags(case, out["obs"])) if out["obs"] is not None else []
    except Exception:
        out["nontrivial"] = False
        out["tags"] = ["tags-crashed"]
    return out


def run_impl_many(prop, cases):
    if not cases:
        return []
    if len(cases) < 64 or NPROC == 1:
        _worker_init(prop.id)
        return [_worker_run(c) for c in cases]
    ctx = mp.get_context("fork")
    with ctx.Pool(NPROC, initializer=_worker_init, initargs=(prop.id,)) as pool:
        return pool.map(_worker_run, cases, chunksize=max(1, len(cases) // (NPROC * 8)))


def _fresh_seq(args):
    pid, seq = args
    _worker_init(pid)
    return [_worker_run(c) for c in seq]


def run_fresh(prop, seq):
    """Run a sequence of cases, in order, in ONE brand-new interpreter (spawned, not forked: nothing the
    parent has imported or cached is inherited; no state left over from other cases)."""
    ctx = mp.get_context("spawn")
    with ctx.Pool(1) as pool:
        return pool.apply(_fresh_seq, ((prop.id, list(seq)),))


def worker_history(cases, impl, i):
    """The cases the same worker process had already run when it ran case i (in that order)."""
    me = impl[i]
    prev = [(impl[j].get("_seq", 0), j) for j in range(len(cases))
            if j != i and impl[j].get("_pid") == me.get("_pid") and impl[j].get("_seq", 0) < me.get("_seq", 0)]
    return [cases[j] for _, j in sorted(prev)]


def shrink_history(prop, hist, last, fails_after, seconds=60):
    """ddmin over the history: drop chunks while `last` still fails when run after the rest in a fresh process."""
    deadline = time.time() + seconds
    cur = list(hist)
    n = 2
    while len(cur) >= 1 and time.time() < deadline:
        chunk = max(1, len(cur) // n)
        reduced = False
        for start in range(0, len(cur), chunk):
            cand = cur[:start] + cur[start + chunk:]
            if time.time() > deadline:
                break
            if fails_after(cand, last):
                cur = cand
                n = max(n - 1, 2)
                reduced = True
                break
        if not reduced:
            if chunk == 1:
                break
            n = min(len(cur), n * 2)
    return cur


def run_model_many(prop, cases):
    """Pipe the cases through the compiled Lean driver (fallback: lake env lean --run)."""
    if not cases:
        return []
    os.makedirs(WORK, exist_ok=True)
    inp = os.path.join(WORK, "cases_%s_%d.jsonl" % (prop.id, os.getpid()))
    with open(inp, "w") as f:
        for c in cases:
            d = dict(c)
            d["p"] = prop.id
            f.write(canon(d) + "\n")
    cmd = [DRIVER] if os.path.exists(DRIVER) else ["lake", "env", "lean", "--run", "Driver.lean"]
    try:
        with open(inp) as fin:
            p = subprocess.run(cmd, cwd=LEAN, stdin=fin, stdout=subprocess.PIPE, stderr=subprocess.PIPE, timeout=3600)
    finally:
        os.remove(inp)
    # split on '\n' only: str.splitlines() would also break at U+0085/U+2028/\x1c.. inside JSON strings
    lines = [l for l in p.stdout.decode("utf-8", "replace").split("\n") if l != ""]
    outs = []
    for l in lines:
        try:
            outs.append(json.loads(l))
        except ValueError:
            outs.append({"driver_error": "unparsable output: " + l[:200]})
    while len(outs) < len(cases):
        outs.append({"driver_error": "driver produced no output (rc=%s, stderr=%s)" % (p.returncode, p.stderr.decode()[-300:])})
    return outs


def shrink(prop, case, still_fails, budget=400, seconds=40):
    """Greedy delta: keep taking the first smaller variant that still fails (bounded in steps and time)."""
    cur = case
    steps = 0
    improved = True
    deadline = time.time() + seconds
    while improved and steps < budget and time.time() < deadline:
        improved = False
        for cand in prop.shrink_candidates(cur):
            steps += 1
            if steps > budget or time.time() > deadline:
                break
            try:
                if still_fails(cand):
                    cur = cand
                    improved = True
                    break
            except Exception:
                continue
    return cur


def load_property(pid):
    mod = importlib.import_module("harness.props.%s" % pid.lower())
    prop = mod.PROP
    # class-attribute table regenerated from the source (harness/extractors/classtable.py): the agreement theorems
    # of Proofs/ClassTable.lean that concern this property are obligations of its check
    if not getattr(prop, "_classtable_wired", False):
        # an extractor that cannot be imported is a broken obligation of every check, not a reason to drop them
        from harness.extractors.classtable import OBLIGATIONS
        extra = [t for t in OBLIGATIONS.get(pid, []) if t not in prop.generated_obligations]
        if extra:
            prop.generated_obligations = list(prop.generated_obligations) + extra
            prop.extra_proof_modules = list(getattr(prop, "extra_proof_modules", [])) + ["Proofs.ClassTable"]
        prop._classtable_wired = True
    return prop


def load_known_findings(pid):
    path = os.path.join(VERIF, "known_findings.json")
    if not os.path.exists(path):
        return []
    data = json.load(open(path))
    found = [f for f in data.get("findings", []) if f.get("property") == pid and f.get("status", "open") == "open"]
    # per-property proposals (merged into known_findings.json when a check is integrated)
    extra = os.path.join(VERIF, "harness", "props", "%s_findings.json" % pid.lower())
    if os.path.exists(extra):
        have = {f["id"] for f in found}
        for f in json.load(open(extra)).get("findings", []):
            if f.get("property") == pid and f.get("status", "open") == "open" and f["id"] not in have:
                found.append(f)
    return found


def write_replay(pid, kind, payload):
    os.makedirs(REPLAY, exist_ok=True)
    h = chash(payload)
    path = os.path.join(REPLAY, "%s-%s-%s.json" % (pid, kind, h))
    with open(path, "w") as f:
        json.dump(payload, f, indent=1, sort_keys=True, ensure_ascii=True)
    return path


# --------------------------------------------------------------------------------------
# the check


def run_check(pid, tier, seed):
    t0 = time.time()
    prop = load_property(pid)
    import flatland

    src = os.path.dirname(os.path.abspath(flatland.__file__))
    if not src.startswith(os.path.join(REPO, "src")):
        log("flatland is imported from %s, not from %s/src" % (src, REPO))
        return 2

    violations = []  # (replay_path, suffix)
    known_lines = []
    notes = []

    # 1+2: extract, build, audit
    b = build(prop, clean=(tier == "thorough"))
    obligations = len(prop.theorems) + len(prop.generated_obligations)
    discharged = 0
    if b.proof_ok and not b.audit_problems:
        discharged = sum(1 for t in prop.theorems + prop.generated_obligations if t in b.axioms)
    proof_broken = (not b.proof_ok) or bool(b.audit_problems) or bool(b.extract_problems) or bool(
        [h for h in b.forbidden_hits]
    )
    if b.forbidden_hits:
        notes.append("forbidden tokens: %s" % b.forbidden_hits[:5])
    if not b.driver_ok:
        notes.append("driver/model build failed")

    leanchecker = None
    if tier == "thorough" and b.proof_ok and prop.proof_module:
        rc, out = _run(["lake", "env", "leanchecker", prop.proof_module] + list(getattr(prop, "extra_proof_modules", [])),
                       cwd=LEAN, timeout=1800)
        leanchecker = {"rc": rc, "tail": out[-300:]}
        if rc != 0:
            proof_broken = True
            notes.append("leanchecker rejected %s" % prop.proof_module)

    # 3: cases
    rng = random.Random(seed)
    n = prop.quick_n if tier == "quick" else prop.thorough_n
    try:
        corpus = list(prop.corpus())
        exh = list(prop.exhaustive(tier))
        gen = list(prop.generate(rng, n, tier))
    except Exception as e:
        if not _raised_in_library(e):
            raise
        # a generator that builds its subjects with the real library met an exception escaping from LIBRARY code:
        # that is an observation about the library (no documented call raises there), not a harness failure
        path = write_replay(pid, "violation", {"property": pid, "tier": tier, "seed": seed,
                                                "kind": "library-raised-while-building-cases",
                                                "exception": type(e).__name__, "traceback": traceback.format_exc()[-3000:],
                                                "how_to_replay": "VERIF_SEED=%d ./check %s --tier %s" % (seed, pid, tier)})
        print("VIOLATION property=%s replay=%s" % (pid, path))
        log("[%s] VIOLATION: %s escaped from library code while the cases were being built" % (pid, type(e).__name__))
        return 1
    cases = corpus + exh + gen
    origin = ["corpus"] * len(corpus) + ["exhaustive"] * len(exh) + ["generated"] * len(gen)
    log("[%s] %d cases (%d corpus, %d exhaustive, %d generated); build %.1fs" % (pid, len(cases), len(corpus), len(exh), len(gen), b.wall))

    impl = run_impl_many(prop, cases)
    t_impl = time.time()
    model_idx = [i for i, c in enumerate(cases) if prop.has_model(c) and not (impl[i]["obs"] or {}).get("_raised")]
    model = {}
    if b.driver_ok:
        outs = run_model_many(prop, [prop.model_input(cases[i], impl[i]["obs"]) for i in model_idx])
        model = dict(zip(model_idx, outs))
    t_model = time.time()

    crashed = [(i, r["err"]) for i, r in enumerate(impl) if r["err"]]
    if crashed:
        log("harness crashed on case %s:\n%s" % (canon(cases[crashed[0][0]])[:500], crashed[0][1]))
        return 2

    disagreements = []
    for i in model_idx:
        if i in model:
            d = prop.compare(impl[i]["obs"], model[i])
            if d:
                disagreements.append((i, d))

    findings = load_known_findings(pid)
    finding_ids = {f["id"]: f for f in findings}
    seen_findings = {}
    unknown_failures = []
    for i, r in enumerate(impl):
        for fail in r["oracle"]:
            fid = prop.classify(cases[i], fail)
            if fid is not None and fid in finding_ids:
                seen_findings.setdefault(fid, (cases[i], fail))
            else:
                unknown_failures.append((i, fail))

    # 4: verdict
    def oracle_fails(case):
        _worker_init(pid)
        r = _worker_run(case)
        return any(prop.classify(case, f) not in finding_ids for f in r["oracle"])

    reported = set()
    for i, fail in unknown_failures:
        key = fail.get("clause", "?")
        if key in reported or len(reported) >= 3:
            continue
        reported.add(key)
        # does the case fail on its own, in a process that has run nothing else?
        alone = run_fresh(prop, [cases[i]])[-1]
        alone_bad = [f for f in alone["oracle"] if prop.classify(cases[i], f) not in finding_ids]
        if not alone_bad:
            # history-dependent: the failure needs what the same process did before (state leaking
            # between calls).  The replay is the shortest call history found that still produces it.
            def fails_after(hist, last):
                rr = run_fresh(prop, list(hist) + [last])[-1]
                return any(prop.classify(last, f) not in finding_ids for f in rr["oracle"])
            hist = worker_history(cases, impl, i)
            if fails_after(hist, cases[i]):
                hist = shrink_history(prop, hist, cases[i], fails_after)
                rr = run_fresh(prop, hist + [cases[i]])[-1]
                path = write_replay(pid, "violation", {
                    "property": pid, "kind": "oracle-failure-history-dependent", "seed": seed, "tier": tier,
                    "history": hist, "case": cases[i], "origin": origin[i],
                    "failures": [f for f in rr["oracle"]] or [fail], "observed": rr["obs"],
                    "observed_alone": alone["obs"],
                    "note": "the case passes in a fresh process and fails after the listed history: state leaks between calls",
                })
                violations.append((path, ""))
                continue
            notes.append("a failure of clause %r was observed once but reproduces neither alone nor after its worker's history" % key)
            path = write_replay(pid, "violation", {
                "property": pid, "kind": "oracle-failure-not-reproducible", "seed": seed, "tier": tier,
                "case": cases[i], "origin": origin[i], "failures": [fail], "observed": impl[i]["obs"],
                "history_tried": len(hist),
            })
            violations.append((path, ""))
            continue
        small = shrink(prop, cases[i], oracle_fails)
        _worker_init(pid)
        r = _worker_run(small)
        path = write_replay(pid, "violation", {
            "property": pid, "kind": "oracle-failure", "seed": seed, "tier": tier,
            "case": small, "original_case": cases[i], "origin": origin[i],
            "failures": [f for f in r["oracle"]] or [fail], "observed": r["obs"],
        })
        violations.append((path, ""))

    search_info = None
    if (disagreements or proof_broken or not b.driver_ok) and not violations:
        # the proof or the correspondence no longer checks: search for a failing input
        what = []
        if b.extract_problems:
            what += ["translator obligation broken: " + p for p in b.extract_problems]
        if not b.proof_ok or not b.driver_ok:
            what += ["lake build failed: " + x for x in (b.broken or ["(see build output)"])]
        what += b.audit_problems
        what += ["forbidden token: " + h for h in b.forbidden_hits]
        if leanchecker and leanchecker["rc"] != 0:
            what.append("leanchecker: " + leanchecker["tail"])
        found = None
        tried = 0
        # (a) disagreeing cases and their shrunk forms
        def disagrees(case):
            _worker_init(pid)
            r = _worker_run(case)
            if r["err"]:
                return False
            m = run_model_many(prop, [prop.model_input(case, r["obs"])])[0]
            return prop.compare(r["obs"], m) is not None

        shrunk_dis = []
        hist_found = None
        for i, d in disagreements[:3]:
            # a disagreement that does not show when the case runs alone in a spawned interpreter depends
            # on what the worker did before: rebuild that history, and ask the oracle after it
            if b.driver_ok and hist_found is None:
                try:
                    alone = run_fresh(prop, [cases[i]])[-1]
                    m_alone = run_model_many(prop, [prop.model_input(cases[i], alone["obs"])])[0] if alone["obs"] is not None else None
                    alone_dis = m_alone is not None and prop.compare(alone["obs"], m_alone) is not None
                except Exception:
                    alone_dis = True
                if not alone_dis:
                    def dis_after(hist, last):
                        rr = run_fresh(prop, list(hist) + [last])[-1]
                        if rr["obs"] is None:
                            return False
                        mm = run_model_many(prop, [prop.model_input(last, rr["obs"])])[0]
                        return prop.compare(rr["obs"], mm) is not None
                    hist = worker_history(cases, impl, i)
                    if dis_after(hist, cases[i]):
                        hist = shrink_history(prop, hist, cases[i], dis_after, seconds=45)
                        rr = run_fresh(prop, hist + [cases[i]])[-1]
                        bad_h = [f for f in rr["oracle"] if prop.classify(cases[i], f) not in finding_ids]
                        hist_found = {"history": hist, "case": cases[i], "observed": rr["obs"],
                                      "observed_alone": alone["obs"], "failures": bad_h,
                                      "diff": prop.compare(rr["obs"], run_model_many(prop, [prop.model_input(cases[i], rr["obs"])])[0])}
            small = shrink(prop, cases[i], disagrees, budget=150) if b.driver_ok else cases[i]
            _worker_init(pid)
            r = _worker_run(small)
            m = run_model_many(prop, [prop.model_input(small, r["obs"])])[0] if b.driver_ok else None
            shrunk_dis.append({"case": small, "impl": r["obs"], "model": m, "diff": prop.compare(r["obs"], m) if m else d, "original_diff": d})
            tried += 1
            bad = [f for f in r["oracle"] if prop.classify(small, f) not in finding_ids]
            if bad and not found:
                found = (small, bad, r["obs"])
        # (b) a larger seeded search with the oracle alone
        if not found:
            deadline = time.time() + (60 if tier == "quick" else 600)
            rng2 = random.Random(seed * 7919 + 1)
            while time.time() < deadline and not found:
                batch = list(prop.generate(rng2, 4000, "thorough"))
                rs = run_impl_many(prop, batch)
                tried += len(batch)
                for c, r in zip(batch, rs):
                    bad = [f for f in r["oracle"] if prop.classify(c, f) not in finding_ids]
                    if bad:
                        found = (c, bad, r["obs"])
                        break
        search_info = {"tried": tried, "found": bool(found)}
        if not found and hist_found and hist_found["failures"]:
            path = write_replay(pid, "violation", {
                "property": pid, "kind": "oracle-failure-history-dependent-after-broken-correspondence", "seed": seed, "tier": tier,
                "history": hist_found["history"], "case": hist_found["case"], "failures": hist_found["failures"],
                "observed": hist_found["observed"], "observed_alone": hist_found["observed_alone"],
                "broken_obligations": what,
                "note": "the case agrees with the model in a fresh process and fails after the listed history: state leaks between calls",
            })
            violations.append((path, ""))
            search_info["found"] = True
        elif found:
            case, bad, obs = found
            small = shrink(prop, case, oracle_fails)
            _worker_init(pid)
            r = _worker_run(small)
            path = write_replay(pid, "violation", {
                "property": pid, "kind": "oracle-failure-after-broken-obligation", "seed": seed, "tier": tier,
                "case": small, "original_case": case, "failures": r["oracle"] or bad, "observed": r["obs"],
                "broken_obligations": what, "disagreements": shrunk_dis,
            })
            violations.append((path, ""))
        else:
            path = write_replay(pid, "unproved", {
                "property": pid, "kind": "obligation-broken-no-failing-input", "seed": seed, "tier": tier,
                "broken_obligations": what,
                "correspondence_disagreements": shrunk_dis,
                "history_dependent_disagreement": ({k: hist_found[k] for k in ("history", "case", "observed", "observed_alone", "diff")} if hist_found else None),
                "n_disagreements": len(disagreements),
                "searched_inputs": tried,
                "build_output_tail": b.output[-2500:] if (not b.proof_ok or not b.driver_ok) else "",
            })
            violations.append((path, " no-failing-input-found"))

    # known findings: the witness of a listed finding must still fail
    stale = []
    for f in findings:
        fid = f["id"]
        if fid in seen_findings:
            known_lines.append("KNOWN-FINDING: property=%s %s %s" % (pid, fid, f.get("what", "")))
        else:
            stale.append(fid)
            notes.append("known finding %s did not reproduce in this run (stale entry?)" % fid)

    # 5: evidence
    tags = {}
    for r in impl:
        for t in r.get("tags", []):
            tags[t] = tags.get(t, 0) + 1
    nontrivial = set()
    for c, r in zip(cases, impl):
        if r.get("nontrivial"):
            nontrivial.add(chash(c))
    samples = []
    for idx in ([0, len(corpus), len(corpus) + len(exh), len(cases) - 1]):
        if 0 <= idx < len(cases):
            samples.append({"case": cases[idx], "implementation": impl[idx]["obs"], "model": model.get(idx)})
    samples = samples[:4]
    ev = {
        "property_id": pid,
        "tier": tier,
        "seed": seed,
        "level": "proof",
        "coverage": {
            "obligations": obligations,
            "discharged": discharged,
            "checker_cmd": "cd lean && lake build %s && lake env lean <#print axioms of each theorem>%s" % (
                prop.proof_module, " && lake env leanchecker %s" % prop.proof_module if tier == "thorough" else ""),
            "trusted_base": ["Lean 4.33 kernel", "axioms: propext, Classical.choice, Quot.sound only (audited this run)",
                             "harness/extract.py (generated tables, source pins)",
                             "correspondence harness (differential testing of model A vs /repo/src)"] + list(prop.trusted_base),
            "theorems": {t: b.axioms.get(t) for t in prop.theorems + prop.generated_obligations},
            "evaluations": len(cases),
            "distinct_nontrivial": len(nontrivial),
            "rule": prop.rule,
            "samples": samples,
            "traces_validated_against_impl": len(model_idx) - len(disagreements) if b.driver_ok else 0,
            "disagreements": len(disagreements),
            "corpus_cases": len(corpus),
            "exhaustive_cases": len(exh),
            "exhaustive": False,
            "exhaustive_subspace": getattr(prop, "exhaustive_note", "") if exh else "",
            "generated_cases": len(gen),
            "distribution": dict(sorted(tags.items())),
            "known_findings_seen": sorted(seen_findings),
            "known_findings_stale": stale,
            "failing_input_search": search_info,
            "extract_problems": b.extract_problems,
            "leanchecker": leanchecker,
            "flatland_source": src,
            "notes": notes,
        },
        "assumptions": list(prop.assumptions),
        "wall_s": round(time.time() - t0, 2),
        "violations": len(violations),
    }
    os.makedirs(EVID, exist_ok=True)
    with open(os.path.join(EVID, "%s.json" % pid), "w") as f:
        json.dump(ev, f, indent=1, sort_keys=True, ensure_ascii=True)

    for l in known_lines:
        print(l)
    for path, suffix in violations:
        print("VIOLATION property=%s replay=%s%s" % (pid, path, suffix))
    log("[%s] %s tier=%s seed=%d cases=%d nontrivial=%d disagreements=%d oracle_failures=%d(known %d) "
        "obligations=%d/%d impl=%.1fs model=%.1fs total=%.1fs" % (
            pid, "VIOLATION" if violations else "ok", tier, seed, len(cases), len(nontrivial), len(disagreements),
            len(unknown_failures) + len(seen_findings), len(seen_findings), discharged, obligations,
            t_impl - t0 - b.wall, t_model - t_impl, time.time() - t0))
    return 1 if violations else 0


def replay(pid, path):
    prop = load_property(pid)
    data = json.load(open(path))
    case = data.get("case")
    if case is None:
        print(json.dumps(data, indent=1)[:4000])
        print("replay file names broken obligations only (no failing input)")
        return 1
    hist = data.get("history")
    if hist:
        print("history: %d earlier case(s) run first in the same fresh process" % len(hist))
        r = run_fresh(prop, list(hist) + [case])[-1]
    else:
        _worker_init(pid)
        r = _worker_run(case)
    m = run_model_many(prop, [prop.model_input(case, r["obs"])])[0] if os.path.exists(DRIVER) and prop.has_model(case) else None
    print("case:", canon(case))
    print("implementation:", canon(r["obs"]))
    print("model:", canon(m))
    print("oracle failures:", canon(r["oracle"]))
    return 1 if r["oracle"] else 0
