"""Translator part of the tie: re-extract tables / straight-line chains / regex pins from the
CURRENT /repo source into lean/Flatland/Generated/*.lean.  Files are only rewritten when their
content changes (keeps lake incremental).  Returns a list of broken translator obligations."""
import os

from harness import core

GEN = os.path.join(core.LEAN, "Flatland", "Generated")
EXTRACTORS = {}  # property id -> list of callables returning list of problems


def write_if_changed(name, text):
    os.makedirs(GEN, exist_ok=True)
    path = os.path.join(GEN, name)
    old = open(path).read() if os.path.exists(path) else None
    if old != text:
        with open(path, "w") as f:
            f.write(text)


def register(pid):
    def deco(fn):
        EXTRACTORS.setdefault(pid, []).append(fn)
        return fn
    return deco


def run(pid):
    # import extractor modules (they register themselves)
    import importlib, pkgutil
    import harness.extractors as ex
    for m in pkgutil.iter_modules(ex.__path__):
        importlib.import_module("harness.extractors." + m.name)
    problems = []
    # generated files are shared by the whole lake project, so always run all extractors;
    # only the problems of the requested property are reported as its obligations
    for p, fns in sorted(EXTRACTORS.items()):
        for fn in fns:
            try:
                ps = fn() or []
            except Exception as e:
                ps = ["%s raised %s: %s" % (fn.__name__, type(e).__name__, e)]
            if pid is None or p == pid:
                problems.extend(ps)
    return problems
