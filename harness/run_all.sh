#!/bin/bash
# run every claimed check (quick tier unless $1 = thorough) on the current tree and validate evidence + manifest
cd "$(dirname "$0")/.." || exit 2
TIER="${1:-quick}"
/venv/bin/python harness/manifest_gen.py 2>&1 | grep -av conda
FAIL=0
for id in $(python3 -c "import json; print(' '.join(c['property_id'] for c in json.load(open('MANIFEST.json'))['checks']))" 2>/dev/null); do
  S=$(date +%s)
  OUT=$(./check $id --tier $TIER 2>&1); RC=$?
  E=$(( $(date +%s) - S ))
  echo "$id rc=$RC ${E}s $(echo "$OUT" | grep -ac '^KNOWN-FINDING') known; $(echo "$OUT" | grep -a '^VIOLATION' | head -2 | tr '\n' ' ')"
  [ $RC -ne 0 ] && FAIL=1
done
python3-vt - <<'PY' 2>&1 | grep -av conda
import json,jsonschema,glob
man=json.load(open('MANIFEST.json'))
jsonschema.validate(man, json.load(open('/root/.vp/MANIFEST.schema.json')))
sch=json.load(open('/root/.vp/EVIDENCE.schema.json'))
for c in man['checks']:
    jsonschema.validate(json.load(open(c['evidence_file'])), sch)
print("manifest + %d evidence files valid" % len(man['checks']))
PY
exit $FAIL
