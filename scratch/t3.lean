import Proofs.C09
open Flatland.Tree Flatland.PyList Flatland.C09 Flatland.C09.Spec Flatland.C09.Proofs
def exDictS : Schema := .mk { cid := 3, kind := .dict } .none [.mk { cid := 4, kind := .integer, name := some ['x'] } .none []]
def dx (v : Val) (u : Str) : Sig := .map [(['x'], .sc v u)]
example : (refStep [dx (.int 5) ['5'], dx (.int 2) ['2'], dx (.int 5) ['5'], dx (.int 2) ['2']] (.remove (dx (.int 2) ['2']))).1 = [dx (.int 5) ['5'], dx (.int 5) ['5'], dx (.int 2) ['2']] := rfl
example : (refStep [dx (.int 5) ['5'], dx (.int 5) ['5'], dx (.int 2) ['2']] (.setslice ⟨some 1, some 3, none⟩ [dx (.int 7) ['7']])).1 = [dx (.int 5) ['5'], dx (.int 7) ['7']] := rfl
