import Flatland.Tree
open Flatland.Tree
#check @setNode.mutual_induct
#check @blank.mutual_induct
#check @fromDefaults.mutual_induct
#check @setDefault.mutual_induct
#check @sig.mutual_induct
