import Proofs.C09
open Flatland.Tree Flatland.PyList Flatland.C09 Flatland.C09.Spec Flatland.C09.Proofs
def exInt : Schema := .mk { cid := 2, kind := .integer } .none []
def exDictS : Schema := .mk { cid := 3, kind := .dict } .none [.mk { cid := 4, kind := .integer, name := some ['x'] } .none []]
example : WrapOK exDictS (.int 5) := ⟨false, rfl⟩
example : WrapOK exDictS (.int 5) := by decide
example : WrapOK exDictS (.dict [(['x'], .int 5)]) := ⟨true, rfl⟩
example : wrapSig exDictS (.dict [(['x'], .int 5)]) = .map [(['x'], .sc (.int 5) ['5'])] := rfl
example : ∃ b, (fromDefaults exInt none [] 0).res = .ok b := ⟨true, rfl⟩
example : defaultSig exInt = .sc .none [] := rfl
